"""Per-run analysis context handed to the rule modules."""

from __future__ import annotations

import ast
from typing import Dict, Optional

from .cfg import CFG
from .loader import Func, Repo
from .report import Report, construct
from .resolve import Resolver
from .astutil import head, src


class Ctx:
    def __init__(self, prop: str, tier: str, root: Optional[str] = None):
        self.prop = prop
        self.tier = tier
        self.repo = Repo(root, with_scripts=(tier == "thorough"))
        self.rep = Report(prop, tier)
        self._rs: Optional[Resolver] = None
        self._cfg: Dict[str, CFG] = {}
        self._cdefs: Dict[str, dict] = {}

    @property
    def rs(self) -> Resolver:
        if self._rs is None:
            self._rs = Resolver(self.repo)
        return self._rs

    def cfg(self, f: Func) -> CFG:
        if f.fq not in self._cfg:
            self._cfg[f.fq] = CFG(f.node)
        return self._cfg[f.fq]

    def cdefs(self, modname: str) -> dict:
        if modname not in self._cdefs:
            from . import cdefs

            self._cdefs[modname] = cdefs.discover(self.repo.module(modname))
        return self._cdefs[modname]

    # ------------------------------------------------------------------ obligation helpers
    def ob(self, rule: str, kind: str, where, text: str, ok: bool, detail: str, node: Optional[ast.AST] = None, nontrivial=True, undecided=False):
        """where: Func or file-ish string; text: normalised construct text."""
        if isinstance(where, Func):
            file = where.module.relpath
            line = getattr(node, "lineno", None) or getattr(where.node, "lineno", 0)
        else:
            file = str(where)
            line = getattr(node, "lineno", 0) if node is not None else 0
        return self.rep.ob(rule, kind, construct(where, text), ok, detail, file, line, nontrivial, undecided)

    def undecided(self, rule: str, kind: str, where, text: str, detail: str, node: Optional[ast.AST] = None):
        """The rule cannot locate the construct it reasons about (the code at the anchor was reshaped beyond what the rule
        understands).  Nothing is claimed about it: not a violation, listed under `undecided` in the evidence."""
        return self.ob(rule, kind, where, text, False, "UNDECIDED: " + detail, node, undecided=True)


    def import_obligations(self, rule: str, fn, *args, **kw) -> int:
        """Evaluate rule function `fn` of another property and re-emit its obligations under `rule` of this one.

        Used where one property structurally depends on another's obligations (the dependency is part of this
        property's necessary conditions).  The construct key keeps the original rule id for traceability."""
        from .report import Report

        saved = self.rep
        tmp = Report(saved.prop, saved.tier)
        tmp.prop = getattr(fn, "__module__", "x").split(".")[-1].upper()
        self.rep = tmp
        try:
            fn(self, *args, **kw)
        finally:
            self.rep = saved
        for o in tmp.obs:
            f, _, rest = o.construct.partition("::")
            saved.ob(rule, o.kind, f"{f}::[{o.rule}] {rest}", o.ok, o.detail, o.file, o.line, o.nontrivial, o.undecided)
        for e in tmp.analysis_errors:
            saved.error(e)
        saved.notes.extend(tmp.notes)
        return len(tmp.obs)
