"""Semantics-preserving normalisation of a parsed module, applied by the loader before any rule sees the tree.

The rules were written against the vocabulary of the pinned tree (its functions and module-level names).  A maintainer's
clean-up typically introduces *new named abstractions* - a helper function extracted from a body, a literal hoisted to a
module constant.  Both are transparent to behaviour, so they are made transparent to the analysis:

  * **constant folding** - a module-level name bound exactly once to a scalar literal (int / bytes / str, possibly a
    constant expression such as ``4 + 4``) that the baseline vocabulary does not know is replaced by its value wherever a
    function of the module loads it;
  * **helper inlining** - a function or method that the baseline vocabulary does not know is substituted into its call
    sites in the same module: an expression-bodied helper as an expression; a statement-bodied helper by splicing its
    body (locals renamed apart, parameters bound to the arguments) before the calling statement - directly when the
    call is the whole returned value (``return h(..)``: the helper's own returns stay returns), otherwise after turning
    the helper's returns into one assignment (early returns become if/else nesting; not attempted through loops).
    Generators are spliced for ``yield from h(..)``.

Both transformations are behaviour-preserving whatever the vocabulary says; the vocabulary (``baseline_names.json``,
generated from the pinned tree) only decides *which* names are expanded, so that constructs the rules anchor on by name
are left alone.  What could not be expanded is left as it is (and recorded in ``stats``).
"""

from __future__ import annotations

import ast
import copy
import json
import os
from typing import Dict, List, Optional, Set, Tuple

_BASE: Optional[dict] = None


def baseline() -> dict:
    global _BASE
    if _BASE is None:
        p = os.path.join(os.path.dirname(os.path.abspath(__file__)), "baseline_names.json")
        try:
            with open(p) as f:
                _BASE = json.load(f)
        except OSError:
            _BASE = {}
    return _BASE


# --------------------------------------------------------------------------------------------- small helpers
def _const_value(node: ast.AST, env: Optional[Dict[str, object]] = None):
    """Value of a scalar constant expression (names resolved through `env`, if given), or raise ValueError."""
    if env and isinstance(node, ast.Name) and node.id in env:
        return env[node.id]
    if isinstance(node, ast.Constant) and type(node.value) in (int, bytes, str):
        return node.value
    if isinstance(node, ast.UnaryOp) and isinstance(node.op, ast.USub):
        v = _const_value(node.operand, env)
        if type(v) is int:
            return -v
    if isinstance(node, ast.BinOp) and isinstance(node.op, (ast.Add, ast.Sub, ast.Mult, ast.LShift, ast.BitOr, ast.BitAnd)):
        a, b = _const_value(node.left, env), _const_value(node.right, env)
        if type(a) is int and type(b) is int:
            if isinstance(node.op, ast.LShift) and not (0 <= b <= 64):
                raise ValueError
            return {ast.Add: a + b, ast.Sub: a - b, ast.Mult: a * b, ast.LShift: a << b if isinstance(node.op, ast.LShift) else 0,
                    ast.BitOr: a | b, ast.BitAnd: a & b}[type(node.op)]
        if isinstance(node.op, ast.Add) and type(a) is type(b) and type(a) in (bytes, str):
            return a + b
    if isinstance(node, ast.Call) and isinstance(node.func, ast.Attribute) and node.func.attr == "join" and len(node.args) == 1 and not node.keywords \
            and isinstance(node.func.value, ast.Constant) and type(node.func.value.value) in (str, bytes) and isinstance(node.args[0], (ast.Tuple, ast.List)):
        parts = [_const_value(x, env) for x in node.args[0].elts]
        if all(type(x) is type(node.func.value.value) for x in parts):
            return node.func.value.value.join(parts)
        raise ValueError
    if isinstance(node, ast.BinOp) and isinstance(node.op, ast.Mod) and isinstance(node.left, ast.Constant) and type(node.left.value) is str:
        # "text %d text" % (CONST,) - old-style formatting of constants with %d / %s / %x only
        import re as _re

        right = node.right.elts if isinstance(node.right, ast.Tuple) else [node.right]
        vals = tuple(_const_value(x, env) for x in right)
        specs = _re.findall(r"%(?!%)[-0-9.]*([a-zA-Z])", node.left.value)
        if all(s in "dsxX" for s in specs) and len(specs) == len(vals):
            try:
                return node.left.value % vals
            except (TypeError, ValueError):
                raise ValueError
        raise ValueError
    if isinstance(node, ast.Call) and isinstance(node.func, ast.Attribute) and isinstance(node.func.value, ast.Name) and node.func.value.id == "bytes" \
            and node.func.attr == "fromhex" and len(node.args) == 1 and isinstance(node.args[0], ast.Constant) and isinstance(node.args[0].value, str):
        return bytes.fromhex(node.args[0].value)
    raise ValueError


def _local_names(fn: ast.AST) -> Set[str]:
    """Parameters and every name bound anywhere inside fn (nested scopes included: conservative)."""
    out: Set[str] = set()
    a = fn.args
    for x in a.posonlyargs + a.args + a.kwonlyargs:
        out.add(x.arg)
    if a.vararg:
        out.add(a.vararg.arg)
    if a.kwarg:
        out.add(a.kwarg.arg)
    for n in ast.walk(fn):
        if isinstance(n, ast.Name) and isinstance(n.ctx, (ast.Store, ast.Del)):
            out.add(n.id)
        elif isinstance(n, (ast.FunctionDef, ast.AsyncFunctionDef, ast.ClassDef)) and n is not fn:
            out.add(n.name)
        elif isinstance(n, ast.arg):
            out.add(n.arg)
        elif isinstance(n, (ast.Import, ast.ImportFrom)):
            for al in n.names:
                out.add((al.asname or al.name).split(".")[0])
        elif isinstance(n, (ast.Global, ast.Nonlocal)):
            out.update(n.names)
        elif isinstance(n, ast.ExceptHandler) and n.name:
            out.add(n.name)
    return out


def _functions(tree: ast.Module):
    """(qualname, node, class node or None) for module-level functions and methods of module-level classes."""
    for st in tree.body:
        if isinstance(st, (ast.FunctionDef, ast.AsyncFunctionDef)):
            yield st.name, st, None
        elif isinstance(st, ast.ClassDef):
            for s2 in st.body:
                if isinstance(s2, (ast.FunctionDef, ast.AsyncFunctionDef)):
                    yield f"{st.name}.{s2.name}", s2, st


# --------------------------------------------------------------------------------------------- constant folding
def new_scalar_constants(tree: ast.Module, known: Set[str]) -> Dict[str, object]:
    """Module-level names outside the baseline vocabulary bound exactly once to a scalar constant expression."""
    binds: Dict[str, List[ast.AST]] = {}
    for st in tree.body:
        if isinstance(st, ast.Assign):
            for t in st.targets:
                for n in ast.walk(t):
                    if isinstance(n, ast.Name):
                        binds.setdefault(n.id, []).append(st.value if (len(st.targets) == 1 and t is n) else None)
        elif isinstance(st, ast.AnnAssign) and isinstance(st.target, ast.Name):
            binds.setdefault(st.target.id, []).append(st.value)
        elif isinstance(st, ast.AugAssign) and isinstance(st.target, ast.Name):
            binds.setdefault(st.target.id, []).append(None)
    out: Dict[str, object] = {}
    for _round in range(4):  # constants defined from other new constants
        grew = False
        for name, vals in binds.items():
            if name in known or name in out or len(vals) != 1 or vals[0] is None:
                continue
            try:
                out[name] = _const_value(vals[0], out)
                grew = True
            except ValueError:
                continue
        if not grew:
            break
    for n in ast.walk(tree):
        if isinstance(n, ast.Global):
            for x in n.names:
                out.pop(x, None)
    return out


def fold_constants(tree: ast.Module, known: Set[str], stats: dict, foreign: Optional[Dict[str, Dict[str, object]]] = None) -> None:
    binds: Dict[str, List[ast.AST]] = {}
    for st in tree.body:
        if isinstance(st, ast.Assign):
            for t in st.targets:
                for n in ast.walk(t):
                    if isinstance(n, ast.Name):
                        binds.setdefault(n.id, []).append(st.value if (len(st.targets) == 1 and t is n) else None)
        elif isinstance(st, ast.AnnAssign) and isinstance(st.target, ast.Name):
            binds.setdefault(st.target.id, []).append(st.value)
        elif isinstance(st, ast.AugAssign) and isinstance(st.target, ast.Name):
            binds.setdefault(st.target.id, []).append(None)
    consts = {}
    exprs: Dict[str, ast.AST] = {}

    def stable(e) -> bool:
        # a constant, or a dotted name rooted at a module-level name of the baseline vocabulary (e.g. pestruct.X)
        if isinstance(e, ast.Constant):
            return True
        d = e
        while isinstance(d, ast.Attribute):
            d = d.value
        return isinstance(e, ast.Attribute) and isinstance(d, ast.Name) and d.id in known

    for _round in range(4):
        grew = False
        for name, vals in binds.items():
            if name in known or name in consts or len(vals) != 1 or vals[0] is None:
                continue
            try:
                consts[name] = _const_value(vals[0], consts)
                grew = True
            except ValueError:
                v = vals[0]
                if isinstance(v, ast.Tuple) and v.elts and all(stable(x) for x in v.elts):
                    exprs[name] = v  # immutable tuple of stable elements: folded as an expression
                continue
        if not grew:
            break
    # a `global NAME` anywhere disqualifies the name
    for n in ast.walk(tree):
        if isinstance(n, ast.Global):
            for x in n.names:
                consts.pop(x, None)
                exprs.pop(x, None)
    # new constants of sibling modules that this module imports by name (`from .c2 import SIZE [as S]`)
    mod_alias: Dict[str, str] = {}
    for st in tree.body:
        if isinstance(st, ast.ImportFrom) and foreign:
            srcmod = (st.module or "").split(".")[-1]
            for al in st.names:
                local = al.asname or al.name
                if srcmod in foreign and al.name in foreign[srcmod] and local not in known and local not in binds:
                    consts[local] = foreign[srcmod][al.name]
                if al.name in foreign and (st.module or "").endswith("cobaltstrike") or (st.level and not st.module and al.name in foreign):
                    mod_alias[local] = al.name
        elif isinstance(st, ast.Import) and foreign:
            for al in st.names:
                last = al.name.split(".")[-1]
                if al.asname and last in foreign and "cobaltstrike" in al.name:
                    mod_alias[al.asname] = last
    if not consts and not exprs and not mod_alias:
        return

    class Fold(ast.NodeTransformer):
        def __init__(self, shadow):
            self.shadow = shadow

        def visit_Name(self, node):
            if isinstance(node.ctx, ast.Load) and node.id in consts and node.id not in self.shadow:
                stats.setdefault("folded_constants", set()).add(node.id)
                return ast.copy_location(ast.Constant(value=consts[node.id]), node)
            if isinstance(node.ctx, ast.Load) and node.id in exprs and node.id not in self.shadow:
                stats.setdefault("folded_constants", set()).add(node.id)
                new = copy.deepcopy(exprs[node.id])
                for x in ast.walk(new):
                    ast.copy_location(x, node)
                return new
            return node

        def visit_Attribute(self, node):
            # <module alias>.NEW_CONSTANT of a sibling module
            if isinstance(node.ctx, ast.Load) and isinstance(node.value, ast.Name) and node.value.id in mod_alias and node.value.id not in self.shadow:
                fc = (foreign or {}).get(mod_alias[node.value.id], {})
                if node.attr in fc:
                    stats.setdefault("folded_constants", set()).add(f"{mod_alias[node.value.id]}.{node.attr}")
                    return ast.copy_location(ast.Constant(value=fc[node.attr]), node)
            self.generic_visit(node)
            return node

    for _q, fn, _c in _functions(tree):
        Fold(_local_names(fn)).visit(fn)
    # class-level statements other than functions (e.g. attribute defaults) and other module-level constants that use them
    for st in tree.body:
        if isinstance(st, ast.ClassDef):
            for s2 in st.body:
                if not isinstance(s2, (ast.FunctionDef, ast.AsyncFunctionDef)):
                    Fold(set()).visit(s2)
        elif isinstance(st, (ast.Assign, ast.AnnAssign)) and st.value is not None:
            # module-level definitions of *known* names that are built from new constants (DEF = _PART_A + _PART_B)
            tgt = st.targets[0] if isinstance(st, ast.Assign) else st.target
            if isinstance(tgt, ast.Name) and tgt.id in known:
                st.value = _fold_concat(Fold(set()).visit(st.value))
                try:
                    cv = _const_value(st.value, consts)
                    if type(cv) in (str, bytes) and not isinstance(st.value, ast.Constant):
                        st.value = ast.copy_location(ast.Constant(value=cv), st.value)
                except ValueError:
                    pass


def _fold_concat(e: ast.AST) -> ast.AST:
    """"a" + "b" of string/bytes constants -> one constant (so that definition parsers see a literal)."""
    if isinstance(e, ast.BinOp) and isinstance(e.op, ast.Add):
        l, r = _fold_concat(e.left), _fold_concat(e.right)
        if isinstance(l, ast.Constant) and isinstance(r, ast.Constant) and type(l.value) is type(r.value) and type(l.value) in (str, bytes):
            return ast.copy_location(ast.Constant(value=l.value + r.value), e)
        e.left, e.right = l, r
    return e


# --------------------------------------------------------------------------------------------- helper inlining
class _Rename(ast.NodeTransformer):
    def __init__(self, mapping: Dict[str, str]):
        self.m = mapping

    def visit_Name(self, node):
        if node.id in self.m:
            node.id = self.m[node.id]
        return node

    def visit_ExceptHandler(self, node):
        if node.name and node.name in self.m:
            node.name = self.m[node.name]
        self.generic_visit(node)
        return node

    def visit_FunctionDef(self, node):  # nested defs are left alone (their free variables would need care): caller checks
        return node

    visit_AsyncFunctionDef = visit_Lambda = visit_FunctionDef


class _Subst(ast.NodeTransformer):
    def __init__(self, mapping: Dict[str, ast.AST]):
        self.m = mapping

    def visit_Name(self, node):
        if isinstance(node.ctx, ast.Load) and node.id in self.m:
            return copy.deepcopy(self.m[node.id])
        return node


def _has(node_or_list, types, stop=(ast.FunctionDef, ast.AsyncFunctionDef, ast.Lambda, ast.ClassDef)) -> bool:
    todo = list(node_or_list) if isinstance(node_or_list, list) else [node_or_list]
    while todo:
        n = todo.pop()
        if isinstance(n, types):
            return True
        for c in ast.iter_child_nodes(n):
            if not isinstance(c, stop):
                todo.append(c)
    return False


def _always_exits(stmts: List[ast.stmt]) -> bool:
    """Every path through stmts ends in return/raise (loops are not looked into)."""
    for s in stmts:
        if isinstance(s, (ast.Return, ast.Raise)):
            return True
        if isinstance(s, ast.If) and s.orelse and _always_exits(s.body) and _always_exits(s.orelse):
            return True
        if isinstance(s, ast.Try) and not s.finalbody:
            main = _always_exits(s.body + s.orelse) if s.orelse else _always_exits(s.body)
            if main and all(_always_exits(h.body) for h in s.handlers):
                return True
    return False


class _CannotInline(Exception):
    pass


def _simple(e: ast.AST) -> bool:
    if isinstance(e, (ast.Name, ast.Constant)):
        return True
    if isinstance(e, ast.Attribute):
        return _simple(e.value)
    return False


def _forward_substitute(stmts: List[ast.stmt], marker: str) -> List[ast.stmt]:
    """Within one straight-line statement list: a generated name (containing `marker`) that is assigned exactly once by
    a plain `name = expr` and loaded exactly once, in a later statement of the same list, is replaced by its expression
    (the definition is dropped).  Repeats until nothing changes."""
    changed = True
    while changed:
        changed = False
        defs: Dict[str, Tuple[int, ast.AST]] = {}
        stores: Dict[str, int] = {}
        loads: Dict[str, List[int]] = {}
        for i, s in enumerate(stmts):
            for n in ast.walk(s):
                if isinstance(n, ast.Name) and marker in n.id:
                    if isinstance(n.ctx, ast.Load):
                        loads.setdefault(n.id, []).append(i)
                    else:
                        stores[n.id] = stores.get(n.id, 0) + 1
            if isinstance(s, ast.Assign) and len(s.targets) == 1 and isinstance(s.targets[0], ast.Name) and marker in s.targets[0].id:
                defs[s.targets[0].id] = (i, s.value)
        for name, (i, val) in defs.items():
            if stores.get(name) == 1 and len(loads.get(name, [])) == 1 and loads[name][0] > i:
                j = loads[name][0]
                # the use must be in the statement's own expressions, not inside a nested loop body (evaluated repeatedly)
                tgt = stmts[j]
                if isinstance(tgt, (ast.For, ast.While)) and any(isinstance(n, ast.Name) and n.id == name for b in (tgt.body + tgt.orelse) for n in ast.walk(b)):
                    continue
                stmts[j] = _Subst({name: val}).visit(tgt)
                del stmts[i]
                changed = True
                break
    return stmts


def _own_breaks(loop: ast.AST) -> bool:
    """Does the loop contain a `break` that belongs to it (not to a nested loop)?"""
    todo = list(loop.body)
    while todo:
        n = todo.pop()
        if isinstance(n, ast.Break):
            return True
        if isinstance(n, (ast.While, ast.For, ast.FunctionDef, ast.AsyncFunctionDef, ast.ClassDef, ast.Lambda)):
            continue
        todo.extend(ast.iter_child_nodes(n))
    return False


def _own_continues(loop: ast.AST) -> bool:
    todo = list(loop.body)
    while todo:
        n = todo.pop()
        if isinstance(n, ast.Continue):
            return True
        if isinstance(n, (ast.While, ast.For, ast.FunctionDef, ast.AsyncFunctionDef, ast.ClassDef, ast.Lambda)):
            continue
        todo.extend(ast.iter_child_nodes(n))
    return False


def _returns_to_breaks(stmts: List[ast.stmt], tmp: str) -> List[ast.stmt]:
    """Inside the body of one loop (no nested loops with returns): `return E` -> `tmp = E; break`."""
    out: List[ast.stmt] = []
    for s in stmts:
        if isinstance(s, ast.Return):
            out.append(ast.Assign(targets=[ast.Name(id=tmp, ctx=ast.Store())], value=s.value if s.value is not None else ast.Constant(value=None)))
            out.append(ast.Break())
            return out
        if not _has(s, ast.Return):
            out.append(s)
            continue
        new = copy.copy(s)
        if isinstance(s, ast.If):
            new.body = _returns_to_breaks(s.body, tmp)
            new.orelse = _returns_to_breaks(s.orelse, tmp) if s.orelse else []
        elif isinstance(s, ast.With):
            new.body = _returns_to_breaks(s.body, tmp)
        elif isinstance(s, ast.Try) and not _has(s.finalbody, ast.Return):
            new.body = _returns_to_breaks(s.body, tmp)
            new.orelse = _returns_to_breaks(s.orelse, tmp) if s.orelse else []
            new.handlers = []
            for h in s.handlers:
                h2 = copy.copy(h)
                h2.body = _returns_to_breaks(h.body, tmp)
                new.handlers.append(h2)
        else:
            raise _CannotInline(f"return inside nested {type(s).__name__}")
        out.append(new)
    return out


def _eliminate_returns(stmts: List[ast.stmt], tmp: str, at: ast.AST) -> List[ast.stmt]:
    """Rewrite a helper body so that `return E` becomes `tmp = E` and nothing after it runs (if/else nesting)."""
    out: List[ast.stmt] = []
    for i, s in enumerate(stmts):
        rest = stmts[i + 1:]
        if isinstance(s, ast.Return):
            val = s.value if s.value is not None else ast.Constant(value=None)
            out.append(ast.copy_location(ast.Assign(targets=[ast.Name(id=tmp, ctx=ast.Store())], value=val), s))
            return out
        if not _has(s, ast.Return):
            out.append(s)
            continue
        if isinstance(s, ast.If):
            b_exit, o_exit = _always_exits(s.body), _always_exits(s.orelse) if s.orelse else False
            if b_exit and (o_exit or not _has(s.orelse, ast.Return)):
                new = copy.copy(s)
                new.body = _eliminate_returns(s.body, tmp, at)
                new.orelse = _eliminate_returns(list(s.orelse) + rest, tmp, at) if not o_exit else _eliminate_returns(s.orelse, tmp, at)
                if not new.orelse:
                    new.orelse = []
                out.append(new)
                return out
            if o_exit and not _has(s.body, ast.Return):
                new = copy.copy(s)
                new.orelse = _eliminate_returns(s.orelse, tmp, at)
                new.body = _eliminate_returns(list(s.body) + rest, tmp, at)
                out.append(new)
                return out
            flag = f"{tmp}_done"
            out.append(ast.Assign(targets=[ast.Name(id=flag, ctx=ast.Store())], value=ast.Constant(value=False)))
            out.extend(_eliminate_returns_flag([s] + rest, tmp, flag))
            return out
        if isinstance(s, ast.Try) and not s.finalbody and not rest:
            new = copy.copy(s)
            if s.orelse:
                if _has(s.body, ast.Return):
                    raise _CannotInline("return in try body with else")
                new.orelse = _eliminate_returns(s.orelse, tmp, at)
            else:
                new.body = _eliminate_returns(s.body, tmp, at)
            new.handlers = []
            for h in s.handlers:
                h2 = copy.copy(h)
                h2.body = _eliminate_returns(h.body, tmp, at) if _has(h.body, ast.Return) else h.body
                new.handlers.append(h2)
            out.append(new)
            return out
        if isinstance(s, ast.With) and not rest:
            new = copy.copy(s)
            new.body = _eliminate_returns(s.body, tmp, at)
            out.append(new)
            return out
        if isinstance(s, (ast.While, ast.For)) and not s.orelse and not _own_breaks(s) and not _has(rest, (ast.While, ast.For, ast.Try, ast.With)) \
                and not isinstance(s.test if isinstance(s, ast.While) else None, ast.Constant):
            # a search loop: `return E` inside becomes `tmp = E; break`, what follows the loop becomes its else-clause
            new = copy.copy(s)
            new.body = _returns_to_breaks(s.body, tmp)
            new.orelse = _eliminate_returns(rest, tmp, at) or [ast.Pass()]
            out.append(new)
            return out
        if isinstance(s, (ast.While, ast.For, ast.Try, ast.With, ast.If)):
            # not expressible by nesting alone: finish this part with a completion flag
            flag = f"{tmp}_done"
            out.append(ast.Assign(targets=[ast.Name(id=flag, ctx=ast.Store())], value=ast.Constant(value=False)))
            out.extend(_eliminate_returns_flag([s] + rest, tmp, flag))
            return out
        raise _CannotInline(f"return inside {type(s).__name__}")
    return out


def _eliminate_returns_flag(stmts: List[ast.stmt], tmp: str, flag: str, depth: int = 0) -> List[ast.stmt]:
    """General return elimination with a completion flag: `return E` -> `tmp = E; flag = True` (+ `break` inside a
    loop); after a loop that may have returned: `if flag: break` (nested) or the rest of the block under `if not flag:`."""

    def assign(name, value):
        return ast.Assign(targets=[ast.Name(id=name, ctx=ast.Store())], value=value)

    out: List[ast.stmt] = []
    for i, s in enumerate(stmts):
        rest = stmts[i + 1:]
        if isinstance(s, ast.Return):
            out.append(assign(tmp, s.value if s.value is not None else ast.Constant(value=None)))
            out.append(assign(flag, ast.Constant(value=True)))
            if depth > 0:
                out.append(ast.Break())
            return out
        if not _has(s, ast.Return):
            out.append(s)
            continue
        new = copy.copy(s)
        if isinstance(s, ast.If):
            new.body = _eliminate_returns_flag(s.body, tmp, flag, depth)
            new.orelse = _eliminate_returns_flag(s.orelse, tmp, flag, depth) if s.orelse else []
        elif isinstance(s, (ast.While, ast.For)):
            if _has(s.orelse, ast.Return):
                raise _CannotInline("return in a loop's else block")
            new.body = _eliminate_returns_flag(s.body, tmp, flag, depth + 1)
        elif isinstance(s, ast.With):
            new.body = _eliminate_returns_flag(s.body, tmp, flag, depth)
        elif isinstance(s, ast.Try):
            if _has(s.finalbody, ast.Return):
                raise _CannotInline("return in finally")
            new.body = _eliminate_returns_flag(s.body, tmp, flag, depth)
            new.orelse = _eliminate_returns_flag(s.orelse, tmp, flag, depth) if s.orelse else []
            new.handlers = []
            for h in s.handlers:
                h2 = copy.copy(h)
                h2.body = _eliminate_returns_flag(h.body, tmp, flag, depth)
                new.handlers.append(h2)
        else:
            raise _CannotInline(f"return inside {type(s).__name__}")
        out.append(new)
        # what follows runs only if the statement did not return
        if isinstance(s, (ast.While, ast.For)) and depth > 0:
            out.append(ast.If(test=ast.Name(id=flag, ctx=ast.Load()), body=[ast.Break()], orelse=[]))
            out.extend(_eliminate_returns_flag(rest, tmp, flag, depth))
            return out
        if depth > 0 and not isinstance(s, (ast.While, ast.For)):
            # inside a loop a return has already left the loop with `break`
            out.extend(_eliminate_returns_flag(rest, tmp, flag, depth))
            return out
        tail = _eliminate_returns_flag(rest, tmp, flag, depth)
        if tail:
            out.append(ast.If(test=ast.UnaryOp(op=ast.Not(), operand=ast.Name(id=flag, ctx=ast.Load())), body=tail, orelse=[]))
        return out
    return out



def _immutable_default(d: ast.AST) -> bool:
    if isinstance(d, ast.Constant):
        return True
    if isinstance(d, ast.UnaryOp) and isinstance(d.operand, ast.Constant):
        return True
    if isinstance(d, (ast.Name, ast.Attribute)):
        return all(isinstance(n, (ast.Name, ast.Attribute, ast.Load)) for n in ast.walk(d))
    if isinstance(d, ast.Tuple):
        return all(_immutable_default(e) for e in d.elts)
    if isinstance(d, ast.BinOp):
        return _immutable_default(d.left) and _immutable_default(d.right)
    return False


class _Helper:
    def __init__(self, qual: str, node: ast.FunctionDef, cls: Optional[ast.ClassDef]):
        self.qual, self.node, self.cls = qual, node, cls
        decs = [ast.unparse(d) for d in node.decorator_list]
        self.kind = "static" if "staticmethod" in decs else "class" if "classmethod" in decs else ("method" if cls is not None else "func")
        self.ok = all(d in ("staticmethod", "classmethod") for d in decs) and not isinstance(node, ast.AsyncFunctionDef)
        a = node.args
        self.params = [x.arg for x in a.posonlyargs + a.args]
        self.kwonly = [x.arg for x in a.kwonlyargs]
        self.star = bool(a.vararg or a.kwarg)
        pos = a.posonlyargs + a.args
        self.defaults: Dict[str, ast.AST] = {}
        for p, d in zip(pos[len(pos) - len(a.defaults):], a.defaults):
            self.defaults[p.arg] = d
        for p, d in zip(a.kwonlyargs, a.kw_defaults):
            if d is not None:
                self.defaults[p.arg] = d
        body = [s for s in node.body if not (isinstance(s, ast.Expr) and isinstance(s.value, ast.Constant))]
        self.body = body
        self.is_gen = _has(body, (ast.Yield, ast.YieldFrom))
        self.expr = body[0].value if len(body) == 1 and isinstance(body[0], ast.Return) and body[0].value is not None and not self.is_gen else None
        self.nested = _has(body, (ast.FunctionDef, ast.AsyncFunctionDef, ast.ClassDef, ast.Global, ast.Nonlocal), stop=())
        self.recursive = any(isinstance(n, ast.Name) and n.id == node.name or isinstance(n, ast.Attribute) and n.attr == node.name for n in ast.walk(node) if n is not node)

    def bind(self, call: ast.Call, recv: Optional[ast.AST]) -> Optional[Dict[str, ast.AST]]:
        if self.star or any(isinstance(x, ast.Starred) for x in call.args) or any(k.arg is None for k in call.keywords):
            return None
        params = list(self.params)
        out: Dict[str, ast.AST] = {}
        if self.kind in ("method", "class"):
            if not params:
                return None
            out[params[0]] = recv if recv is not None else ast.Name(id=params[0], ctx=ast.Load())
            params = params[1:]
        if len(call.args) > len(params):
            return None
        for p, v in zip(params, call.args):
            out[p] = v
        for k in call.keywords:
            if k.arg in out or k.arg not in params + self.kwonly:
                return None
            out[k.arg] = k.value
        for p in params + self.kwonly:
            if p not in out:
                if p not in self.defaults:
                    return None
                d = self.defaults[p]
                # a default is evaluated ONCE, at definition time: copying its expression to the call site is only the same
                # thing for immutable values (constants, dotted names, tuples of those) - a `[]` / `{}` / call default is
                # one shared object and must not become a fresh one per call
                if not _immutable_default(d):
                    return None
                out[p] = d
        return out


def inline_helpers(tree: ast.Module, known_funcs: Set[str], stats: dict) -> None:
    helpers: Dict[Tuple[Optional[str], str], _Helper] = {}
    for qual, node, cls in _functions(tree):
        if qual not in known_funcs and not (node.name.startswith("__") and node.name.endswith("__")):
            h = _Helper(qual, node, cls)
            if h.ok and not h.nested and not h.recursive:
                helpers[(cls.name if cls else None, node.name)] = h
    if not helpers:
        return
    counter = [0]

    def resolve(call: ast.Call, encl_cls: Optional[ast.ClassDef]) -> Tuple[Optional[_Helper], Optional[ast.AST]]:
        f = call.func
        if isinstance(f, ast.Name) and (None, f.id) in helpers:
            return helpers[(None, f.id)], None
        if isinstance(f, ast.Attribute) and isinstance(f.value, ast.Name):
            base = f.value.id
            if base in ("self", "cls") and encl_cls is not None and (encl_cls.name, f.attr) in helpers:
                h = helpers[(encl_cls.name, f.attr)]
                return h, (f.value if h.kind in ("method", "class") else None)
            if (base, f.attr) in helpers:
                h = helpers[(base, f.attr)]
                if h.kind in ("static", "class"):
                    return h, (f.value if h.kind == "class" else None)
        return None, None

    def fresh(h: _Helper, host_locals: Set[str]) -> Dict[str, str]:
        counter[0] += 1
        names = _local_names(h.node)
        m = {}
        for n in names:
            new = f"{n}__{h.node.name.strip('_')}{counter[0]}"
            while new in host_locals:
                new += "_"
            m[n] = new
        return m

    def splice(h: _Helper, call: ast.Call, recv, host: ast.AST, mode: str, tmp: Optional[str]) -> List[ast.stmt]:
        binding = h.bind(call, recv)
        if binding is None:
            raise _CannotInline("arguments cannot be bound")
        ren = fresh(h, _local_names(host))
        body = copy.deepcopy(h.body)
        pre: List[ast.stmt] = []
        # a parameter the helper never rebinds, bound to a simple stable expression (name, attribute chain, constant),
        # is substituted directly; anything else gets a renamed temporary
        rebound = {n.id for s in h.body for n in ast.walk(s) if isinstance(n, ast.Name) and isinstance(n.ctx, (ast.Store, ast.Del))}
        direct: Dict[str, ast.AST] = {}
        for p, v in binding.items():
            if p not in rebound and _simple(v):
                direct[ren[p]] = v
            else:
                pre.append(ast.Assign(targets=[ast.Name(id=ren[p], ctx=ast.Store())], value=copy.deepcopy(v)))
        body = [_Rename(ren).visit(s) for s in body]
        if direct:
            body = [_Subst(direct).visit(s) for s in body]
        if mode in ("value", "proc") and (mode == "value" or _has(body, ast.Return)):
            if not _always_exits(body):
                body = body + [ast.Return(value=ast.Constant(value=None))]
            try:
                body = _eliminate_returns(copy.deepcopy(body), tmp, call)
            except _CannotInline:
                flag = f"{tmp}_done"
                body = [ast.Assign(targets=[ast.Name(id=flag, ctx=ast.Store())], value=ast.Constant(value=False))] + \
                    _eliminate_returns_flag(body, tmp, flag)
        elif mode == "tail":
            if not _always_exits(body):
                body = body + [ast.Return(value=ast.Constant(value=None))]
        if mode == "proc" and tmp:
            # the value of a procedure call is not used: drop the stores of the result temporary
            class _Drop(ast.NodeTransformer):
                def visit_Assign(self, node):
                    if len(node.targets) == 1 and isinstance(node.targets[0], ast.Name) and node.targets[0].id == tmp:
                        return ast.Pass()
                    return node

            body = [_Drop().visit(s) for s in body]
        out = pre + body
        for s in out:
            for n in ast.walk(s):
                if not hasattr(n, "lineno") or True:
                    n.lineno = getattr(call, "lineno", 1)
                    n.end_lineno = getattr(call, "end_lineno", n.lineno)
                    n.col_offset = getattr(call, "col_offset", 0)
                    n.end_col_offset = getattr(call, "end_col_offset", 0)
        return out

    def process_block(stmts: List[ast.stmt], host, encl_cls) -> Tuple[List[ast.stmt], bool]:
        changed = False
        out: List[ast.stmt] = []
        for st in stmts:
            # recurse into compound statements first
            for fld in ("body", "orelse", "finalbody"):
                blk = getattr(st, fld, None)
                if isinstance(blk, list) and blk and isinstance(blk[0], ast.stmt) and not isinstance(st, (ast.FunctionDef, ast.AsyncFunctionDef, ast.ClassDef)):
                    nb, ch = process_block(blk, host, encl_cls)
                    setattr(st, fld, nb)
                    changed |= ch
            if isinstance(st, ast.Try):
                for hd in st.handlers:
                    nb, ch = process_block(hd.body, host, encl_cls)
                    hd.body = nb
                    changed |= ch
            if isinstance(st, (ast.FunctionDef, ast.AsyncFunctionDef, ast.ClassDef)):
                out.append(st)
                continue
            # expression-bodied helpers anywhere in the statement's own expressions
            st, ch = subst_expr_helpers(st, encl_cls)
            changed |= ch
            # statement-bodied helpers
            done = False
            try:
                # 1. return h(..)
                if isinstance(st, ast.Return) and isinstance(st.value, ast.Call):
                    h, recv = resolve(st.value, encl_cls)
                    if h is not None and h.expr is None and not h.is_gen:
                        out.extend(_forward_substitute(splice(h, st.value, recv, host, "tail", None), "__"))
                        stats.setdefault("inlined", []).append(f"{h.qual} (tail)")
                        changed = done = True
                # 2. yield from h(..)  (statement)
                elif isinstance(st, ast.Expr) and isinstance(st.value, ast.YieldFrom) and isinstance(st.value.value, ast.Call):
                    h, recv = resolve(st.value.value, encl_cls)
                    if h is not None and h.is_gen and not _has(h.body, ast.Return):
                        out.extend(splice(h, st.value.value, recv, host, "gen", None))
                        stats.setdefault("inlined", []).append(f"{h.qual} (yield from)")
                        changed = done = True
                # 3. h(..) as a statement
                elif isinstance(st, ast.Expr) and isinstance(st.value, ast.Call):
                    h, recv = resolve(st.value, encl_cls)
                    if h is not None and h.expr is None and not h.is_gen:
                        counter[0] += 1
                        out.extend(splice(h, st.value, recv, host, "proc", f"_unused__{counter[0]}"))
                        stats.setdefault("inlined", []).append(f"{h.qual} (statement)")
                        changed = done = True
                if not done and isinstance(st, ast.For) and not st.orelse and isinstance(st.iter, ast.Call):
                    # 6. `for T in gen_helper(..): BODY` -> the helper's body with every `yield E` replaced by `T = E; BODY`
                    h, recv = resolve(st.iter, encl_cls)
                    if h is not None and h.is_gen and not _has(h.body, (ast.Return, ast.YieldFrom)) and not _own_breaks(st) and not _own_continues(st) \
                            and all(isinstance(s2, ast.Expr) and isinstance(s2.value, ast.Yield) for s2 in ast.walk(ast.Module(body=h.body, type_ignores=[])) if isinstance(s2, ast.Expr) and _has(s2, ast.Yield)) \
                            and not any(isinstance(n, ast.Yield) and not isinstance(n, ast.Expr) and False for n in []):
                        ys_total = sum(1 for n in ast.walk(ast.Module(body=h.body, type_ignores=[])) if isinstance(n, ast.Yield))
                        ys_stmt = sum(1 for n in ast.walk(ast.Module(body=h.body, type_ignores=[])) if isinstance(n, ast.Expr) and isinstance(n.value, ast.Yield))
                        if ys_total == ys_stmt and ys_total >= 1:
                            spliced = splice(h, st.iter, recv, host, "gen", None)
                            target, body = st.target, st.body

                            class _Y(ast.NodeTransformer):
                                def visit_FunctionDef(self, node):
                                    return node

                                visit_AsyncFunctionDef = visit_Lambda = visit_ClassDef = visit_FunctionDef

                                def visit_Expr(self, node):
                                    if isinstance(node.value, ast.Yield):
                                        val = node.value.value if node.value.value is not None else ast.Constant(value=None)
                                        asg = ast.copy_location(ast.Assign(targets=[copy.deepcopy(target)], value=val), node)
                                        return [asg] + copy.deepcopy(body)
                                    return node

                            new_stmts = []
                            for s2 in spliced:
                                r = _Y().visit(s2)
                                new_stmts.extend(r if isinstance(r, list) else [r])
                            out.extend(new_stmts)
                            stats.setdefault("inlined", []).append(f"{h.qual} (for over generator)")
                            changed = done = True
                if not done and not isinstance(st, (ast.If, ast.While, ast.For, ast.With, ast.Try)):
                    # 4. a call nested in a simple statement's expression: hoist into a temporary
                    call = first_helper_call(st, encl_cls)
                    if call is not None:
                        h, recv = resolve(call, encl_cls)
                        counter[0] += 1
                        tmp = f"{h.node.name.strip('_')}_result__{counter[0]}"
                        pre = splice(h, call, recv, host, "value", tmp)
                        repl = ast.copy_location(ast.Name(id=tmp, ctx=ast.Load()), call)
                        st = _ReplaceNode(call, repl).visit(st)
                        out.extend(_forward_substitute(pre + [st], "__"))
                        stats.setdefault("inlined", []).append(f"{h.qual} (value)")
                        changed = done = True
                elif not done and isinstance(st, ast.For):
                    # 7. a call to a statement-bodied (non-generator) helper in the iterable of a `for`: the iterable is
                    # evaluated exactly once, before the first iteration - hoist the helper's body in front of the loop
                    call = first_helper_call(st.iter, encl_cls)
                    if call is not None:
                        h, recv = resolve(call, encl_cls)
                        counter[0] += 1
                        tmp = f"{h.node.name.strip('_')}_result__{counter[0]}"
                        pre = splice(h, call, recv, host, "value", tmp)
                        st.iter = _ReplaceNode(call, ast.copy_location(ast.Name(id=tmp, ctx=ast.Load()), call)).visit(st.iter)
                        out.extend(_forward_substitute(pre + [st], "__"))
                        stats.setdefault("inlined", []).append(f"{h.qual} (for iterable)")
                        changed = done = True
                elif not done and isinstance(st, (ast.If, ast.While)) and not isinstance(st, ast.While):
                    # 5. a call in an `if` test: hoist before the if
                    call = first_helper_call(st.test, encl_cls)
                    if call is not None:
                        h, recv = resolve(call, encl_cls)
                        counter[0] += 1
                        tmp = f"{h.node.name.strip('_')}_result__{counter[0]}"
                        pre = splice(h, call, recv, host, "value", tmp)
                        st.test = _ReplaceNode(call, ast.copy_location(ast.Name(id=tmp, ctx=ast.Load()), call)).visit(st.test)
                        out.extend(_forward_substitute(pre + [st], "__"))
                        stats.setdefault("inlined", []).append(f"{h.qual} (if test)")
                        changed = done = True
            except _CannotInline as e:
                stats.setdefault("not_inlined", []).append(f"{getattr(st, 'lineno', '?')}: {e}")
                done = False
            if not done:
                out.append(st)
        return out, changed

    def first_helper_call(node: ast.AST, encl_cls) -> Optional[ast.Call]:
        """Leftmost-innermost call to a statement-bodied, non-generator helper inside node (not inside lambdas/comprehensions)."""
        found: List[ast.Call] = []

        def walk(n):
            if isinstance(n, (ast.Lambda, ast.ListComp, ast.SetComp, ast.DictComp, ast.GeneratorExp, ast.FunctionDef, ast.AsyncFunctionDef, ast.ClassDef, ast.IfExp, ast.BoolOp)):
                # conditional evaluation / own scope: hoisting would change when (or whether) the helper runs
                return
            for c in ast.iter_child_nodes(n):
                walk(c)
            if isinstance(n, ast.Call):
                h, _r = resolve(n, encl_cls)
                if h is not None and h.expr is None and not h.is_gen:
                    found.append(n)

        walk(node)
        return found[0] if found else None

    def subst_expr_helpers(st: ast.stmt, encl_cls):
        changed = [False]

        class X(ast.NodeTransformer):
            def visit_FunctionDef(self, node):
                return node

            visit_AsyncFunctionDef = visit_ClassDef = visit_FunctionDef

            def visit_Call(self, node):
                self.generic_visit(node)
                h, recv = resolve(node, encl_cls)
                if h is not None and h.expr is not None:
                    b = h.bind(node, recv)
                    if b is not None and not _has(h.expr, (ast.NamedExpr, ast.Lambda, ast.ListComp, ast.SetComp, ast.DictComp, ast.GeneratorExp), stop=()):
                        e = _Subst(b).visit(copy.deepcopy(h.expr))
                        for n in ast.walk(e):
                            ast.copy_location(n, node)
                        changed[0] = True
                        stats.setdefault("inlined", []).append(f"{h.qual} (expression)")
                        return e
                return node

        # only the statement's own expressions, not nested blocks (they are processed as blocks)
        for fld, val in list(ast.iter_fields(st)):
            if fld in ("body", "orelse", "finalbody", "handlers"):
                continue
            if isinstance(val, ast.AST):
                setattr(st, fld, X().visit(val))
            elif isinstance(val, list):
                setattr(st, fld, [X().visit(v) if isinstance(v, ast.AST) else v for v in val])
        return st, changed[0]

    for _round in range(4):
        any_change = False
        for qual, fn, cls in list(_functions(tree)):
            nb, ch = process_block(fn.body, fn, cls)
            fn.body = nb
            any_change |= ch
        # helpers may call helpers: refresh their recorded bodies
        for key, h in list(helpers.items()):
            helpers[key] = _Helper(h.qual, h.node, h.cls)
        if not any_change:
            break
    ast.fix_missing_locations(tree)


class _ReplaceNode(ast.NodeTransformer):
    def __init__(self, old, new):
        self.old, self.new = old, new

    def visit(self, node):
        if node is self.old:
            return self.new
        return super().visit(node)


# --------------------------------------------------------------------------------------------- walrus loops
def desugar_walrus_loops(tree: ast.Module, stats: dict) -> None:
    """`while (x := E) <test>: BODY` (no else)  ->  `while True: x = E; if not (<test with x>): break; BODY`.

    The pinned tree writes its read loops in the second form; the assignment-expression form is the same loop.  Only a
    walrus that is evaluated unconditionally and first in the test is moved (the leftmost operand chain), so evaluation
    order is unchanged."""

    def first_walrus(test: ast.AST) -> Optional[ast.NamedExpr]:
        n = test
        while True:
            if isinstance(n, ast.NamedExpr):
                return n
            if isinstance(n, ast.Compare):
                n = n.left
            elif isinstance(n, ast.BoolOp):
                n = n.values[0]
            elif isinstance(n, ast.UnaryOp):
                n = n.operand
            elif isinstance(n, ast.Call) and isinstance(n.func, ast.Name) and n.args:
                n = n.args[0]
            else:
                return None

    class W(ast.NodeTransformer):
        def visit_While(self, node):
            self.generic_visit(node)
            if node.orelse:
                return node
            w = first_walrus(node.test)
            if w is None or not isinstance(w.target, ast.Name):
                return node
            others = [n for n in ast.walk(node.test) if isinstance(n, ast.NamedExpr) and n is not w]
            if others:
                return node
            assign = ast.copy_location(ast.Assign(targets=[ast.Name(id=w.target.id, ctx=ast.Store())], value=w.value), node)
            test = _ReplaceNode(w, ast.copy_location(ast.Name(id=w.target.id, ctx=ast.Load()), w)).visit(node.test)
            neg = test.operand if isinstance(test, ast.UnaryOp) and isinstance(test.op, ast.Not) else ast.UnaryOp(op=ast.Not(), operand=test)
            brk = ast.copy_location(ast.If(test=neg, body=[ast.copy_location(ast.Break(), node)], orelse=[]), node)
            new = ast.copy_location(ast.While(test=ast.copy_location(ast.Constant(value=True), node), body=[assign, brk] + node.body, orelse=[]), node)
            stats["walrus_loops"] = stats.get("walrus_loops", 0) + 1
            return new

    W().visit(tree)
    ast.fix_missing_locations(tree)


# --------------------------------------------------------------------------------------------- contextlib.suppress
def desugar_suppress(tree: ast.Module, stats: dict) -> None:
    """`with contextlib.suppress(E1, ..): BODY`  ->  `try: BODY except (E1, ..): pass` (the documented meaning of suppress;
    the pinned tree writes the try/except form)."""

    class S(ast.NodeTransformer):
        def visit_With(self, node):
            self.generic_visit(node)
            if len(node.items) != 1 or node.items[0].optional_vars is not None:
                return node
            ce = node.items[0].context_expr
            if not (isinstance(ce, ast.Call) and not ce.keywords and ce.args and not any(isinstance(a, ast.Starred) for a in ce.args)):
                return node
            f = ce.func
            name = f.attr if isinstance(f, ast.Attribute) and isinstance(f.value, ast.Name) and f.value.id == "contextlib" else f.id if isinstance(f, ast.Name) else None
            if name != "suppress":
                return node
            typ = ce.args[0] if len(ce.args) == 1 else ast.Tuple(elts=list(ce.args), ctx=ast.Load())
            h = ast.ExceptHandler(type=typ, name=None, body=[ast.Pass()])
            new = ast.Try(body=node.body, handlers=[h], orelse=[], finalbody=[])
            for n in (h, new, h.body[0]):
                ast.copy_location(n, node)
            stats["suppress_blocks"] = stats.get("suppress_blocks", 0) + 1
            return new

    S().visit(tree)
    ast.fix_missing_locations(tree)


# --------------------------------------------------------------------------------------------- live-range splitting
def _header_exprs(st: ast.stmt) -> List[ast.AST]:
    """The expressions evaluated *at* the CFG node of a statement (for a compound statement: its header only)."""
    if isinstance(st, (ast.If, ast.While)):
        return [st.test]
    if isinstance(st, (ast.For, ast.AsyncFor)):
        return [st.iter]
    if isinstance(st, (ast.With, ast.AsyncWith)):
        return [i.context_expr for i in st.items]
    if isinstance(st, (ast.Try, ast.FunctionDef, ast.AsyncFunctionDef, ast.ClassDef)):
        return []
    if isinstance(st, ast.Match):
        return [st.subject]
    return [st]


def split_extension_webs(tree: ast.Module, stats: dict) -> None:
    """`X += E` (or `X = X + E`) whose result is a *separate live range* of X gets its own name.

    A rolling accumulator that is extended, used and then re-seeded before the extension is reached again
    (``w += block; ... w.find(..) ...; w = w[-k:]``) holds two different values under one name: the seed/carry and the
    extended value.  The pinned tree writes such code with two names (``d = saved + block``).  When the definition made by
    the extension reaches no use that any other definition of X also reaches (its du-web is the extension alone), the
    extension and exactly the uses it reaches are renamed - classical live-range (web) splitting, a pure renaming.
    Only attempted inside a loop (the rolling case), for a local that is bound by plain `X = ..` / `X += ..` statements and not referenced from nested
    scopes."""
    from .cfg import CFG

    for fn in [n for n in ast.walk(tree) if isinstance(n, (ast.FunctionDef, ast.AsyncFunctionDef))]:
        cand: Dict[str, List[ast.stmt]] = {}
        own: List[ast.AST] = []

        def collect(n):
            for c in ast.iter_child_nodes(n):
                if isinstance(c, (ast.FunctionDef, ast.AsyncFunctionDef, ast.ClassDef, ast.Lambda, ast.ListComp, ast.SetComp, ast.DictComp, ast.GeneratorExp)):
                    nested.append(c)
                    continue
                own.append(c)
                collect(c)

        nested: List[ast.AST] = []
        collect(fn)
        for st in own:
            if isinstance(st, ast.AugAssign) and isinstance(st.target, ast.Name) and isinstance(st.op, ast.Add):
                cand.setdefault(st.target.id, []).append(st)
            elif isinstance(st, ast.Assign) and len(st.targets) == 1 and isinstance(st.targets[0], ast.Name) and isinstance(st.value, ast.BinOp) \
                    and isinstance(st.value.op, ast.Add) and isinstance(st.value.left, ast.Name) and st.value.left.id == st.targets[0].id:
                cand.setdefault(st.targets[0].id, []).append(st)
        if not cand:
            continue
        argnames = {a.arg for a in fn.args.posonlyargs + fn.args.args + fn.args.kwonlyargs} | {a.arg for a in (fn.args.vararg, fn.args.kwarg) if a}
        nested_names = {n.id for c in nested for n in ast.walk(c) if isinstance(n, ast.Name)}
        declared = {x for n in own if isinstance(n, (ast.Global, ast.Nonlocal)) for x in n.names}
        cfg = None
        for name, exts in cand.items():
            if name in argnames or name in nested_names or name in declared:
                continue
            stores = [n for n in own if isinstance(n, ast.Name) and n.id == name and isinstance(n.ctx, (ast.Store, ast.Del))]
            defs = [st for st in own if isinstance(st, ast.stmt) and ((isinstance(st, ast.Assign) and len(st.targets) == 1 and isinstance(st.targets[0], ast.Name) and st.targets[0].id == name)
                                                                      or (isinstance(st, ast.AugAssign) and isinstance(st.target, ast.Name) and st.target.id == name))]
            if len(stores) != len(defs) or len(defs) < 2:
                continue  # bound by something else as well (for target, with .. as, walrus, tuple unpacking, del)
            if cfg is None:
                try:
                    cfg = CFG(fn)
                except Exception:
                    break
            if not all(cfg.has(d) for d in defs):
                continue
            dn = {id(d): cfg.node(d) for d in defs}
            uses = []  # (statement, node) that load the name at their CFG node
            for st in own:
                if isinstance(st, ast.stmt) and cfg.has(st) and (any(isinstance(n, ast.Name) and n.id == name and isinstance(n.ctx, ast.Load)
                                                                      for h in _header_exprs(st) for n in _walk_own(h))
                                                                  or (isinstance(st, ast.AugAssign) and isinstance(st.target, ast.Name) and st.target.id == name)):
                    uses.append(st)
            reach: Dict[int, List[ast.stmt]] = {id(d): [] for d in defs}
            for d in defs:
                others = [dn[id(o)] for o in defs if o is not d]
                for u in uses:
                    if cfg.reaches(dn[id(d)], cfg.node(u), avoiding=others):
                        reach[id(d)].append(u)
            for ext in exts:
                mine = {id(u) for u in reach[id(ext)]}
                if not mine or any(mine & {id(u) for u in reach[id(o)]} for o in defs if o is not ext):
                    continue
                if id(ext) in mine:
                    continue  # reaches itself through a loop: one live range
                if not cfg.in_cycle(dn[id(ext)]):
                    continue  # straight-line reuse of a name: nothing rolls, left alone
                if any(isinstance(u, ast.AugAssign) and isinstance(u.target, ast.Name) and u.target.id == name for u in reach[id(ext)]):
                    continue  # feeds another in-place extension of the same name: left alone
                fresh = name + "__x"
                while any(isinstance(n, ast.Name) and n.id == fresh for n in ast.walk(fn)):
                    fresh += "x"
                for u in reach[id(ext)]:
                    for h in _header_exprs(u):
                        for n in _walk_own(h):
                            if isinstance(n, ast.Name) and n.id == name and isinstance(n.ctx, ast.Load):
                                n.id = fresh
                if isinstance(ext, ast.AugAssign):
                    new = ast.Assign(targets=[ast.Name(id=fresh, ctx=ast.Store())],
                                     value=ast.BinOp(left=ast.Name(id=name, ctx=ast.Load()), op=ast.Add(), right=ext.value))
                    ast.copy_location(new, ext)
                    ast.copy_location(new.targets[0], ext.target)
                    ast.copy_location(new.value, ext)
                    ast.copy_location(new.value.left, ext.target)
                    _replace_stmt(fn, ext, new)
                else:
                    ext.targets[0].id = fresh
                stats["webs_split"] = stats.get("webs_split", 0) + 1
                cfg = None  # statements changed: rebuild for the next candidate
                break
    ast.fix_missing_locations(tree)


def _walk_own(e: ast.AST):
    """ast.walk that does not enter nested scopes."""
    stack = [e]
    while stack:
        n = stack.pop()
        yield n
        for c in ast.iter_child_nodes(n):
            if not isinstance(c, (ast.FunctionDef, ast.AsyncFunctionDef, ast.ClassDef, ast.Lambda)):
                stack.append(c)


def _replace_stmt(root: ast.AST, old: ast.stmt, new: ast.stmt) -> None:
    for n in ast.walk(root):
        for field in ("body", "orelse", "finalbody"):
            lst = getattr(n, field, None)
            if isinstance(lst, list):
                for i, x in enumerate(lst):
                    if x is old:
                        lst[i] = new
                        return


# --------------------------------------------------------------------------------------------- new base classes
def merge_new_bases(tree: ast.Module, known: Set[str], stats: dict) -> None:
    """A class of the pinned vocabulary that now inherits from a NEW class of the same module (a maintainer split part of
    it into a mixin / base class) gets the members it inherits copied back into its own body - the method resolution
    order makes them its members anyway.  `super().m(..)` statements in a method the class overrides are replaced by the
    base method's body when the arguments are plain names (constructor chaining of a split class).  Only bases that are
    themselves base-less (or derive from `object`) and are not known to the vocabulary are merged; the base class itself
    stays where it is."""
    classes = {st.name: st for st in tree.body if isinstance(st, ast.ClassDef)}

    def members(c: ast.ClassDef) -> Dict[str, ast.stmt]:
        out = {}
        for st in c.body:
            if isinstance(st, (ast.FunctionDef, ast.AsyncFunctionDef)):
                out[st.name] = st
            elif isinstance(st, ast.Assign) and len(st.targets) == 1 and isinstance(st.targets[0], ast.Name):
                out[st.targets[0].id] = st
            elif isinstance(st, ast.AnnAssign) and isinstance(st.target, ast.Name):
                out[st.target.id] = st
        return out

    def closed(name: str, seen=()) -> bool:
        """a NEW class of this module, undecorated, all of whose bases are `object` or again such classes"""
        if name in seen or name not in classes or name in known:
            return False
        b0 = classes[name]
        if b0.keywords or b0.decorator_list:
            return False
        return all(isinstance(x, ast.Name) and (x.id == "object" or closed(x.id, seen + (name,))) for x in b0.bases)

    def linearise(c: ast.ClassDef) -> List[ast.ClassDef]:
        """the new bases of c in method resolution order (computed by Python itself on a skeleton of the hierarchy)"""
        direct = [b.id for b in c.bases if isinstance(b, ast.Name) and closed(b.id)]
        if not direct:
            return []
        built: Dict[str, type] = {}

        def build(name: str) -> type:
            if name not in built:
                bs = tuple(build(x.id) for x in classes[name].bases if isinstance(x, ast.Name) and x.id != "object")
                built[name] = type(name, bs or (object,), {})
            return built[name]

        try:
            top = type("_top", tuple(build(n) for n in direct), {})
        except TypeError:
            return []  # no consistent MRO: Python would reject the class statement as well
        return [classes[k.__name__] for k in top.__mro__[1:] if k.__name__ in classes and k is not object]

    for c in list(classes.values()):
        if c.name not in known:
            continue
        for base in linearise(c):
            own = members(c)
            for name, st in members(base).items():
                if name not in own:
                    c.body.append(copy.deepcopy(st))
                    stats["base_members_merged"] = stats.get("base_members_merged", 0) + 1
                    continue
                m, bm = own[name], st
                if not (isinstance(m, ast.FunctionDef) and isinstance(bm, ast.FunctionDef)):
                    continue
                # `super().name(a, b)` as a statement of the overriding method -> the base method's body
                for i, x in enumerate(list(m.body)):
                    call = x.value if isinstance(x, ast.Expr) else None
                    if not (isinstance(call, ast.Call) and isinstance(call.func, ast.Attribute) and call.func.attr == name
                            and isinstance(call.func.value, ast.Call) and isinstance(call.func.value.func, ast.Name)
                            and call.func.value.func.id == "super" and not call.func.value.args and not call.keywords):
                        continue
                    bparams = [a.arg for a in bm.args.args]
                    if bm.args.vararg or bm.args.kwarg or bm.args.kwonlyargs or bm.args.posonlyargs or len(bparams) != len(call.args) + 1 \
                            or not all(isinstance(a, (ast.Name, ast.Constant)) for a in call.args) \
                            or any(isinstance(n, (ast.Return, ast.Yield, ast.YieldFrom)) for n in ast.walk(bm)) or not m.args.args:
                        continue
                    ren = {bparams[0]: ast.Name(id=m.args.args[0].arg, ctx=ast.Load())}
                    ren.update({pn: a for pn, a in zip(bparams[1:], call.args)})
                    if any(isinstance(n, ast.Name) and isinstance(n.ctx, ast.Store) and n.id in ren for n in ast.walk(bm)):
                        continue
                    body = copy.deepcopy(bm.body)

                    class R(ast.NodeTransformer):
                        def visit_Name(self, n):
                            if isinstance(n.ctx, ast.Load) and n.id in ren:
                                return ast.copy_location(copy.deepcopy(ren[n.id]), n)
                            return n

                    body = [R().visit(y) for y in body]
                    for y in body:
                        for n in ast.walk(y):
                            ast.copy_location(n, x) if not hasattr(n, "lineno") else None
                    m.body[i:i + 1] = body
                    stats["super_calls_inlined"] = stats.get("super_calls_inlined", 0) + 1
                    break
    ast.fix_missing_locations(tree)


# --------------------------------------------------------------------------------------------- slice objects
def fold_slice_objects(tree: ast.Module, stats: dict) -> None:
    """`S = slice(a, b)` (or a conditional expression choosing between slice objects) bound once to a local whose
    operands are never rebound, used as `x[S]`  ->  `x[a:b]` (resp. `x[a:b] if c else x[d:e]`)."""
    for fn in [n for n in ast.walk(tree) if isinstance(n, (ast.FunctionDef, ast.AsyncFunctionDef))]:
        stores: Dict[str, int] = {}
        for n in ast.walk(fn):
            if isinstance(n, ast.Name) and isinstance(n.ctx, (ast.Store, ast.Del)):
                stores[n.id] = stores.get(n.id, 0) + 1
        params = {a.arg for a in fn.args.posonlyargs + fn.args.args + fn.args.kwonlyargs}

        def is_slice_call(e):
            return isinstance(e, ast.Call) and isinstance(e.func, ast.Name) and e.func.id == "slice" and not e.keywords and 1 <= len(e.args) <= 3 \
                and not any(isinstance(a, ast.Starred) for a in e.args)

        def stable(e):
            return all((stores.get(n.id, 0) + (1 if n.id in params else 0)) <= 1 for n in ast.walk(e) if isinstance(n, ast.Name)) \
                and not any(isinstance(n, (ast.Call, ast.Await, ast.Yield, ast.YieldFrom, ast.NamedExpr)) and not (isinstance(n, ast.Call) and isinstance(n.func, ast.Name) and n.func.id in ("slice", "len"))
                            for n in ast.walk(e))

        cands: Dict[str, ast.AST] = {}
        for st in ast.walk(fn):
            if isinstance(st, ast.Assign) and len(st.targets) == 1 and isinstance(st.targets[0], ast.Name) and stores.get(st.targets[0].id) == 1 \
                    and st.targets[0].id not in params:
                v = st.value
                if (is_slice_call(v) or (isinstance(v, ast.IfExp) and is_slice_call(v.body) and is_slice_call(v.orelse))) and stable(v):
                    cands[st.targets[0].id] = v
        if not cands:
            continue

        def as_slice(c: ast.Call) -> ast.Slice:
            a = [None if (isinstance(x, ast.Constant) and x.value is None) else copy.deepcopy(x) for x in c.args]
            if len(a) == 1:
                return ast.Slice(lower=None, upper=a[0], step=None)
            return ast.Slice(lower=a[0], upper=a[1], step=a[2] if len(a) > 2 else None)

        class F(ast.NodeTransformer):
            def visit_Subscript(self, n):
                self.generic_visit(n)
                if isinstance(n.slice, ast.Name) and n.slice.id in cands and isinstance(n.ctx, ast.Load):
                    v = cands[n.slice.id]
                    stats["slice_objects_folded"] = stats.get("slice_objects_folded", 0) + 1
                    if isinstance(v, ast.IfExp):
                        new = ast.IfExp(test=copy.deepcopy(v.test),
                                        body=ast.Subscript(value=copy.deepcopy(n.value), slice=as_slice(v.body), ctx=ast.Load()),
                                        orelse=ast.Subscript(value=copy.deepcopy(n.value), slice=as_slice(v.orelse), ctx=ast.Load()))
                    else:
                        new = ast.Subscript(value=n.value, slice=as_slice(v), ctx=ast.Load())
                    return ast.copy_location(new, n)
                return n

        F().visit(fn)
    ast.fix_missing_locations(tree)


# --------------------------------------------------------------------------------------------- loops over new constant tables
def unroll_const_loops(tree: ast.Module, known: Set[str], stats: dict) -> None:
    """`for T in TABLE: BODY` where TABLE is a NEW module-level name (not in the pinned vocabulary) bound once to a literal
    tuple/list of at most 8 entries, the loop has no `else`, `break` or `continue` of its own, and its targets are neither
    assigned in the body nor used after the loop: replaced by BODY once per entry with the targets substituted by the
    entry's expressions (a table-driven rewrite of what the pinned tree spells out statement by statement).  Entries are
    substituted as written; `None is None` / `<other constant> is None` tests that appear by substitution are folded."""
    tables: Dict[str, ast.AST] = {}
    counts: Dict[str, int] = {}
    for st in tree.body:
        tgts = st.targets if isinstance(st, ast.Assign) else [st.target] if isinstance(st, (ast.AnnAssign, ast.AugAssign)) else []
        for t in tgts:
            for n in ast.walk(t):
                if isinstance(n, ast.Name):
                    counts[n.id] = counts.get(n.id, 0) + 1
        if isinstance(st, ast.Assign) and len(st.targets) == 1 and isinstance(st.targets[0], ast.Name) and isinstance(st.value, (ast.Tuple, ast.List)):
            tables[st.targets[0].id] = st.value
    tables = {k: v for k, v in tables.items() if k not in known and counts.get(k) == 1 and 1 <= len(v.elts) <= 8
              and not any(isinstance(n, (ast.Call, ast.Starred, ast.Lambda, ast.ListComp, ast.GeneratorExp, ast.DictComp, ast.SetComp, ast.Await, ast.Yield, ast.NamedExpr))
                          for n in ast.walk(v))}
    if not tables:
        return
    # a table that is mutated or rebound anywhere in the module is left alone
    for n in ast.walk(tree):
        if isinstance(n, ast.Call) and isinstance(n.func, ast.Attribute) and isinstance(n.func.value, ast.Name) and n.func.value.id in tables:
            tables.pop(n.func.value.id, None)
        if isinstance(n, (ast.Global, ast.Nonlocal)):
            for x in n.names:
                tables.pop(x, None)
    if not tables:
        return

    def fold_none(e: ast.AST) -> ast.AST:
        class F(ast.NodeTransformer):
            def visit_IfExp(self, n):
                self.generic_visit(n)
                t = n.test
                if isinstance(t, ast.Compare) and len(t.ops) == 1 and isinstance(t.ops[0], (ast.Is, ast.IsNot)) \
                        and isinstance(t.left, ast.Constant) and isinstance(t.comparators[0], ast.Constant) and t.comparators[0].value is None:
                    val = (t.left.value is None) == isinstance(t.ops[0], ast.Is)
                    return n.body if val else n.orelse
                return n
        return F().visit(e)

    for fn in [n for n in ast.walk(tree) if isinstance(n, (ast.FunctionDef, ast.AsyncFunctionDef))]:
        changed = True
        while changed:
            changed = False
            for parent in ast.walk(fn):
                for field in ("body", "orelse", "finalbody"):
                    lst = getattr(parent, field, None)
                    if not isinstance(lst, list):
                        continue
                    for i, st in enumerate(lst):
                        if not (isinstance(st, ast.For) and not st.orelse and isinstance(st.iter, ast.Name) and st.iter.id in tables):
                            continue
                        if _own_breaks(st) or _own_continues(st) or len(st.body) > 12:
                            continue
                        tnames = [n.id for n in ast.walk(st.target) if isinstance(n, ast.Name)]
                        if not (isinstance(st.target, ast.Name) or (isinstance(st.target, (ast.Tuple, ast.List)) and all(isinstance(x, ast.Name) for x in st.target.elts))):
                            continue
                        inside = {id(n) for n in ast.walk(st)}
                        if any(isinstance(n, ast.Name) and n.id in tnames and id(n) not in inside for n in ast.walk(fn)):
                            continue  # a target is used outside the loop
                        if any(isinstance(n, ast.Name) and n.id in tnames and isinstance(n.ctx, (ast.Store, ast.Del)) for b in st.body for n in ast.walk(b)):
                            continue
                        elts = tables[st.iter.id].elts
                        arity = len(st.target.elts) if isinstance(st.target, (ast.Tuple, ast.List)) else None
                        if arity is not None and not all(isinstance(e, (ast.Tuple, ast.List)) and len(e.elts) == arity for e in elts):
                            continue
                        out: List[ast.stmt] = []
                        for e in elts:
                            env = {st.target.id: e} if arity is None else {t.id: v for t, v in zip(st.target.elts, e.elts)}

                            class R(ast.NodeTransformer):
                                def visit_Name(self, n):
                                    if isinstance(n.ctx, ast.Load) and n.id in env:
                                        return ast.copy_location(copy.deepcopy(env[n.id]), n)
                                    return n

                            for b in st.body:
                                nb = fold_none(R().visit(copy.deepcopy(b)))
                                out.append(nb)
                        lst[i:i + 1] = out
                        stats["const_loops_unrolled"] = stats.get("const_loops_unrolled", 0) + 1
                        changed = True
                        break
                    if changed:
                        break
                if changed:
                    break
    ast.fix_missing_locations(tree)


# --------------------------------------------------------------------------------------------- local records kept in a dict
def scalarise_local_dicts(tree: ast.Module, stats: dict) -> None:
    """A local bound once to `{}` / `dict()` / a dict display with constant string keys that is otherwise only used as
    `d["k"]` (load or store, constant key) and as `**d` in a call is a record: every entry becomes a local `d__k`, and
    `**d` is expanded into keywords in insertion order.  Done only when every `**d` is reached after all the stores (they
    all precede it in one straight-line block), so the set of keys at the call is the set of stores."""
    for fn in [n for n in ast.walk(tree) if isinstance(n, (ast.FunctionDef, ast.AsyncFunctionDef))]:
        params = {a.arg for a in fn.args.posonlyargs + fn.args.args + fn.args.kwonlyargs} | {a.arg for a in (fn.args.vararg, fn.args.kwarg) if a}
        nested = {n.id for c in ast.walk(fn) if c is not fn and isinstance(c, (ast.FunctionDef, ast.AsyncFunctionDef, ast.Lambda, ast.ClassDef)) for n in ast.walk(c) if isinstance(n, ast.Name)}
        defs: Dict[str, List[ast.Assign]] = {}
        for st in ast.walk(fn):
            if isinstance(st, ast.Assign) and len(st.targets) == 1 and isinstance(st.targets[0], ast.Name):
                defs.setdefault(st.targets[0].id, []).append(st)
        for name, ds in defs.items():
            if len(ds) != 1 or name in params or name in nested:
                continue
            v = ds[0].value
            if isinstance(v, ast.Dict):
                if not all(isinstance(k, ast.Constant) and isinstance(k.value, str) and k.value.isidentifier() for k in v.keys):
                    continue
                init = [(k.value, val) for k, val in zip(v.keys, v.values)]
            elif isinstance(v, ast.Call) and isinstance(v.func, ast.Name) and v.func.id == "dict" and not v.args and all(k.arg for k in v.keywords):
                init = [(k.arg, k.value) for k in v.keywords]
            else:
                continue
            # every other occurrence of the name
            parent: Dict[int, ast.AST] = {}
            for n in ast.walk(fn):
                for c in ast.iter_child_nodes(n):
                    parent[id(c)] = n
            ok, keys, stars = True, [k for k, _ in init], []
            for n in ast.walk(fn):
                if not (isinstance(n, ast.Name) and n.id == name) or n is ds[0].targets[0]:
                    continue
                p = parent.get(id(n))
                if isinstance(p, ast.Subscript) and p.value is n and isinstance(p.slice, ast.Constant) and isinstance(p.slice.value, str) and p.slice.value.isidentifier() \
                        and isinstance(p.ctx, (ast.Load, ast.Store)):
                    if isinstance(p.ctx, ast.Store) and p.slice.value not in keys:
                        keys.append(p.slice.value)
                    continue
                if isinstance(p, ast.keyword) and p.arg is None and p.value is n:
                    stars.append(p)
                    continue
                ok = False
                break
            if not ok or not keys:
                continue
            # `**d`: all stores must come before it in the same statement list (straight line)
            if stars:
                blocks = [lst for b in ast.walk(fn) for f2 in ("body", "orelse", "finalbody") for lst in [getattr(b, f2, None)] if isinstance(lst, list)]
                good = True
                for kw in stars:
                    host = None
                    for lst in blocks:
                        for i, st in enumerate(lst):
                            if any(x is kw for x in ast.walk(st)):
                                if host is None or len(lst) >= 0:
                                    host = (lst, i)
                    if host is None:
                        good = False
                        break
                    lst, i = host
                    before = {id(x) for st in lst[:i] for x in ast.walk(st)}
                    for n in ast.walk(fn):
                        if isinstance(n, ast.Subscript) and isinstance(n.value, ast.Name) and n.value.id == name and isinstance(n.ctx, ast.Store) and id(n) not in before:
                            good = False
                    if id(ds[0]) not in before and not any(ds[0] is st for st in lst[:i]):
                        good = False
                    # stores must be top-level statements of that block (unconditional)
                    tops = {id(st.targets[0]) for st in lst[:i] if isinstance(st, ast.Assign) and len(st.targets) == 1}
                    for n in ast.walk(fn):
                        if isinstance(n, ast.Subscript) and isinstance(n.value, ast.Name) and n.value.id == name and isinstance(n.ctx, ast.Store) and id(n) not in tops:
                            good = False
                if not good:
                    continue
            loc = {k: f"{name}__{k}" for k in keys}
            if any(isinstance(n, ast.Name) and n.id in loc.values() for n in ast.walk(fn)):
                continue

            class S(ast.NodeTransformer):
                def visit_Subscript(self, n):
                    self.generic_visit(n)
                    if isinstance(n.value, ast.Name) and n.value.id == name and isinstance(n.slice, ast.Constant) and n.slice.value in loc:
                        return ast.copy_location(ast.Name(id=loc[n.slice.value], ctx=n.ctx), n)
                    return n

                def visit_Call(self, n):
                    self.generic_visit(n)
                    if any(k.arg is None and isinstance(k.value, ast.Name) and k.value.id == name for k in n.keywords):
                        kws = []
                        for k in n.keywords:
                            if k.arg is None and isinstance(k.value, ast.Name) and k.value.id == name:
                                kws.extend(ast.keyword(arg=kk, value=ast.Name(id=loc[kk], ctx=ast.Load())) for kk in keys)
                            else:
                                kws.append(k)
                        n.keywords = kws
                    return n

            S().visit(fn)
            # the initial binding: one assignment per initial entry (or nothing for an empty dict)
            newinit = [ast.copy_location(ast.Assign(targets=[ast.Name(id=loc[k], ctx=ast.Store())], value=val), ds[0]) for k, val in init]
            for b in ast.walk(fn):
                for f2 in ("body", "orelse", "finalbody"):
                    lst = getattr(b, f2, None)
                    if isinstance(lst, list):
                        for i, st in enumerate(lst):
                            if st is ds[0]:
                                lst[i:i + 1] = newinit or ([ast.copy_location(ast.Pass(), st)] if len(lst) == 1 else [])
            stats["local_dicts_scalarised"] = stats.get("local_dicts_scalarised", 0) + 1
    ast.fix_missing_locations(tree)


# --------------------------------------------------------------------------------------------- yield from (generator expression)
def desugar_yield_from_genexp(tree: ast.Module, stats: dict) -> None:
    """`yield from (E for T in IT if C)` as a statement  ->  `for T in IT: if C: yield E` (one `for` clause; the clause
    variables must not be names of the host function)."""
    for fn in [n for n in ast.walk(tree) if isinstance(n, (ast.FunctionDef, ast.AsyncFunctionDef))]:
        names = {n.id for n in ast.walk(fn) if isinstance(n, ast.Name)} | {a.arg for a in fn.args.posonlyargs + fn.args.args + fn.args.kwonlyargs}
        for parent in ast.walk(fn):
            for field in ("body", "orelse", "finalbody"):
                lst = getattr(parent, field, None)
                if not isinstance(lst, list):
                    continue
                for i, st in enumerate(lst):
                    if not (isinstance(st, ast.Expr) and isinstance(st.value, ast.YieldFrom) and isinstance(st.value.value, ast.GeneratorExp)):
                        continue
                    g = st.value.value
                    if len(g.generators) != 1 or g.generators[0].is_async:
                        continue
                    comp = g.generators[0]
                    tn = [n.id for n in ast.walk(comp.target) if isinstance(n, ast.Name)]
                    inside = [n.id for n in ast.walk(g) if isinstance(n, ast.Name)]
                    outside_uses = [x for x in tn if (sum(1 for n in ast.walk(fn) if isinstance(n, ast.Name) and n.id == x) > inside.count(x))]
                    if outside_uses:
                        continue
                    body: List[ast.stmt] = [ast.Expr(value=ast.Yield(value=g.elt))]
                    for c in reversed(comp.ifs):
                        body = [ast.If(test=c, body=body, orelse=[])]
                    loop = ast.For(target=comp.target, iter=comp.iter, body=body, orelse=[])
                    for n in ast.walk(loop):
                        if isinstance(n, ast.Name) and n.id in tn and isinstance(n.ctx, ast.Store):
                            pass
                    ast.copy_location(loop, st)
                    for n in ast.walk(loop):
                        if not hasattr(n, "lineno"):
                            ast.copy_location(n, st)
                    lst[i] = loop
                    stats["yield_from_genexp"] = stats.get("yield_from_genexp", 0) + 1
    ast.fix_missing_locations(tree)


# --------------------------------------------------------------------------------------------- lambda lifting of simple closures
def lift_simple_closures(tree: ast.Module, stats: dict) -> None:
    """A nested function `g` of a host function that is only ever *called* in the host (never stored or passed on), is not
    a generator, has a plain signature, no nested scopes of its own, and whose free variables are host names bound exactly
    once (parameters included) becomes a module-level function with those free variables as extra keyword parameters
    (classical lambda lifting); the calls pass them along.  The lifted function is a NEW name, so the helper inlining that
    follows substitutes it into its call sites."""
    module_names = {n.id for st in tree.body for n in ast.walk(st) if isinstance(n, ast.Name) and isinstance(n.ctx, ast.Store)} \
        | {st.name for st in tree.body if isinstance(st, (ast.FunctionDef, ast.AsyncFunctionDef, ast.ClassDef))}

    def hosts():
        for i, st in enumerate(tree.body):
            if isinstance(st, (ast.FunctionDef, ast.AsyncFunctionDef)):
                yield st, i
            elif isinstance(st, ast.ClassDef):
                for s2 in st.body:
                    if isinstance(s2, (ast.FunctionDef, ast.AsyncFunctionDef)):
                        yield s2, i

    inserts: List[Tuple[int, ast.FunctionDef]] = []
    for host, at in list(hosts()):
        # nested defs that are direct statements of some block of the host (not inside another nested scope)
        def blocks(n):
            for field in ("body", "orelse", "finalbody"):
                lst = getattr(n, field, None)
                if isinstance(lst, list) and lst and isinstance(lst[0], ast.stmt):
                    yield lst
            for h in getattr(n, "handlers", []) or []:
                yield h.body

        stack, found = [host], []
        while stack:
            n = stack.pop()
            for lst in blocks(n):
                for st in lst:
                    if isinstance(st, ast.FunctionDef) and n is not None and st is not host:
                        found.append((lst, st))
                    elif not isinstance(st, (ast.AsyncFunctionDef, ast.ClassDef)):
                        stack.append(st)
        for lst, g in found:
            a = g.args
            if g.decorator_list or a.vararg or a.kwarg or a.posonlyargs or _has(g.body, (ast.Yield, ast.YieldFrom, ast.FunctionDef, ast.AsyncFunctionDef, ast.ClassDef, ast.Lambda, ast.Global, ast.Nonlocal), stop=()):
                continue
            gparams = [x.arg for x in a.args + a.kwonlyargs]
            glocals = {n.id for n in ast.walk(g) if isinstance(n, ast.Name) and isinstance(n.ctx, (ast.Store, ast.Del))} | set(gparams)
            if any(isinstance(n, ast.Name) and n.id == g.name for n in ast.walk(g)):
                continue  # recursive
            # uses of g in the host: call positions only
            ginside = {id(n) for n in ast.walk(g)}
            okuse, calls = True, []
            par: Dict[int, ast.AST] = {}
            for n in ast.walk(host):
                for c in ast.iter_child_nodes(n):
                    par[id(c)] = n
            for n in ast.walk(host):
                if isinstance(n, ast.Name) and n.id == g.name and id(n) not in ginside:
                    p = par.get(id(n))
                    if isinstance(p, ast.Call) and p.func is n and not any(isinstance(x, ast.Starred) for x in p.args) and all(k.arg for k in p.keywords):
                        calls.append(p)
                    else:
                        okuse = False
            if not okuse or not calls:
                continue
            # free variables bound in the host
            hparams = {x.arg for x in host.args.posonlyargs + host.args.args + host.args.kwonlyargs} | {x.arg for x in (host.args.vararg, host.args.kwarg) if x}
            stores: Dict[str, int] = {x: 1 for x in hparams}
            for n in ast.walk(host):
                if id(n) in ginside:
                    continue
                if isinstance(n, ast.Name) and isinstance(n.ctx, (ast.Store, ast.Del)):
                    stores[n.id] = stores.get(n.id, 0) + 1
            free = []
            for n in ast.walk(g):
                if isinstance(n, ast.Name) and isinstance(n.ctx, ast.Load) and n.id not in glocals and n.id in stores and n.id not in free:
                    free.append(n.id)
            if any(stores[x] != 1 for x in free) or any(x in gparams for x in free):
                continue
            fresh = f"{host.name.strip('_')}__{g.name.strip('_')}"
            if fresh in module_names:
                continue
            module_names.add(fresh)
            lifted = copy.deepcopy(g)
            lifted.name = fresh
            for x in free:
                lifted.args.kwonlyargs.append(ast.arg(arg=x, annotation=None))
                lifted.args.kw_defaults.append(None)
            for c in calls:
                c.func.id = fresh
                c.keywords.extend(ast.keyword(arg=x, value=ast.Name(id=x, ctx=ast.Load())) for x in free)
            lst.remove(g)
            if not lst:
                lst.append(ast.copy_location(ast.Pass(), g))
            inserts.append((at, lifted))
            stats["closures_lifted"] = stats.get("closures_lifted", 0) + 1
    for at, fnode in sorted(inserts, key=lambda t: -t[0]):
        tree.body.insert(at, fnode)
    ast.fix_missing_locations(tree)


# --------------------------------------------------------------------------------------------- entry point
def normalise(tree: ast.Module, modname: str, stats: dict, foreign: Optional[Dict[str, Dict[str, object]]] = None) -> None:
    base = baseline().get(modname)
    if base is None:
        return  # a module the baseline does not know (scripts, new modules): left as it is
    fold_constants(tree, set(base.get("names", [])), stats, foreign)
    merge_new_bases(tree, set(base.get("names", [])), stats)
    lift_simple_closures(tree, stats)
    desugar_yield_from_genexp(tree, stats)
    inline_helpers(tree, set(base.get("functions", [])), stats)
    unroll_const_loops(tree, set(base.get("names", [])), stats)
    scalarise_local_dicts(tree, stats)
    desugar_walrus_loops(tree, stats)
    desugar_suppress(tree, stats)
    fold_slice_objects(tree, stats)
    split_extension_webs(tree, stats)
