"""The compiled Malleable-C2 grammar as data.

c2profile.lark is loaded with lark's own grammar loader using exactly the options found in
the ``Lark.open(...)`` call of c2profile.py (read from its AST).  No repository Python code
is executed.  Exposes the reachable expanded rules with alias, kept/filtered symbols and
keyword literals - the same objects lark's Reconstructor / TreeMatcher work from.
"""

from __future__ import annotations

import ast
import os
from dataclasses import dataclass, field
from typing import Dict, List, Optional, Set, Tuple

from . import AnalysisError
from .astutil import const_eval, dotted, NotConst


@dataclass
class Sym:
    name: str
    is_term: bool
    filter_out: bool = False
    literal: Optional[str] = None  # keyword text for string terminals


@dataclass
class GRule:
    origin: str
    alias: Optional[str]
    expansion: List[Sym]
    expand1: bool = False
    order: int = 0

    @property
    def tree_name(self) -> str:
        return self.alias or self.origin

    @property
    def kept(self) -> Tuple[Tuple[str, bool], ...]:
        return tuple((s.name, s.is_term) for s in self.expansion if not (s.is_term and s.filter_out))

    @property
    def filtered(self) -> Tuple[str, ...]:
        return tuple(s.literal if s.literal is not None else s.name for s in self.expansion if s.is_term and s.filter_out)

    @property
    def keywords(self) -> Tuple[str, ...]:
        return tuple(k for k in self.filtered if k not in ("{", "}", ";"))

    def count(self, name: str) -> int:
        return sum(1 for s in self.expansion if s.name == name)


class Grammar:
    def __init__(self, repo):
        self.path = repo.grammar_path
        if not os.path.exists(self.path):
            raise AnalysisError(f"anchor vanished: {self.path}")
        self.options = self._options(repo)
        try:
            from lark import Lark
        except ImportError as e:  # pragma: no cover
            raise AnalysisError(f"lark not importable: {e}")
        kw = {k: v for k, v in self.options.items() if k in ("parser", "maybe_placeholders", "lexer", "start", "keep_all_tokens", "propagate_positions")}
        try:
            self.lark = Lark.open(self.path, **kw)
        except Exception as e:
            raise AnalysisError(f"grammar does not load: {e}")
        self.terminals: Dict[str, Tuple[str, str]] = {}
        for t in self.lark.terminals:
            kind = "str" if type(t.pattern).__name__ == "PatternStr" else "re"
            self.terminals[t.name] = (kind, t.pattern.value)
        self.ignored: Set[str] = set(getattr(self.lark, "ignore_tokens", []) or [])
        self.rules: List[GRule] = []
        for i, r in enumerate(self.lark.rules):
            exp = []
            for s in r.expansion:
                if s.is_term:
                    kind, val = self.terminals.get(s.name, ("?", None))
                    exp.append(Sym(s.name, True, bool(getattr(s, "filter_out", False)), val if kind == "str" else None))
                else:
                    exp.append(Sym(s.name, False))
            self.rules.append(GRule(r.origin.name, r.alias, exp, bool(r.options and r.options.expand1), i))
        self.by_origin: Dict[str, List[GRule]] = {}
        for r in self.rules:
            self.by_origin.setdefault(r.origin, []).append(r)

    def _options(self, repo) -> dict:
        mod = repo.module("c2profile")
        for n in ast.walk(mod.tree):
            if isinstance(n, ast.Call) and dotted(n.func) in ("Lark.open", "Lark", "lark.Lark.open", "Lark.open_from_package"):
                opts = {}
                for k in n.keywords:
                    if k.arg and k.arg != "rel_to":
                        try:
                            opts[k.arg] = const_eval(k.value)
                        except NotConst:
                            pass
                if n.args:
                    try:
                        opts["_file"] = const_eval(n.args[0])
                    except NotConst:
                        pass
                return opts
        raise AnalysisError("anchor vanished: Lark.open(...) call in c2profile.py")

    # ------------------------------------------------------------------ derived views
    def expand_star(self, name: str, seen=None) -> Set[str]:
        """Origins reachable through lark's helper nonterminals (__x_star_N) from symbol `name`."""
        seen = seen or set()
        out = set()
        if name in seen:
            return out
        seen.add(name)
        if not name.startswith("__"):
            return {name}
        for r in self.by_origin.get(name, []):
            for s in r.expansion:
                if not s.is_term:
                    out |= self.expand_star(s.name, seen) if s.name.startswith("__") else {s.name}
        return out

    def body_origins(self, r: GRule) -> Set[str]:
        """The rule(s) whose alternatives make up the body of a block rule `kw { X* }`."""
        out = set()
        for s in r.expansion:
            if not s.is_term:
                out |= self.expand_star(s.name)
        return out

    def alternatives(self, origin: str) -> List[GRule]:
        """Alternatives of an origin, following inline (?rule / _rule) origins."""
        return list(self.by_origin.get(origin, []))

    def string_arity(self, r: GRule) -> int:
        return sum(1 for s in r.expansion if not s.is_term and s.name == "string")

    def is_block(self, r: GRule) -> bool:
        return "{" in r.filtered and "}" in r.filtered

    def option_values(self) -> List[str]:
        """Alternatives of the OPTION terminal (global `set` options)."""
        kind, val = self.terminals.get("OPTION", (None, None))
        if val is None:
            return []
        if kind == "str":
            return [val]
        import re

        # lark joins string alternatives as (?:a|b|...)
        body = val
        m = re.fullmatch(r"\(\?:(.*)\)", body)
        if m:
            body = m.group(1)
        return [re.sub(r"\\(.)", r"\1", p) for p in body.split("|")]

    def keyword_paths(self, start: str = "start") -> Dict[str, Set[str]]:
        """All block paths 'kw1.kw2...' (stack of enclosing block keywords) -> origins of the block body."""
        out: Dict[str, Set[str]] = {}

        def walk(origins: Set[str], prefix: List[str], depth: int):
            if depth > 6:
                return
            for o in sorted(origins):
                for r in self.by_origin.get(o, []):
                    if r.origin.startswith("__"):
                        continue
                    if self.is_block(r):
                        kw = [k for k in r.keywords]
                        if not kw:
                            continue
                        path = prefix + [kw[0]]
                        body = self.body_origins(r) - {"variant", "string"}
                        out.setdefault(".".join(path), set()).update(body)
                        walk(body, path, depth + 1)

        # start -> value*
        roots = set()
        for r in self.by_origin.get(start, []):
            roots |= self.body_origins(r)
        walk(roots, [], 0)
        return out
