"""Obligations, evidence files, known-findings matching and the exit protocol."""

from __future__ import annotations

import json
import os
import time
from dataclasses import asdict, dataclass, field
from typing import Any, Dict, List, Optional

VERIF_DIR = os.path.dirname(os.path.dirname(os.path.abspath(__file__)))
EVIDENCE_DIR = os.path.join(VERIF_DIR, "evidence")
OUT_DIR = os.path.join(VERIF_DIR, "out")
KNOWN_FINDINGS = os.path.join(VERIF_DIR, "known_findings.json")
EVIDENCE_SCHEMA = "/root/.vp/EVIDENCE.schema.json"


@dataclass
class Ob:
    rule: str  # e.g. "C05.R1"
    kind: str  # TABLE / AGREE / DOM / EXIT / ESC / LOOP / ALIAS / ABS / CURSOR / GRAM / VOCAB / TAINT / API
    construct: str  # stable key: "file::qualname::normalised text" - never a line number
    ok: bool
    detail: str
    file: str = ""
    line: int = 0
    nontrivial: bool = True
    known: bool = False
    undecided: bool = False  # the rule could not locate the construct it reasons about: neither discharged nor refuted

    def key(self):
        return (self.rule, self.construct)


class Report:
    def __init__(self, prop: str, tier: str):
        self.prop = prop
        self.tier = tier
        self.obs: List[Ob] = []
        self.t0 = time.time()
        self.explanation = ""
        self.rule_text = ""
        self.assumptions: List[str] = []
        self.trusted_base: List[str] = []
        self.extra: Dict[str, Any] = {}
        self.not_decided: List[str] = []
        self.exhaustive: Optional[bool] = None
        self.floors: Dict[str, int] = {}
        self.counts: Dict[str, int] = {}
        self.analysis_errors: List[str] = []
        self.notes: List[str] = []

    # ------------------------------------------------------------------
    def ob(self, rule, kind, construct, ok, detail, file="", line=0, nontrivial=True, undecided=False) -> Ob:
        if not rule.startswith(self.prop):
            rule = f"{self.prop}.{rule}"
        o = Ob(rule, kind, construct, bool(ok), detail, file, int(line or 0), nontrivial, False, bool(undecided) and not ok)
        self.obs.append(o)
        return o

    def count(self, name: str, n: int, floor: Optional[int] = None):
        """Record an instance count; below the hand-confirmed floor the run is broken."""
        self.counts[name] = n
        if floor is not None:
            self.floors[name] = floor
            if n == 0 and floor > 0:
                # nothing matched at all: the rule would pass vacuously - the run is broken
                self.analysis_errors.append(f"instance count {name}=0, confirmed floor {floor} (rule would pass vacuously)")
            elif n < floor:
                # fewer instances than on the pinned tree (sites merged / moved by a change): recorded, not an error -
                # every instance that *was* found has been checked
                self.notes.append(f"instance count {name}={n} below the pinned tree's {floor}")

    def error(self, msg: str):
        self.analysis_errors.append(msg)

    # ------------------------------------------------------------------
    def load_known(self) -> List[dict]:
        if not os.path.exists(KNOWN_FINDINGS):
            return []
        with open(KNOWN_FINDINGS) as f:
            data = json.load(f)
        return [k for k in data.get("findings", []) if k.get("property") == self.prop and k.get("status", "known") == "known"]

    def finish(self, seed: int = 0) -> int:
        known = self.load_known()
        known_keys = {(k["rule"], k["construct"]): k for k in known}
        violations = []
        matched = []
        undecided = [o for o in self.obs if not o.ok and o.undecided]
        for o in self.obs:
            if not o.ok and not o.undecided:
                k = known_keys.get(o.key())
                if k is not None:
                    o.known = True
                    matched.append((o, k))
                else:
                    violations.append(o)
        wall = time.time() - self.t0
        distinct = len({o.construct for o in self.obs if o.nontrivial})
        samples = [self._sample(o) for o in self._pick_samples()]
        coverage = {
            "explanation": self.explanation or f"static analysis of /repo sources for {self.prop}",
            "rule": self.rule_text
            or "one evaluation per rule instance (obligation); an obligation is non-trivial when it ranges over a "
            "construct found in the current source (not a fixed constant of the checker); distinct = distinct constructs",
            "obligations": len(self.obs),
            "discharged": sum(1 for o in self.obs if o.ok),
            "evaluations": max(len(self.obs), 1),
            "distinct_nontrivial": distinct,
            "samples": samples,
            "trusted_base": self.trusted_base,
            "instance_counts": self.counts,
            "instance_floors": self.floors,
            "rules": sorted({o.rule for o in self.obs}),
            "rule_kinds": sorted({o.kind for o in self.obs}),
            "not_decided": self.not_decided,
            "known_findings_matched": [
                {"rule": o.rule, "construct": o.construct, "what": k.get("what", "")} for o, k in matched
            ],
            "violated": [self._sample(o) for o in violations],
            "undecided": [self._sample(o) for o in undecided],
            "notes": self.notes,
            "analysis_errors": self.analysis_errors,
        }
        if self.exhaustive is not None:
            coverage["exhaustive"] = self.exhaustive
        coverage.update(self.extra)
        ev = {
            "property_id": self.prop,
            "tier": self.tier,
            "seed": int(seed),
            "level": "other",
            "coverage": coverage,
            "assumptions": self.assumptions,
            "wall_s": round(wall, 3),
            "violations": len(violations),
        }
        os.makedirs(EVIDENCE_DIR, exist_ok=True)
        self._validate(ev)
        path = os.path.join(EVIDENCE_DIR, f"{self.prop}.json")
        tmp = path + ".tmp"
        with open(tmp, "w") as f:
            json.dump(ev, f, indent=1, sort_keys=False)
            f.write("\n")
        os.replace(tmp, path)

        print(
            f"[{self.prop}] tier={self.tier} obligations={len(self.obs)} discharged={coverage['discharged']} "
            f"known={len(matched)} violations={len(violations)} wall={wall:.2f}s"
        )
        for o, k in matched:
            print(f"KNOWN-FINDING: property={self.prop} {o.rule} {o.construct} :: {k.get('what', o.detail)}")
        for o in undecided[:25]:
            print(f"UNDECIDED property={self.prop} [{o.rule} {o.kind}] {o.construct} :: {o.detail}")
        for n in self.notes:
            print(f"NOTE property={self.prop} {n}")
        if self.analysis_errors:
            for e in self.analysis_errors:
                print(f"ANALYSIS-ERROR property={self.prop} {e}")
            if not violations:
                return 2
        # a named violated construct takes precedence over a failed instance floor (the floor usually fails *because*
        # the construct changed); a failed floor alone is an analysis error (exit 2)
        if violations:
            os.makedirs(OUT_DIR, exist_ok=True)
            rp = os.path.join(OUT_DIR, f"{self.prop}.violations.json")
            with open(rp, "w") as f:
                json.dump({"property": self.prop, "violations": [asdict(o) for o in violations]}, f, indent=1)
            print(f"VIOLATION property={self.prop} replay={rp}")
            for o in violations:
                print(f"  {o.file}:{o.line} [{o.rule} {o.kind}] {o.construct} :: {o.detail}")
            return 1
        return 0

    # ------------------------------------------------------------------
    def _pick_samples(self) -> List[Ob]:
        seen = set()
        out = []
        for o in self.obs:
            if o.rule in seen:
                continue
            seen.add(o.rule)
            out.append(o)
        for o in self.obs:
            if not o.ok and o not in out:
                out.append(o)
        return out[:40]

    @staticmethod
    def _sample(o: Ob) -> dict:
        return {
            "rule": o.rule,
            "kind": o.kind,
            "construct": o.construct,
            "where": f"{o.file}:{o.line}",
            "status": "discharged" if o.ok else ("undecided" if o.undecided else "known-finding" if o.known else "violated"),
            "detail": o.detail,
        }

    @staticmethod
    def _validate(ev: dict):
        try:
            import jsonschema  # present in python3-vt

            if os.path.exists(EVIDENCE_SCHEMA):
                with open(EVIDENCE_SCHEMA) as f:
                    schema = json.load(f)
            else:
                with open(os.path.join(VERIF_DIR, "csverif", "evidence.schema.json")) as f:
                    schema = json.load(f)
            jsonschema.validate(ev, schema)
        except ImportError:
            pass


def construct(func_or_file, text: str) -> str:
    """Stable construct key."""
    if hasattr(func_or_file, "fq"):
        f = func_or_file
        return f"{f.module.relpath.split('/')[-1]}::{f.qualname}::{text}"
    return f"{func_or_file}::{text}"
