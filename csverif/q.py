"""Reusable queries over functions: call sites, enclosing statements, def-use, CFG specialisation."""

from __future__ import annotations

import ast
import copy
from typing import Callable, Dict, Iterable, List, Optional, Set, Tuple

from .astutil import (
    assignments_to,
    body_walk,
    conjuncts,
    dotted,
    fn_calls,
    params,
    src,
    statements,
    strip_cast,
    walk_no_nested,
)
from .cfg import CFG, ENTRY, EXIT, RAISE
from .loader import Func


class FuncView:
    """Cached per-function facts (parents, statement of each node)."""

    _cache: Dict[int, "FuncView"] = {}

    def __init__(self, fn: ast.AST):
        self.fn = fn
        self.parent: Dict[int, ast.AST] = {}
        for n in ast.walk(fn):
            for c in ast.iter_child_nodes(n):
                self.parent[id(c)] = n

    @classmethod
    def of(cls, fn: ast.AST) -> "FuncView":
        v = cls._cache.get(id(fn))
        if v is None or v.fn is not fn:
            v = cls(fn)
            cls._cache[id(fn)] = v
        return v

    def stmt_of(self, node: ast.AST) -> Optional[ast.stmt]:
        """Innermost statement containing node (for compound statements: the header owner)."""
        n = node
        while n is not None and not isinstance(n, (ast.stmt, ast.ExceptHandler)):
            n = self.parent.get(id(n))
        return n  # type: ignore[return-value]

    def cfg_stmt_of(self, node: ast.AST) -> Optional[ast.AST]:
        """The statement that carries `node` in the CFG: an expression inside the *test* of an
        if/while or the iter of a for belongs to that header node; inside a body to the inner stmt."""
        return self.stmt_of(node)

    def enclosing(self, node: ast.AST, types) -> Optional[ast.AST]:
        n = self.parent.get(id(node))
        while n is not None and n is not self.fn:
            if isinstance(n, types):
                return n
            n = self.parent.get(id(n))
        return None

    def ancestors(self, node: ast.AST) -> List[ast.AST]:
        out = []
        n = self.parent.get(id(node))
        while n is not None:
            out.append(n)
            if n is self.fn:
                break
            n = self.parent.get(id(n))
        return out


def calls_to(ctx, f: Func, target_fq: Optional[str] = None, attr: Optional[str] = None, ext: Optional[str] = None) -> List[ast.Call]:
    """Call sites in f that resolve to package function `target_fq`, or are method calls
    named `attr` (any receiver), or resolve to external dotted name `ext`."""
    out = []
    for c in fn_calls(f.node):
        if target_fq is not None:
            cal = ctx.rs.resolve_call(f, c)
            if cal.kind == "func" and cal.func is not None and cal.func.fq == target_fq:
                out.append(c)
                continue
            if cal.kind == "class" and cal.fq == target_fq:
                out.append(c)
                continue
        if attr is not None and isinstance(c.func, ast.Attribute) and c.func.attr == attr:
            out.append(c)
            continue
        if ext is not None:
            cal = ctx.rs.resolve_call(f, c)
            if cal.kind == "external" and cal.fq == ext:
                out.append(c)
    return out


def reassigned(fn: ast.AST, name: str) -> bool:
    return bool(assignments_to(fn, name))


def origin(fn: ast.AST, e: ast.AST, depth: int = 0) -> ast.AST:
    """Follow single-definition local copies back to the defining expression."""
    e = strip_cast(e)
    if depth > 6:
        return e
    if isinstance(e, ast.Name) and e.id not in params(fn):
        defs = assignments_to(fn, e.id)
        if len(defs) == 1 and defs[0][1] is not None:
            return origin(fn, defs[0][1], depth + 1)
    return e


def all_origins(fn: ast.AST, e: ast.AST, depth: int = 0) -> List[ast.AST]:
    """All defining expressions a local may come from (multi-definition aware)."""
    e = strip_cast(e)
    if depth > 6:
        return [e]
    if isinstance(e, ast.Name) and e.id not in params(fn):
        defs = assignments_to(fn, e.id)
        if defs and all(v is not None for _s, v in defs):
            out = []
            for _s, v in defs:
                out.extend(all_origins(fn, v, depth + 1))
            return out
    return [e]


# ---------------------------------------------------------------------------- three-valued tests
def _int_cmp0(test: ast.AST, assume, ints) -> Optional[bool]:
    """`x == 0`, `x != 0`, `(x, y) == (0, 0)`, `(x, y) != (0, 0)` (either operand order) for names known to be ints:
    truthiness of an int is `!= 0`; a tuple equals the zero tuple iff every element is zero."""
    if not (isinstance(test, ast.Compare) and len(test.ops) == 1 and isinstance(test.ops[0], (ast.Eq, ast.NotEq))):
        return None
    l, r = test.left, test.comparators[0]

    def zero(e):
        if isinstance(e, ast.Constant):
            return type(e.value) is int and e.value == 0
        return isinstance(e, ast.Tuple) and bool(e.elts) and all(zero(x) for x in e.elts)

    if zero(l) and not zero(r):
        l, r = r, l
    if not zero(r):
        return None
    elts = l.elts if isinstance(l, ast.Tuple) else [l]
    if isinstance(l, ast.Tuple) != isinstance(r, ast.Tuple) or (isinstance(l, ast.Tuple) and len(l.elts) != len(r.elts)):
        return None
    vals = []
    for e in elts:
        d = dotted(e)
        if d is None or d not in ints or d not in assume:
            return None
        vals.append(assume[d])
    if any(v is True for v in vals):
        alleq: Optional[bool] = False
    elif all(v is False for v in vals):
        alleq = True
    else:
        alleq = None
    if alleq is None:
        return None
    return alleq if isinstance(test.ops[0], ast.Eq) else (not alleq)


def tv_eval(test: ast.AST, assume: Dict[str, Optional[bool]], ints=frozenset()) -> Optional[bool]:
    """Three-valued evaluation of a test under truthiness assumptions on dotted names.  `ints` names the assumed
    names known to hold ints (enables the `== 0` / zero-tuple comparisons)."""
    d = dotted(test)
    if d is not None and d in assume:
        return assume[d]
    if ints:
        z = _int_cmp0(test, assume, ints)
        if z is not None:
            return z
    if isinstance(test, (ast.Call, ast.Compare)):
        k = src(test)
        if k in assume:
            return assume[k]
        from .astutil import flipped as _fl

        f2 = _fl(test)
        if f2 is not None and src(f2) in assume:
            return assume[src(f2)]
    if isinstance(test, ast.Constant):
        return bool(test.value)
    if isinstance(test, ast.UnaryOp) and isinstance(test.op, ast.Not):
        v = tv_eval(test.operand, assume, ints)
        return None if v is None else (not v)
    if isinstance(test, ast.BoolOp):
        vals = [tv_eval(v, assume, ints) for v in test.values]
        if isinstance(test.op, ast.And):
            if any(v is False for v in vals):
                return False
            if all(v is True for v in vals):
                return True
            return None
        if any(v is True for v in vals):
            return True
        if all(v is False for v in vals):
            return False
        return None
    if isinstance(test, ast.Call) and dotted(test.func) in ("any", "all") and len(test.args) == 1 and isinstance(test.args[0], (ast.List, ast.Tuple)):
        vals = [tv_eval(v, assume, ints) for v in test.args[0].elts]
        if dotted(test.func) == "any":
            if any(v is True for v in vals):
                return True
            return False if all(v is False for v in vals) else None
        if any(v is False for v in vals):
            return False
        return True if all(v is True for v in vals) else None
    if isinstance(test, ast.Compare) and len(test.ops) == 1:
        l, op, r = test.left, test.ops[0], test.comparators[0]
        dl = dotted(l)
        # x is None / x is not None under assumption key "x is None"
        if isinstance(op, (ast.Is, ast.IsNot)) and isinstance(r, ast.Constant) and r.value is None and dl:
            k = f"{dl} is None"
            if k in assume and assume[k] is not None:
                return assume[k] if isinstance(op, ast.Is) else (not assume[k])
            if dl in assume and assume[dl] is True:
                # truthy implies not None
                return False if isinstance(op, ast.Is) else True
    return None


def specialise(cfg: CFG, assume: Dict[str, Optional[bool]], ints=frozenset()) -> CFG:
    """A copy of cfg with the branch edges removed that are infeasible under `assume`."""
    c = copy.copy(cfg)
    c.g = cfg.g.copy()
    c._idom = None
    c._ipdom = None
    for n, st in cfg.stmt.items():
        if isinstance(st, (ast.If, ast.While)):
            v = tv_eval(st.test, assume, ints)
            if v is True:
                f = cfg.edge_node(st, "false")
                if c.g.has_edge(n, f):
                    c.g.remove_edge(n, f)
            elif v is False:
                t = cfg.edge_node(st, "true")
                if c.g.has_edge(n, t):
                    c.g.remove_edge(n, t)
    return c


def edge_for_condition(cfg: CFG, st: ast.AST, want: bool) -> Tuple:
    return cfg.edge_node(st, "true" if want else "false")


def guarded_by(ctx, f: Func, node: ast.AST, pred: Callable[[ast.AST], Optional[bool]]) -> bool:
    """Is `node`'s statement dominated by an if/while edge whose test satisfies pred?

    pred(test) returns True if the *true* edge establishes the fact, False if the *false*
    edge does, None if the test is irrelevant.
    """
    cfg = ctx.cfg(f)
    fv = FuncView.of(f.node)
    st = fv.stmt_of(node)
    if st is None or not cfg.has(st):
        return False
    target = cfg.node(st)
    # an expression in the test of an `if` is evaluated before its edges: handle and/or inline
    def pn(test):
        r = pred(test)
        if r is None and isinstance(test, ast.UnaryOp) and isinstance(test.op, ast.Not):
            r2 = pn(test.operand)
            return None if r2 is None else (not r2)
        return r

    for n, s in cfg.stmt.items():
        if isinstance(s, (ast.If, ast.While)):
            r = pn(s.test)
            if r is None:
                # conjunction: `if a and b:` true edge establishes both
                for cj in conjuncts(s.test):
                    if pn(cj) is True:
                        r = True
                        break
            if r is None:
                # disjunction: `if a or b:` false edge refutes both
                from .astutil import disjuncts as _dj

                for dj in _dj(s.test):
                    if pn(dj) is False:
                        r = False
                        break
            if r is None:
                continue
            e = cfg.edge_node(s, "true" if r else "false")
            if cfg.dominates(e, target) and e != target:
                return True
    return False


_MUTATORS = frozenset("append extend insert pop remove clear sort reverse update add discard setdefault popitem appendleft popleft".split())


def _mutated_container(fn: ast.AST, name: str, v: ast.AST) -> bool:
    """`name` is bound to a fresh mutable container and is modified in place somewhere in fn."""
    fresh = isinstance(v, (ast.List, ast.Dict, ast.Set, ast.ListComp, ast.DictComp, ast.SetComp)) or (
        isinstance(v, ast.Call) and isinstance(v.func, (ast.Name, ast.Attribute))
        and (v.func.id if isinstance(v.func, ast.Name) else v.func.attr) in ("list", "dict", "set", "bytearray", "OrderedDict", "defaultdict", "deque", "Counter"))
    if not fresh:
        return False
    for n in ast.walk(fn):
        if isinstance(n, ast.Call) and isinstance(n.func, ast.Attribute) and isinstance(n.func.value, ast.Name) and n.func.value.id == name \
                and n.func.attr in _MUTATORS:
            return True
        if isinstance(n, (ast.Subscript,)) and isinstance(n.ctx, (ast.Store, ast.Del)) and isinstance(n.value, ast.Name) and n.value.id == name:
            return True
        if isinstance(n, ast.AugAssign) and isinstance(n.target, ast.Name) and n.target.id == name:
            return True
    return False


def inline(fn: ast.AST, e: ast.AST, depth: int = 0, stop=frozenset()) -> ast.AST:
    """A copy of expression e in which every local that has exactly one definition (a plain expression, not a
    parameter) is replaced by that definition, recursively: `t = h(x); g(t)` is seen as `g(h(x))`."""
    if depth > 6:
        return e

    class _In(ast.NodeTransformer):
        def visit_Name(self, node):
            if isinstance(node.ctx, ast.Load) and node.id not in params(fn) and node.id not in stop:
                defs = assignments_to(fn, node.id)
                if len(defs) == 1 and defs[0][1] is not None and isinstance(defs[0][0], (ast.Assign, ast.AnnAssign)):
                    v = defs[0][1]
                    if _mutated_container(fn, node.id, v):
                        return node  # `stack = []` that is grown / popped later is not the constant `[]`
                    if not any(isinstance(x, ast.Name) and x.id == node.id for x in ast.walk(v)):
                        return inline(fn, copy.deepcopy(v), depth + 1, stop)
            return node

        def visit_Lambda(self, node):
            return node

    return _In().visit(copy.deepcopy(e))


def reaching_defs(ctx, f: Func, name: str, at: ast.AST) -> List[Tuple[ast.AST, Optional[ast.AST]]]:
    """Definitions (stmt, value) of local `name` that reach the statement containing `at`.

    A definition reaches a use if there is a CFG path from it to the use that passes no
    other definition of the same name.  Parameters count as a definition at ENTRY
    (returned as (fn, None))."""
    cfg = ctx.cfg(f)
    fv = FuncView.of(f.node)
    ust = fv.stmt_of(at)
    if ust is None or not cfg.has(ust):
        return []
    use = cfg.node(ust)
    defs = assignments_to(f.node, name)
    nodes = []
    for st, v in defs:
        s = st if isinstance(st, ast.stmt) else fv.stmt_of(st)
        if s is not None and cfg.has(s):
            n = cfg.node(s)
            # a for-loop binds its target on the iterate edge
            if isinstance(s, (ast.For, ast.AsyncFor)):
                n = cfg.edge_node(s, "iter")
            nodes.append((n, st, v))
    all_nodes = [n for n, _s, _v in nodes]
    out = []
    for n, st, v in nodes:
        others = [x for x in all_nodes if x != n]
        if n == use:
            # the defining statement itself uses the name on its right-hand side: reached by others only
            continue
        if cfg.reaches(n, use, avoiding=others):
            out.append((st, v))
    if name in params(f.node):
        if cfg.reaches(ENTRY, use, avoiding=all_nodes):
            out.append((f.node, None))
    return out


def reaching_origins(ctx, f: Func, e: ast.AST, at: Optional[ast.AST] = None, depth: int = 0) -> List[ast.AST]:
    """Defining expressions that may flow into expression `e` evaluated at `at` (flow-sensitive)."""
    e = strip_cast(e)
    at = at if at is not None else e
    if depth > 6 or not isinstance(e, ast.Name):
        return [e]
    rd = reaching_defs(ctx, f, e.id, at)
    if not rd:
        return [e]
    out: List[ast.AST] = []
    for st, v in rd:
        if v is None:
            out.append(e if st is f.node else st)
        else:
            out.extend(reaching_origins(ctx, f, v, st, depth + 1))
    return out


def dominating_conditions(ctx, f: Func, node: ast.AST) -> List[Tuple[str, bool, ast.AST]]:
    """(normalised conjunct text, polarity, test node) of every branch edge that dominates node's statement.

    A true edge contributes each conjunct of its test with polarity True; a false edge
    contributes each disjunct with polarity False (De Morgan)."""
    from .astutil import disjuncts

    cfg = ctx.cfg(f)
    fv = FuncView.of(f.node)
    st = fv.stmt_of(node)
    out: List[Tuple[str, bool, ast.AST]] = []
    if st is None or not cfg.has(st):
        return out
    target = cfg.node(st)
    for n, s in cfg.stmt.items():
        if isinstance(s, (ast.If, ast.While)):
            t, fl = cfg.edge_node(s, "true"), cfg.edge_node(s, "false")
            from .astutil import flipped as _flp

            def emit(e, pol):
                # push negations inwards: `not X` holding means X does not hold (and De Morgan on and/or)
                while isinstance(e, ast.UnaryOp) and isinstance(e.op, ast.Not):
                    e, pol = e.operand, not pol
                if isinstance(e, ast.BoolOp) and ((isinstance(e.op, ast.And) and pol) or (isinstance(e.op, ast.Or) and not pol)):
                    for v in e.values:
                        emit(v, pol)
                    return
                out.append((src(e), pol, e))
                m = _flp(e)
                if m is not None:
                    out.append((src(m), pol, m))

            if cfg.dominates(t, target):
                emit(s.test, True)
            elif cfg.dominates(fl, target):
                emit(s.test, False)
    return out


def returns_of(f: Func) -> List[ast.Return]:
    return [s for s in statements(f.node) if isinstance(s, ast.Return)]


def raises_of(f: Func) -> List[ast.Raise]:
    return [s for s in statements(f.node) if isinstance(s, ast.Raise)]


def raise_class(r: ast.Raise) -> Optional[str]:
    e = r.exc
    if e is None:
        return None
    if isinstance(e, ast.Call):
        return dotted(e.func)
    return dotted(e)


def slice_bound(sub: ast.Subscript) -> Tuple[Optional[ast.AST], Optional[ast.AST], Optional[ast.AST]]:
    if isinstance(sub.slice, ast.Slice):
        return sub.slice.lower, sub.slice.upper, sub.slice.step
    return None, None, None
