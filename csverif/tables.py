"""Reference tables (oracles for TABLE rules), written down independently of the repository.

Sources: the property statements in properties.jsonl, the public Cobalt Strike Malleable C2
language documentation, and the PE/COFF specification.
"""

# Cobalt Strike transform opcodes (http-get/http-post client programs, recover programs)
TRANSFORM_STEPS = {
    "APPEND": 1, "PREPEND": 2, "BASE64": 3, "PRINT": 4, "PARAMETER": 5, "HEADER": 6, "BUILD": 7, "NETBIOS": 8,
    "_PARAMETER": 9, "_HEADER": 10, "NETBIOSU": 11, "URI_APPEND": 12, "BASE64URL": 13, "STRREP": 14, "MASK": 15,
    "_HOSTHEADER": 16,
}
# arity classes of the client-program parser
STEPS_NO_ARG = {"BASE64", "BASE64URL", "NETBIOS", "NETBIOSU", "URI_APPEND", "PRINT", "MASK"}
STEPS_LEN_ARG = {"_HEADER", "HEADER", "PARAMETER", "_PARAMETER", "_HOSTHEADER", "APPEND", "PREPEND"}
STEPS_BUILD = {"BUILD"}
STEPS_EXEMPT = {"STRREP": "stage-only opcode, never part of an HTTP transform program"}
# recover (server output) programs: opcode -> carries a length
RECOVER_STEPS = {"APPEND": True, "PREPEND": True, "BASE64": False, "PRINT": False, "NETBIOS": False, "NETBIOSU": False,
                 "BASE64URL": False, "MASK": False}

INJECT_EXECUTORS = {
    "CreateThread": 1, "SetThreadContext": 2, "CreateRemoteThread": 3, "RtlCreateUserThread": 4, "NtQueueApcThread": 5,
    "CreateThread_": 6, "CreateRemoteThread_": 7, "NtQueueApcThread_s": 8,
}
BOF_ALLOCATORS = {"VirtualAlloc": 0, "MapViewOfFile": 1, "HeapAlloc": 2}

BEACON_GATE_COMMS = ["InternetOpenA", "InternetConnectA"]
BEACON_GATE_CORE = [
    "VirtualAlloc", "VirtualAllocEx", "VirtualProtect", "VirtualProtectEx", "VirtualFree", "GetThreadContext",
    "SetThreadContext", "ResumeThread", "CreateThread", "CreateRemoteThread", "OpenProcess", "OpenThread", "CloseHandle",
    "CreateFileMappingA", "MapViewOfFile", "UnmapViewOfFile", "VirtualQuery", "DuplicateHandle", "ReadProcessMemory",
    "WriteProcessMemory",
]
BEACON_GATE_CLEANUP = ["ExitThread"]
BEACON_GATE_APIS = BEACON_GATE_COMMS + BEACON_GATE_CORE + BEACON_GATE_CLEANUP  # 23, in wire order

# encoder/decoder pairs of the data transform language
INVERSE_PAIRS = {
    "base64": ("base64.b64encode", "base64.b64decode"),
    "base64url": ("base64.urlsafe_b64encode", "base64.urlsafe_b64decode"),
    "netbios": ("utils.netbios_encode", "utils.netbios_decode"),
    "netbiosu": ("utils.netbios_encode", "utils.netbios_decode"),
    "mask": ("utils.xor", "utils.xor"),
}
PLACEMENTS = {"print": "body", "header": "headers", "parameter": "params", "uri_append": "uri"}

# PE/COFF: struct -> (size, {field: (offset, width)})
PE_LAYOUT = {
    "IMAGE_DOS_HEADER": (64, {"e_magic": (0, 2), "e_lfanew": (60, 4)}),
    "IMAGE_FILE_HEADER": (20, {"Machine": (0, 2), "NumberOfSections": (2, 2), "TimeDateStamp": (4, 4), "SizeOfOptionalHeader": (16, 2)}),
    "IMAGE_OPTIONAL_HEADER": (224, {"SizeOfHeaders": (60, 4), "DataDirectory": (96, 128)}),
    "IMAGE_OPTIONAL_HEADER64": (240, {"SizeOfHeaders": (60, 4), "DataDirectory": (112, 128)}),
    "IMAGE_SECTION_HEADER": (40, {"VirtualSize": (8, 4), "VirtualAddress": (12, 4), "SizeOfRawData": (16, 4), "PointerToRawData": (20, 4)}),
    "IMAGE_EXPORT_DIRECTORY": (40, {"TimeDateStamp": (4, 4)}),
    "IMAGE_DATA_DIRECTORY": (8, {"VirtualAddress": (0, 4), "Size": (4, 4)}),
}
PE_DEFINES = {"IMAGE_FILE_MACHINE_AMD64": 0x8664, "IMAGE_FILE_MACHINE_I386": 0x014C, "IMAGE_DIRECTORY_ENTRY_EXPORT": 0,
              "IMAGE_NUMBEROF_DIRECTORY_ENTRIES": 16}

# string-literal escapes the profile language documents: letter -> byte (None = hex forms)
ESCAPES = {"n": 0x0A, "r": 0x0D, "t": 0x09, "\\": 0x5C, '"': 0x22, "'": 0x27, "x": None, "u": None}

GUARD_OPTIONS = {"GUARD_USER": 5, "GUARD_COMPUTER": 6, "GUARD_DOMAIN": 7, "GUARD_LOCAL_IP": 8, "GUARD_PAYLOAD_CHECKSUM": 9}
GUARD_STARTS = [("GUARD_USER", "TYPE_SHORT", 2), ("GUARD_COMPUTER", "TYPE_SHORT", 2), ("GUARD_DOMAIN", "TYPE_SHORT", 2), ("GUARD_LOCAL_IP", "TYPE_INT", 4)]

# data-transform block paths Cobalt Strike defines (dictionary keys of list-valued blocks)
DATA_TRANSFORM_PATHS = [
    "http-get.client.metadata", "http-get.server.output", "http-post.client.id", "http-post.client.output",
    "http-post.server.output", "http-stager.server.output",
]
