"""Parser for the C-like definitions the repository hands to dissect.cstruct.

Finds every ``<cstruct>.load(<DEF>)`` in a module (DEF a module-level string constant or
``typedef_for_enum(<IntEnum class>)``), remembers the ``endian=`` of the owning
``cstruct(...)`` call and parses ``#define``, ``enum``/``flag`` and ``struct`` bodies.
"""

from __future__ import annotations

import ast
import re
from dataclasses import dataclass, field
from typing import Dict, List, Optional, Tuple

from . import AnalysisError
from .astutil import const_eval, dotted, NotConst

BASE_TYPES: Dict[str, Tuple[int, bool]] = {
    # name: (size, signed)
    "int8": (1, True), "uint8": (1, False), "int16": (2, True), "uint16": (2, False),
    "int32": (4, True), "uint32": (4, False), "int64": (8, True), "uint64": (8, False),
    "char": (1, False), "uchar": (1, False), "BYTE": (1, False), "UCHAR": (1, False), "CHAR": (1, True),
    "WORD": (2, False), "USHORT": (2, False), "SHORT": (2, True),
    "DWORD": (4, False), "ULONG": (4, False), "LONG": (4, True), "UINT": (4, False), "INT": (4, True),
    "ULONGLONG": (8, False), "LONGLONG": (8, True), "QWORD": (8, False), "DWORD64": (8, False),
    "ULONG64": (8, False),
    # stdint / kernel / IDA spellings that dissect.cstruct predefines as typedefs of the types above
    "int8_t": (1, True), "uint8_t": (1, False), "int16_t": (2, True), "uint16_t": (2, False),
    "int32_t": (4, True), "uint32_t": (4, False), "int64_t": (8, True), "uint64_t": (8, False),
    "__u8": (1, False), "__u16": (2, False), "__u32": (4, False), "__u64": (8, False),
    "__s8": (1, True), "__s16": (2, True), "__s32": (4, True), "__s64": (8, True),
    "u1": (1, False), "u2": (2, False), "u4": (4, False), "u8": (8, False),
    "_BYTE": (1, False), "_WORD": (2, False), "_DWORD": (4, False), "_QWORD": (8, False),
    "short": (2, True), "ushort": (2, False), "int": (4, True), "uint": (4, False), "long": (4, True), "ulong": (4, False),
    "unsigned char": (1, False), "unsigned short": (2, False), "unsigned int": (4, False), "unsigned long": (4, False),
    "signed char": (1, True), "signed short": (2, True), "signed int": (4, True), "signed long": (4, True),
    "INT8": (1, True), "UINT8": (1, False), "INT16": (2, True), "UINT16": (2, False), "INT32": (4, True), "UINT32": (4, False),
    "INT64": (8, True), "UINT64": (8, False),
}


@dataclass
class Enum:
    name: str
    base: str
    members: List[Tuple[str, int]]
    is_flag: bool = False

    def by_name(self) -> Dict[str, int]:
        return {n: v for n, v in self.members}

    def names_of(self, value: int) -> List[str]:
        return [n for n, v in self.members if v == value]


@dataclass
class Field:
    name: str
    type: str
    count: Optional[str] = None  # array length expression text (None = scalar)
    offset: Optional[int] = None  # static offset (None once a dynamic field precedes)
    size: Optional[int] = None  # static size (None if dynamic)
    signed: bool = False


@dataclass
class Struct:
    name: str
    fields: List[Field]
    aliases: List[str] = field(default_factory=list)

    def field(self, name: str) -> Optional[Field]:
        for f in self.fields:
            if f.name == name:
                return f
        return None

    @property
    def static_size(self) -> Optional[int]:
        tot = 0
        for f in self.fields:
            if f.size is None:
                return None
            tot += f.size
        return tot

    @property
    def fixed_prefix_size(self) -> int:
        tot = 0
        for f in self.fields:
            if f.size is None:
                break
            tot += f.size
        return tot


@dataclass
class CDefs:
    var: str  # python variable holding the cstruct instance
    endian: str  # "<" or ">"
    defines: Dict[str, int] = field(default_factory=dict)
    enums: Dict[str, Enum] = field(default_factory=dict)
    structs: Dict[str, Struct] = field(default_factory=dict)
    sources: List[str] = field(default_factory=list)
    aliases: Dict[str, str] = field(default_factory=dict)  # python module name -> C type name

    def type_size(self, t: str) -> Optional[Tuple[int, bool]]:
        if t in BASE_TYPES:
            return BASE_TYPES[t]
        if t in self.enums:
            return self.type_size(self.enums[t].base)
        if t in self.structs:
            s = self.structs[t].static_size
            return (s, False) if s is not None else None
        return None

    def struct(self, name: str) -> Struct:
        if name in self.structs:
            return self.structs[name]
        for s in self.structs.values():
            if name in s.aliases:
                return s
        raise AnalysisError(f"anchor vanished: struct {name} in definitions of {self.var}")

    def enum(self, name: str) -> Enum:
        if name not in self.enums:
            raise AnalysisError(f"anchor vanished: enum {name} in definitions of {self.var}")
        return self.enums[name]


_COMMENT = re.compile(r"//[^\n]*|/\*.*?\*/", re.S)


def _int(text: str, defines: Dict[str, int]) -> int:
    text = text.strip()
    if text in defines:
        return defines[text]
    try:
        return int(text, 0)
    except ValueError:
        # decimal with leading zeros e.g. 0x014c handled above; plain "08" etc.
        return int(text.lstrip("0") or "0", 10)


def parse_cdef(text: str, out: CDefs) -> None:
    text = _COMMENT.sub("", text)
    # defines
    for m in re.finditer(r"^[ \t]*#define[ \t]+(\w+)[ \t]+(\S+)[ \t]*$", text, re.M):
        try:
            out.defines[m.group(1)] = _int(m.group(2), out.defines)
        except ValueError:
            pass
    text = re.sub(r"^[ \t]*#define[^\n]*$", "", text, flags=re.M)
    pos = 0
    n = len(text)
    tok = re.compile(r"\s*(typedef\s+)?(enum|flag|struct|union)\s+(\w+)?\s*(?::\s*(\w+)\s*)?\{", re.S)
    while pos < n:
        m = tok.search(text, pos)
        if not m:
            break
        kind, name, base = m.group(2), m.group(3), m.group(4)
        body, end = _balanced(text, m.end() - 1)
        tail = re.match(r"\s*(\w+)?\s*;", text[end:])
        alias = tail.group(1) if tail else None
        pos = end + (tail.end() if tail else 0)
        if kind in ("enum", "flag"):
            members = []
            nxt = 0
            for part in body.split(","):
                part = part.strip()
                if not part:
                    continue
                if "=" in part:
                    k, _, v = part.partition("=")
                    val = _int(v, out.defines)
                else:
                    k, val = part, nxt
                members.append((k.strip(), val))
                nxt = val + 1 if kind == "enum" else (val * 2 or 1)
            e = Enum(name or alias or "?", base or "uint32", members, is_flag=(kind == "flag"))
            out.enums[e.name] = e
            if alias and alias != e.name:
                out.enums[alias] = e
        else:
            st = Struct(name or alias or "?", _fields(body, out))
            if alias and alias != st.name:
                st.aliases.append(alias)
            if st.name.startswith("_"):
                st.aliases.append(st.name[1:])
            out.structs[st.name] = st
            for a in st.aliases:
                out.structs.setdefault(a, st)


def _balanced(text: str, start: int) -> Tuple[str, int]:
    assert text[start] == "{"
    depth = 0
    for i in range(start, len(text)):
        if text[i] == "{":
            depth += 1
        elif text[i] == "}":
            depth -= 1
            if depth == 0:
                return text[start + 1 : i], i + 1
    raise AnalysisError("unbalanced braces in C definition")


def _fields(body: str, out: CDefs) -> List[Field]:
    fields: List[Field] = []
    offset: Optional[int] = 0
    i = 0
    # nested union/struct { ... } name;
    while i < len(body):
        m = re.compile(r"\s*(union|struct)\s*\{").match(body, i)
        if m:
            inner, end = _balanced(body, m.end() - 1)
            tail = re.match(r"\s*(\w+)\s*;", body[end:])
            sub = _fields(inner, out)
            if m.group(1) == "union":
                size = max((f.size or 0) for f in sub) if all(f.size is not None for f in sub) else None
            else:
                size = sum(f.size for f in sub) if all(f.size is not None for f in sub) else None
            nm = tail.group(1) if tail else "?"
            fields.append(Field(nm, m.group(1), None, offset, size))
            offset = offset + size if (offset is not None and size is not None) else None
            i = end + (tail.end() if tail else 0)
            continue
        m = re.compile(r"\s*([\w ]+?)\s+(\w+)\s*(?:\[([^\]]*)\])?\s*;").match(body, i)
        if not m:
            if body[i:].strip():
                # skip one char of unknown text
                i += 1
                continue
            break
        typ, name, count = m.group(1).strip(), m.group(2), m.group(3)
        ts = out.type_size(typ)
        size: Optional[int]
        signed = False
        if ts is None:
            size = None
        else:
            esz, signed = ts
            if count is None:
                size = esz
            else:
                try:
                    size = esz * _int(count, out.defines)
                except ValueError:
                    size = None
        fields.append(Field(name, typ, count.strip() if count is not None else None, offset, size, signed))
        offset = offset + size if (offset is not None and size is not None) else None
        i = m.end()
    return fields


# ----------------------------------------------------------------------------------
def discover(mod) -> Dict[str, CDefs]:
    """All cstruct instances of a module with the definitions loaded into them."""
    found: Dict[str, CDefs] = {}
    chain_defs: List[Tuple[str, ast.Call]] = []

    def endian_of(call: ast.Call) -> str:
        for k in call.keywords:
            if k.arg == "endian" and isinstance(k.value, ast.Constant):
                return str(k.value.value)
        if call.args and isinstance(call.args[0], ast.Constant) and isinstance(call.args[0].value, str):
            return call.args[0].value
        return "<"

    def is_cstruct_ctor(n: ast.AST) -> bool:
        return isinstance(n, ast.Call) and dotted(n.func) in ("cstruct", "cstruct.cstruct")

    def load_arg(cd: CDefs, a: ast.AST):
        if isinstance(a, ast.Name) and a.id in mod.consts:
            v = mod.consts[a.id]
            if isinstance(v, ast.Constant) and isinstance(v.value, str):
                cd.sources.append(a.id)
                parse_cdef(v.value, cd)
                return
        if isinstance(a, ast.Constant) and isinstance(a.value, str):
            cd.sources.append("<inline>")
            parse_cdef(a.value, cd)
            return
        if isinstance(a, ast.Call) and dotted(a.func) == "typedef_for_enum" and a.args:
            cname = dotted(a.args[0])
            base = "uint32"
            if len(a.args) > 1 and isinstance(a.args[1], ast.Constant):
                base = a.args[1].value
            for k in a.keywords:
                if k.arg == "int_type" and isinstance(k.value, ast.Constant):
                    base = k.value.value
            if cname in mod.classes:
                members = []
                for st in mod.classes[cname].body:
                    if isinstance(st, ast.Assign) and len(st.targets) == 1 and isinstance(st.targets[0], ast.Name):
                        try:
                            members.append((st.targets[0].id, const_eval(st.value)))
                        except NotConst:
                            pass
                cd.enums[cname] = Enum(cname, base, members)
                cd.sources.append(f"typedef_for_enum({cname})")
                return
        raise AnalysisError(f"{mod.relpath}: cannot resolve argument of .load(): {ast.unparse(a)}")

    for st in mod.tree.body:
        # var = cstruct(...)  |  var = cstruct(...).load(DEF)
        if isinstance(st, ast.Assign) and len(st.targets) == 1 and isinstance(st.targets[0], ast.Name):
            v = st.value
            var = st.targets[0].id
            if is_cstruct_ctor(v):
                found[var] = CDefs(var, endian_of(v))
            elif (
                isinstance(v, ast.Call)
                and isinstance(v.func, ast.Attribute)
                and v.func.attr == "load"
                and is_cstruct_ctor(v.func.value)
            ):
                cd = CDefs(var, endian_of(v.func.value))
                found[var] = cd
                for a in v.args:
                    load_arg(cd, a)
            elif isinstance(v, ast.Attribute) and isinstance(v.value, ast.Name) and v.value.id in found:
                found[v.value.id].aliases[var] = v.attr
        elif isinstance(st, ast.Expr) and isinstance(st.value, ast.Call):
            c = st.value
            if isinstance(c.func, ast.Attribute) and c.func.attr == "load" and isinstance(c.func.value, ast.Name):
                if c.func.value.id in found:
                    for a in c.args:
                        load_arg(found[c.func.value.id], a)
    return found


def serialise(cd: CDefs, struct: Struct, values: Dict[str, int]) -> bytes:
    """Serialise the static scalar fields of `struct` that are named in `values`, in order."""
    out = b""
    for f in struct.fields:
        if f.name not in values:
            break
        ts = cd.type_size(f.type)
        if ts is None or f.count is not None:
            break
        out += int(values[f.name]).to_bytes(ts[0], "big" if cd.endian == ">" else "little")
    return out
