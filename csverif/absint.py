"""A small abstract interpreter: intervals, parity, length intervals, and a polynomial
normal form (SymPoly) for symbolic bounds / offsets.

Transfer functions exist only for the operators and builtins the repository uses;
anything else evaluates to TOP.  The interpreter walks structured statements
(if/while/for/try) with branch refinement; loops havoc the variables they assign.
"""

from __future__ import annotations

import ast
from dataclasses import dataclass, field, replace
from fractions import Fraction
from typing import Callable, Dict, List, Optional, Tuple

from .astutil import dotted, src

INF = None


# ---------------------------------------------------------------------------- intervals
@dataclass(frozen=True)
class Itv:
    lo: Optional[int] = None  # None = -inf
    hi: Optional[int] = None  # None = +inf

    @staticmethod
    def const(c: int) -> "Itv":
        return Itv(c, c)

    @property
    def is_top(self) -> bool:
        return self.lo is None and self.hi is None

    def join(self, o: "Itv") -> "Itv":
        lo = None if self.lo is None or o.lo is None else min(self.lo, o.lo)
        hi = None if self.hi is None or o.hi is None else max(self.hi, o.hi)
        return Itv(lo, hi)

    def meet(self, o: "Itv") -> Optional["Itv"]:
        lo = o.lo if self.lo is None else self.lo if o.lo is None else max(self.lo, o.lo)
        hi = o.hi if self.hi is None else self.hi if o.hi is None else min(self.hi, o.hi)
        if lo is not None and hi is not None and lo > hi:
            return None
        return Itv(lo, hi)

    def __add__(self, o: "Itv") -> "Itv":
        return Itv(None if self.lo is None or o.lo is None else self.lo + o.lo,
                   None if self.hi is None or o.hi is None else self.hi + o.hi)

    def __neg__(self) -> "Itv":
        return Itv(None if self.hi is None else -self.hi, None if self.lo is None else -self.lo)

    def __sub__(self, o: "Itv") -> "Itv":
        return self + (-o)

    def mul(self, o: "Itv") -> "Itv":
        if self.nonneg and o.nonneg:
            return Itv(self.lo * o.lo, None if self.hi is None or o.hi is None else self.hi * o.hi)
        if None in (self.lo, self.hi, o.lo, o.hi):
            return Itv()
        c = [self.lo * o.lo, self.lo * o.hi, self.hi * o.lo, self.hi * o.hi]
        return Itv(min(c), max(c))

    def mod(self, o: "Itv") -> "Itv":
        # Python: result has the sign of the divisor
        if o.lo is not None and o.lo >= 1:
            if o.hi is None:
                return Itv(0, None)
            # x % m in [0, m-1]; tighter when x already within
            if self.lo is not None and self.hi is not None and self.lo >= 0 and self.hi < o.lo:
                return self
            return Itv(0, o.hi - 1)
        return Itv()

    def floordiv(self, o: "Itv") -> "Itv":
        if o.lo is not None and o.lo >= 1 and self.nonneg:
            hi = None if self.hi is None else self.hi // o.lo
            lo = 0 if o.hi is None else self.lo // o.hi
            return Itv(lo, hi)
        return Itv()

    def band(self, o: "Itv") -> "Itv":
        # x & m with m a non-negative constant -> [0, m]
        if o.lo is not None and o.lo >= 0 and o.hi is not None:
            return Itv(0, o.hi)
        if self.lo is not None and self.lo >= 0 and self.hi is not None:
            return Itv(0, self.hi)
        return Itv()

    @property
    def nonneg(self) -> bool:
        return self.lo is not None and self.lo >= 0

    @property
    def positive(self) -> bool:
        return self.lo is not None and self.lo >= 1

    def excludes(self, v: int) -> bool:
        return (self.lo is not None and v < self.lo) or (self.hi is not None and v > self.hi)

    def within(self, lo: Optional[int], hi: Optional[int]) -> bool:
        if lo is not None and (self.lo is None or self.lo < lo):
            return False
        if hi is not None and (self.hi is None or self.hi > hi):
            return False
        return True

    def __str__(self):
        return f"[{'-inf' if self.lo is None else self.lo}, {'+inf' if self.hi is None else self.hi}]"


TOP = Itv()
NONNEG = Itv(0, None)


@dataclass(frozen=True)
class AVal:
    kind: Optional[str] = None  # "int" | "bytes" | "str" | "seq" | None(unknown)
    itv: Itv = TOP  # numeric value (ints)
    length: Itv = NONNEG  # len() for sized kinds
    parity: Optional[int] = None  # 0 even / 1 odd / None
    origin: Optional[str] = None  # symbolic tag, e.g. "len(data)"

    def join(self, o: "AVal") -> "AVal":
        return AVal(
            self.kind if self.kind == o.kind else None,
            self.itv.join(o.itv),
            self.length.join(o.length),
            self.parity if self.parity == o.parity else None,
            self.origin if self.origin == o.origin else None,
        )


UNKNOWN = AVal()


def aint(lo=None, hi=None, parity=None, origin=None) -> AVal:
    return AVal("int", Itv(lo, hi), NONNEG, parity, origin)


def abytes(lo=0, hi=None, kind="bytes") -> AVal:
    return AVal(kind, TOP, Itv(lo, hi))


Env = Dict[str, AVal]


class Interp:
    """Forward abstract interpretation of one function body."""

    def __init__(self, fn: ast.AST, init: Optional[Env] = None, consts: Optional[Callable[[str], Optional[AVal]]] = None,
                 call_hook: Optional[Callable[["Interp", ast.Call, Env], Optional[AVal]]] = None):
        self.fn = fn
        self.init = dict(init or {})
        self.consts = consts
        self.call_hook = call_hook
        self.before: Dict[int, Env] = {}  # env before each statement (joined over visits)
        self.expr_vals: Dict[int, AVal] = {}

    # ------------------------------------------------------------------ expressions
    def ev(self, e: ast.AST, env: Env) -> AVal:
        v = self._ev(e, env)
        old = self.expr_vals.get(id(e))
        self.expr_vals[id(e)] = v if old is None else old.join(v)
        return v

    def _ev(self, e: ast.AST, env: Env) -> AVal:
        if isinstance(e, ast.Constant):
            c = e.value
            if isinstance(c, bool):
                return aint(int(c), int(c), int(c) % 2)
            if isinstance(c, int):
                return aint(c, c, c % 2)
            if isinstance(c, bytes):
                return abytes(len(c), len(c))
            if isinstance(c, str):
                return abytes(len(c), len(c), "str")
            return UNKNOWN
        d = dotted(e)
        if d is not None:
            if d in env:
                return env[d]
            if self.consts is not None:
                v = self.consts(d)
                if v is not None:
                    return v
            return UNKNOWN
        if isinstance(e, ast.UnaryOp):
            v = self.ev(e.operand, env)
            if isinstance(e.op, ast.USub) and v.kind == "int":
                return aint((-v.itv).lo, (-v.itv).hi, v.parity)
            if isinstance(e.op, ast.Invert) and v.kind == "int":
                # ~x = -x - 1
                i = (-v.itv) - Itv.const(1)
                return aint(i.lo, i.hi, None if v.parity is None else 1 - v.parity)
            if isinstance(e.op, ast.Not):
                return aint(0, 1)
            return UNKNOWN
        if isinstance(e, ast.BinOp):
            return self._binop(e, env)
        if isinstance(e, ast.Call):
            return self._call(e, env)
        if isinstance(e, ast.Subscript):
            base = self.ev(e.value, env)
            if isinstance(e.slice, ast.Slice):
                return self._slice(base, e.slice, env)
            self.ev(e.slice, env)
            if base.kind == "bytes":
                return aint(0, 255)
            return UNKNOWN
        if isinstance(e, ast.IfExp):
            self.ev(e.test, env)
            te, fe = self.refine(e.test, env, True), self.refine(e.test, env, False)
            a = self.ev(e.body, te if te is not None else env)
            b = self.ev(e.orelse, fe if fe is not None else env)
            if te is None:
                return b
            if fe is None:
                return a
            return a.join(b)
        if isinstance(e, ast.JoinedStr):
            return AVal("str")
        if isinstance(e, (ast.List, ast.Tuple)):
            for x in e.elts:
                self.ev(x, env)
            return AVal("seq", TOP, Itv(len(e.elts), len(e.elts)))
        if isinstance(e, ast.BoolOp):
            vals = [self.ev(v, env) for v in e.values]
            out = vals[0]
            for v in vals[1:]:
                out = out.join(v)
            return out
        if isinstance(e, ast.Compare):
            self.ev(e.left, env)
            for c in e.comparators:
                self.ev(c, env)
            return aint(0, 1)
        return UNKNOWN

    def _binop(self, e: ast.BinOp, env: Env) -> AVal:
        a, b = self.ev(e.left, env), self.ev(e.right, env)
        op = e.op
        if a.kind == "int" and b.kind == "int":
            if isinstance(op, ast.Add):
                i = a.itv + b.itv
                p = None if a.parity is None or b.parity is None else (a.parity + b.parity) % 2
                return aint(i.lo, i.hi, p)
            if isinstance(op, ast.Sub):
                i = a.itv - b.itv
                p = None if a.parity is None or b.parity is None else (a.parity + b.parity) % 2
                # algebraic: x - x % m  is a multiple of m and lies in (x-m, x]
                if isinstance(e.right, ast.BinOp) and isinstance(e.right.op, ast.Mod) and src(e.right.left) == src(e.left):
                    m = self.ev(e.right.right, env)
                    if m.kind == "int" and m.itv.lo is not None and m.itv.lo == m.itv.hi and m.itv.lo >= 1:
                        mm = m.itv.lo
                        p = 0 if mm % 2 == 0 else p
                        lo = None if a.itv.lo is None else a.itv.lo - (mm - 1)
                        return aint(lo, a.itv.hi, p)
                return aint(i.lo, i.hi, p)
            if isinstance(op, ast.Mult):
                i = a.itv.mul(b.itv)
                p = 0 if 0 in (a.parity, b.parity) else (1 if a.parity == 1 and b.parity == 1 else None)
                return aint(i.lo, i.hi, p)
            if isinstance(op, ast.Mod):
                i = a.itv.mod(b.itv)
                p = None
                if b.itv.lo is not None and b.itv.lo == b.itv.hi and b.itv.lo % 2 == 0 and b.itv.lo > 0:
                    p = a.parity
                return aint(i.lo, i.hi, p)
            if isinstance(op, ast.FloorDiv):
                i = a.itv.floordiv(b.itv)
                return aint(i.lo, i.hi)
            if isinstance(op, ast.BitAnd):
                i = a.itv.band(b.itv)
                p = None
                # parity of x & m: bit0 = bit0(x) & bit0(m)
                if a.parity is not None and b.parity is not None:
                    p = a.parity & b.parity
                elif a.parity == 0 or b.parity == 0:
                    p = 0
                return aint(i.lo, i.hi, p)
            if isinstance(op, ast.BitOr):
                p = 1 if 1 in (a.parity, b.parity) else (0 if a.parity == 0 and b.parity == 0 else None)
                if a.itv.nonneg and b.itv.nonneg:
                    return aint(0, None, p)
                return aint(None, None, p)
            if isinstance(op, ast.BitXor):
                p = None if a.parity is None or b.parity is None else a.parity ^ b.parity
                if a.itv.nonneg and b.itv.nonneg:
                    return aint(0, None, p)
                return aint(None, None, p)
            if isinstance(op, ast.LShift):
                if a.itv.nonneg and b.itv.positive:
                    return aint(0, None, 0)
                return aint()
            if isinstance(op, ast.RShift):
                if a.itv.nonneg:
                    return aint(0, a.itv.hi)
                return aint()
            if isinstance(op, ast.Div):
                return UNKNOWN
            return aint()
        if isinstance(op, ast.Add) and a.kind in ("bytes", "str", "seq") and a.kind == b.kind:
            return AVal(a.kind, TOP, a.length + b.length)
        if isinstance(op, ast.Mult):
            seq, n = (a, b) if a.kind in ("bytes", "str", "seq") else (b, a)
            if seq.kind in ("bytes", "str", "seq") and n.kind == "int":
                ni = n.itv.meet(NONNEG) or Itv.const(0)
                if n.itv.lo is None or n.itv.lo < 0:
                    ni = Itv(0, n.itv.hi if n.itv.hi is not None and n.itv.hi >= 0 else (0 if n.itv.hi is not None else None))
                return AVal(seq.kind, TOP, seq.length.mul(ni))
        return UNKNOWN

    def _slice(self, base: AVal, sl: ast.Slice, env: Env) -> AVal:
        if sl.step is not None:
            self.ev(sl.step, env)
        lo = self.ev(sl.lower, env) if sl.lower is not None else None
        hi = self.ev(sl.upper, env) if sl.upper is not None else None
        kind = base.kind if base.kind in ("bytes", "str", "seq") else None
        L = base.length if kind else NONNEG
        out_hi = L.hi
        out_lo = 0
        if sl.step is None:
            if lo is None and hi is not None and hi.kind == "int" and hi.itv.nonneg:
                # x[:k]  -> len = min(len(x), k)
                if hi.itv.hi is not None:
                    out_hi = hi.itv.hi if out_hi is None else min(out_hi, hi.itv.hi)
                if L.lo is not None:
                    out_lo = min(L.lo, hi.itv.lo)
            elif hi is None and lo is not None and lo.kind == "int" and lo.itv.nonneg:
                # x[k:] -> len = max(0, len(x) - k)
                if out_hi is not None:
                    out_hi = max(0, out_hi - lo.itv.lo)
                if L.lo is not None and lo.itv.hi is not None:
                    out_lo = max(0, L.lo - lo.itv.hi)
            elif lo is not None and hi is not None and lo.kind == hi.kind == "int" and lo.itv.nonneg and hi.itv.nonneg:
                if hi.itv.hi is not None:
                    w = max(0, hi.itv.hi - lo.itv.lo)
                    out_hi = w if out_hi is None else min(out_hi, w)
        return AVal(kind, TOP, Itv(out_lo, out_hi))

    def _call(self, c: ast.Call, env: Env) -> AVal:
        args = [self.ev(a, env) for a in c.args]
        for k in c.keywords:
            self.ev(k.value, env)
        if self.call_hook is not None:
            r = self.call_hook(self, c, env)
            if r is not None:
                return r
        name = dotted(c.func)
        if name == "len" and len(args) == 1:
            L = args[0].length if args[0].kind in ("bytes", "str", "seq") else NONNEG
            return aint(L.lo, L.hi, None, origin=f"len({src(c.args[0])})")
        if name == "int" and len(args) >= 1:
            return aint()
        if name in ("random.getrandbits",) and args and args[0].kind == "int" and args[0].itv.hi is not None:
            return aint(0, (1 << args[0].itv.hi) - 1)
        if name in ("random.randrange",) and len(args) == 2 and all(a.kind == "int" for a in args):
            return aint(args[0].itv.lo, None if args[1].itv.hi is None else args[1].itv.hi - 1)
        if name == "sum":
            return aint()
        if name in ("bytes", "bytearray") and len(args) == 1 and args[0].kind in ("bytes", "seq"):
            return AVal("bytes", TOP, args[0].length)
        if name == "str":
            return AVal("str")
        if name in ("min", "max") and len(args) == 2 and all(a.kind == "int" for a in args):
            a, b = args[0].itv, args[1].itv
            if name == "min":
                hi = a.hi if b.hi is None else b.hi if a.hi is None else min(a.hi, b.hi)
                lo = None if a.lo is None or b.lo is None else min(a.lo, b.lo)
            else:
                lo = a.lo if b.lo is None else b.lo if a.lo is None else max(a.lo, b.lo)
                hi = None if a.hi is None or b.hi is None else max(a.hi, b.hi)
            return aint(lo, hi)
        if isinstance(c.func, ast.Attribute):
            recv = self.ev(c.func.value, env)
            m = c.func.attr
            if m == "encode" and recv.kind == "str":
                # utf-8 (default): 1..4 bytes per code point; ascii/latin-1: exactly 1
                enc = None
                if c.args and isinstance(c.args[0], ast.Constant):
                    enc = c.args[0].value
                for k in c.keywords:
                    if k.arg == "encoding" and isinstance(k.value, ast.Constant):
                        enc = k.value.value
                factor = 1 if (enc or "utf-8").lower().replace("_", "-") in ("ascii", "latin-1", "latin1", "iso-8859-1") else 4
                hi = None if recv.length.hi is None else recv.length.hi * factor
                return AVal("bytes", TOP, Itv(recv.length.lo, hi))
            if m == "decode" and recv.kind == "bytes":
                return AVal("str", TOP, Itv(0, recv.length.hi))
            if m in ("rstrip", "lstrip", "strip") and recv.kind in ("bytes", "str"):
                return AVal(recv.kind, TOP, Itv(0, recv.length.hi))
            if m in ("lower", "upper") and recv.kind in ("bytes", "str"):
                return recv
            if m == "to_bytes" and c.args:
                n = self.ev(c.args[0], env) if not (isinstance(c.func.value, ast.Name) and c.func.value.id == "int") else (
                    self.ev(c.args[1], env) if len(c.args) > 1 else UNKNOWN)
                if n.kind == "int" and n.itv.nonneg:
                    return AVal("bytes", TOP, n.itv)
                return AVal("bytes")
            if m == "read":
                if args and args[0].kind == "int" and args[0].itv.nonneg:
                    return AVal("bytes", TOP, Itv(0, args[0].itv.hi))
                return AVal("bytes")
            if m == "tell":
                return aint(0, None)
            if m == "digest":
                return AVal("bytes")
            if m == "find":
                return aint(-1, None)
            if m == "bit_length":
                return aint(0, None)
        return UNKNOWN

    # ------------------------------------------------------------------ refinement
    def refine(self, test: ast.AST, env: Env, outcome: bool) -> Optional[Env]:
        """Environment on the given outcome of test; None if infeasible."""
        if isinstance(test, ast.UnaryOp) and isinstance(test.op, ast.Not):
            return self.refine(test.operand, env, not outcome)
        if isinstance(test, ast.BoolOp):
            if isinstance(test.op, ast.And) == outcome:
                # all conjuncts true (and/True) or all disjuncts false (or/False)
                e: Optional[Env] = env
                for v in test.values:
                    if e is None:
                        return None
                    e = self.refine(v, e, outcome)
                return e
            # at least one: join of refinements
            outs = [self.refine(v, env, outcome) for v in test.values]
            outs = [o for o in outs if o is not None]
            if not outs:
                return None
            return join_envs(outs)
        if isinstance(test, ast.Compare) and len(test.ops) == 1:
            l, op, r = test.left, test.ops[0], test.comparators[0]
            lv, rv = self.ev(l, env), self.ev(r, env)
            if not outcome:
                neg = {ast.Lt: ast.GtE, ast.LtE: ast.Gt, ast.Gt: ast.LtE, ast.GtE: ast.Lt, ast.Eq: ast.NotEq, ast.NotEq: ast.Eq}
                if type(op) not in neg:
                    return env
                op = neg[type(op)]()
            out = dict(env)
            for (a, av, b, bv, o) in ((l, lv, r, rv, op), (r, rv, l, lv, _flip(op))):
                if av.kind != "int" or bv.kind != "int":
                    # len(x) compared
                    continue
                bound = None
                if isinstance(o, ast.Lt) and bv.itv.hi is not None:
                    bound = Itv(None, bv.itv.hi - 1)
                elif isinstance(o, ast.LtE) and bv.itv.hi is not None:
                    bound = Itv(None, bv.itv.hi)
                elif isinstance(o, ast.Gt) and bv.itv.lo is not None:
                    bound = Itv(bv.itv.lo + 1, None)
                elif isinstance(o, ast.GtE) and bv.itv.lo is not None:
                    bound = Itv(bv.itv.lo, None)
                elif isinstance(o, ast.Eq):
                    bound = bv.itv
                elif isinstance(o, ast.NotEq) and bv.itv.lo is not None and bv.itv.lo == bv.itv.hi:
                    c = bv.itv.lo
                    if av.itv.lo == c:
                        bound = Itv(c + 1, None)
                    elif av.itv.hi == c:
                        bound = Itv(None, c - 1)
                if bound is None:
                    continue
                m = av.itv.meet(bound)
                if m is None:
                    return None
                d = dotted(a)
                if d is not None:
                    out[d] = replace(av, itv=m)
                elif isinstance(a, ast.Call) and dotted(a.func) == "len" and len(a.args) == 1:
                    d2 = dotted(a.args[0])
                    if d2 is not None:
                        base = env.get(d2, UNKNOWN)
                        if base.kind in ("bytes", "str", "seq"):
                            out[d2] = replace(base, length=m)
                # expression-keyed fact (e.g. sum(key) == 0)
                out["#" + src(a)] = replace(av, itv=m)
            return out
        # truthiness of a name / len
        d = dotted(test)
        if d is not None and d in env:
            v = env[d]
            out = dict(env)
            if v.kind == "int":
                if outcome:
                    if v.itv.lo == 0:
                        out[d] = replace(v, itv=Itv(1, v.itv.hi))
                    elif v.itv.hi == 0:
                        out[d] = replace(v, itv=Itv(v.itv.lo, -1))
                else:
                    m = v.itv.meet(Itv.const(0))
                    if m is None:
                        return None
                    out[d] = replace(v, itv=m, parity=0)
            elif v.kind in ("bytes", "str", "seq"):
                if outcome:
                    m = v.length.meet(Itv(1, None))
                else:
                    m = v.length.meet(Itv.const(0))
                if m is None:
                    return None
                out[d] = replace(v, length=m)
            return out
        return env

    # ------------------------------------------------------------------ statements
    def run(self) -> Optional[Env]:
        body = self.fn.body if not isinstance(self.fn, ast.Lambda) else [ast.Return(value=self.fn.body)]
        return self.block(body, dict(self.init))

    def _note(self, st: ast.AST, env: Env):
        old = self.before.get(id(st))
        self.before[id(st)] = dict(env) if old is None else join_envs([old, env])

    def block(self, body: List[ast.stmt], env: Optional[Env]) -> Optional[Env]:
        for st in body:
            if env is None:
                return None
            env = self.stmt(st, env)
        return env

    def assign(self, target: ast.AST, val: AVal, env: Env) -> Env:
        d = dotted(target)
        if d is not None:
            env = {k: v for k, v in env.items() if not (k.startswith("#") and _mentions(k, d))}
            env[d] = val
            # invalidate attribute facts hanging off a rebound name
            for k in list(env):
                if k.startswith(d + "."):
                    del env[k]
        elif isinstance(target, (ast.Tuple, ast.List)):
            for t in target.elts:
                env = self.assign(t, UNKNOWN, env)
        return env

    def stmt(self, st: ast.stmt, env: Env) -> Optional[Env]:
        self._note(st, env)
        if isinstance(st, ast.Assign):
            v = self.ev(st.value, env)
            for t in st.targets:
                env = self.assign(t, v, env)
            return env
        if isinstance(st, ast.AnnAssign):
            if st.value is not None:
                env = self.assign(st.target, self.ev(st.value, env), env)
            return env
        if isinstance(st, ast.AugAssign):
            fake = ast.BinOp(left=_load(st.target), op=st.op, right=st.value)
            ast.copy_location(fake, st)
            v = self.ev(fake, env)
            return self.assign(st.target, v, env)
        if isinstance(st, ast.Expr):
            self.ev(st.value, env)
            return env
        if isinstance(st, ast.Return):
            if st.value is not None:
                self.ev(st.value, env)
            return None
        if isinstance(st, ast.Raise):
            return None
        if isinstance(st, ast.If):
            self.ev(st.test, env)
            te, fe = self.refine(st.test, env, True), self.refine(st.test, env, False)
            o1 = self.block(st.body, te) if te is not None else None
            o2 = self.block(st.orelse, fe) if fe is not None else None
            outs = [o for o in (o1, o2) if o is not None]
            return join_envs(outs) if outs else None
        if isinstance(st, (ast.While, ast.For, ast.AsyncFor)):
            assigned = _assigned_in(st)
            env = {k: v for k, v in env.items() if not any(k == a or k.startswith(a + ".") or (k.startswith("#") and _mentions(k, a)) for a in assigned)}
            if isinstance(st, ast.While):
                self.ev(st.test, env)
                inner = self.refine(st.test, env, True)
            else:
                it = self.ev(st.iter, env)
                inner = dict(env)
                if isinstance(st.iter, ast.Call) and dotted(st.iter.func) == "range":
                    a = [self.ev(x, env) for x in st.iter.args]
                    if len(a) == 1 and a[0].kind == "int":
                        inner = self.assign(st.target, aint(0, None if a[0].itv.hi is None else a[0].itv.hi - 1), inner)
                    elif len(a) >= 2 and a[0].kind == "int" and a[0].itv.nonneg:
                        inner = self.assign(st.target, aint(a[0].itv.lo, None), inner)
                    else:
                        inner = self.assign(st.target, aint(), inner)
                elif it.kind == "bytes":
                    inner = self.assign(st.target, aint(0, 255), inner)
                else:
                    inner = self.assign(st.target, UNKNOWN, inner)
            if inner is not None:
                self.block(st.body, inner)
            out = env
            if isinstance(st, ast.While):
                out = self.refine(st.test, env, False)
                if isinstance(st.test, ast.Constant) and st.test.value:
                    out = env  # leaves through break: state is the havocked one
            if st.orelse and out is not None:
                out = self.block(st.orelse, out)
            return out
        if isinstance(st, (ast.With, ast.AsyncWith)):
            for it in st.items:
                self.ev(it.context_expr, env)
                if it.optional_vars is not None:
                    env = self.assign(it.optional_vars, UNKNOWN, env)
            return self.block(st.body, env)
        if isinstance(st, ast.Try):
            assigned = _assigned_in(ast.Module(body=st.body, type_ignores=[]))
            o = self.block(st.body, env)
            hav = {k: v for k, v in env.items() if not any(k == a or k.startswith(a + ".") for a in assigned)}
            outs = []
            if o is not None:
                o2 = self.block(st.orelse, o) if st.orelse else o
                if o2 is not None:
                    outs.append(o2)
            for h in st.handlers:
                ho = self.block(h.body, dict(hav))
                if ho is not None:
                    outs.append(ho)
            res = join_envs(outs) if outs else None
            if st.finalbody:
                res = self.block(st.finalbody, res if res is not None else dict(hav))
            return res
        if isinstance(st, ast.Assert):
            r = self.refine(st.test, env, True)
            return r
        return env


def _load(t: ast.AST) -> ast.AST:
    import copy

    n = copy.deepcopy(t)
    for x in ast.walk(n):
        if hasattr(x, "ctx"):
            x.ctx = ast.Load()
    return n


def _flip(op: ast.cmpop) -> ast.cmpop:
    m = {ast.Lt: ast.Gt, ast.LtE: ast.GtE, ast.Gt: ast.Lt, ast.GtE: ast.LtE}
    return m.get(type(op), type(op))()


def _mentions(key: str, name: str) -> bool:
    import re

    return re.search(r"(?<![\w.])" + re.escape(name) + r"(?![\w])", key) is not None


def _assigned_in(node: ast.AST) -> set:
    out = set()
    for n in ast.walk(node):
        if isinstance(n, (ast.Assign, ast.AugAssign, ast.AnnAssign, ast.For, ast.AsyncFor, ast.NamedExpr, ast.With)):
            tgts = []
            if isinstance(n, ast.Assign):
                tgts = n.targets
            elif isinstance(n, (ast.AugAssign, ast.AnnAssign, ast.For, ast.AsyncFor, ast.NamedExpr)):
                tgts = [n.target]
            elif isinstance(n, ast.With):
                tgts = [i.optional_vars for i in n.items if i.optional_vars is not None]
            for t in tgts:
                for x in ast.walk(t):
                    d = dotted(x)
                    if d is not None:
                        out.add(d)
    return out


def join_envs(envs: List[Env]) -> Env:
    keys = set(envs[0])
    for e in envs[1:]:
        keys &= set(e)
    return {k: _join_all([e[k] for e in envs]) for k in keys}


def _join_all(vals: List[AVal]) -> AVal:
    out = vals[0]
    for v in vals[1:]:
        out = out.join(v)
    return out


# ---------------------------------------------------------------------------- SymPoly
class SymPoly:
    """Polynomial over named atoms with Fraction coefficients (a normal form for + - * and
    division by constants).  Used to compare symbolic offsets and bounds structurally."""

    def __init__(self, terms: Optional[Dict[Tuple[str, ...], Fraction]] = None):
        self.terms = {k: v for k, v in (terms or {}).items() if v != 0}

    @staticmethod
    def const(c) -> "SymPoly":
        return SymPoly({(): Fraction(c)})

    @staticmethod
    def atom(name: str) -> "SymPoly":
        return SymPoly({(name,): Fraction(1)})

    def __add__(self, o):
        t = dict(self.terms)
        for k, v in o.terms.items():
            t[k] = t.get(k, 0) + v
        return SymPoly(t)

    def __neg__(self):
        return SymPoly({k: -v for k, v in self.terms.items()})

    def __sub__(self, o):
        return self + (-o)

    def __mul__(self, o):
        t: Dict[Tuple[str, ...], Fraction] = {}
        for k1, v1 in self.terms.items():
            for k2, v2 in o.terms.items():
                k = tuple(sorted(k1 + k2))
                t[k] = t.get(k, 0) + v1 * v2
        return SymPoly(t)

    def div_const(self, c) -> "SymPoly":
        return SymPoly({k: v / Fraction(c) for k, v in self.terms.items()})

    def is_const(self) -> bool:
        return all(k == () for k in self.terms)

    def const_value(self) -> Optional[Fraction]:
        if self.is_const():
            return self.terms.get((), Fraction(0))
        return None

    def __eq__(self, o):
        return isinstance(o, SymPoly) and self.terms == o.terms

    def __hash__(self):
        return hash(tuple(sorted(self.terms.items())))

    def atoms(self) -> set:
        return {a for k in self.terms for a in k}

    def __repr__(self):
        if not self.terms:
            return "0"
        parts = []
        for k, v in sorted(self.terms.items()):
            mon = "*".join(k)
            if not k:
                parts.append(str(v))
            elif v == 1:
                parts.append(mon)
            else:
                parts.append(f"{v}*{mon}")
        return " + ".join(parts)


def sympoly(e: ast.AST, subst: Optional[Callable[[ast.AST], Optional[SymPoly]]] = None) -> Optional[SymPoly]:
    """Normal form of an arithmetic expression; atoms are dotted names / call texts."""
    if subst is not None:
        s = subst(e)
        if s is not None:
            return s
    if isinstance(e, ast.Constant) and isinstance(e.value, (int, float)) and not isinstance(e.value, bool):
        return SymPoly.const(Fraction(e.value).limit_denominator(10**9))
    d = dotted(e)
    if d is not None:
        return SymPoly.atom(d)
    if isinstance(e, ast.UnaryOp) and isinstance(e.op, ast.USub):
        v = sympoly(e.operand, subst)
        return None if v is None else -v
    if isinstance(e, ast.BinOp):
        a, b = sympoly(e.left, subst), sympoly(e.right, subst)
        if a is None or b is None:
            return None
        if isinstance(e.op, ast.Add):
            return a + b
        if isinstance(e.op, ast.Sub):
            return a - b
        if isinstance(e.op, ast.Mult):
            return a * b
        if isinstance(e.op, ast.Div):
            c = b.const_value()
            if c is not None and c != 0:
                return a.div_const(c)
            return None
        return None
    if isinstance(e, ast.Call):
        return SymPoly.atom(src(e))
    if isinstance(e, ast.Attribute):
        return SymPoly.atom(src(e))
    return None
