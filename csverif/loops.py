"""Termination obligations for `while` loops (LOOP rules).

For a loop with header H the analysis builds the set G of *progress-and-exhaustion*
nodes and requires that no cycle H -> ... -> H avoids G:

* a struct parse statement (completing normally means bytes were consumed; running out of
  input raises EOFError, which either leaves the function or goes to a handler - a
  handler that jumps back to H is a cycle avoiding G and is reported);
* the non-exhausted edge of an *exhaustion test* on a value read from a stream in the
  loop (``not x``, ``x == b""``, ``len(x) != k`` ...) whose exhausted edge leaves the loop;
* the "found" edge of a search-advance test (``p = d.find(n, p + 1)`` / ``p == -1``).

Position-driven loops (absolute ``seek(v)`` with v updated in the loop) additionally need
the update of v on every cycle.
"""

from __future__ import annotations

import ast
from typing import List, Optional, Set, Tuple

from .astutil import compare_parts, conjuncts, const_eval, disjuncts, dotted, is_const, nnf, NotConst, src, walk_no_nested
from .q import FuncView

READS = ("read", "peek", "readline", "recv")


_READ_ALIASES: Set[str] = set()


def _read_vars(loop: ast.AST) -> Set[str]:
    out = set()
    for n in walk_no_nested(loop):
        if isinstance(n, ast.Assign) and len(n.targets) == 1 and isinstance(n.targets[0], ast.Name):
            v = n.value
            while isinstance(v, ast.Subscript):
                v = v.value
            if isinstance(v, ast.Call) and isinstance(v.func, ast.Attribute) and v.func.attr in READS:
                out.add(n.targets[0].id)
            elif isinstance(v, ast.Call) and isinstance(v.func, ast.Name) and v.func.id in _READ_ALIASES:
                out.add(n.targets[0].id)  # read = stream.read; chunk = read(n)
    return out


def _ex_true(t: ast.AST, vars_: Set[str]) -> bool:
    """test is true when the read value is empty / short."""
    if isinstance(t, ast.UnaryOp) and isinstance(t.op, ast.Not):
        return dotted(t.operand) in vars_ or _ex_false(t.operand, vars_)
    for l, op, r in compare_parts(t):
        for a, b in ((l, r), (r, l)):
            if dotted(a) in vars_ and isinstance(b, ast.Constant) and b.value in (b"", ""):
                return isinstance(op, ast.Eq)
            if isinstance(a, ast.Call) and dotted(a.func) == "len" and a.args and dotted(a.args[0]) in vars_:
                try:
                    k = const_eval(b)
                except NotConst:
                    # len(x) != n with n a positive name is still an exhaustion test (b"" has len 0)
                    k = None
                if a is l:
                    if isinstance(op, ast.NotEq) and (k is None or k > 0):
                        return True
                    if isinstance(op, ast.Lt) and (k is None or k > 0):
                        return True
                    if isinstance(op, ast.Eq) and k == 0:
                        return True
                    if isinstance(op, ast.LtE) and k is not None and k >= 0:
                        return True
    return False


def _ex_false(t: ast.AST, vars_: Set[str]) -> bool:
    """test is false when the read value is empty / short."""
    if dotted(t) in vars_:
        return True
    if isinstance(t, ast.UnaryOp) and isinstance(t.op, ast.Not):
        return _ex_true(t.operand, vars_)
    for l, op, r in compare_parts(t):
        for a, b in ((l, r), (r, l)):
            if dotted(a) in vars_ and isinstance(b, ast.Constant) and b.value in (b"", ""):
                return isinstance(op, ast.NotEq)
            if isinstance(a, ast.Call) and dotted(a.func) == "len" and a.args and dotted(a.args[0]) in vars_ and a is l:
                try:
                    k = const_eval(b)
                except NotConst:
                    k = None
                if isinstance(op, ast.Eq) and (k is None or k > 0):
                    return True
                if isinstance(op, (ast.GtE, ast.Gt)) and (k is None or k > 0 or (isinstance(op, ast.Gt) and k == 0)):
                    return True
    return False


def exhausted_edge(test: ast.AST, vars_: Set[str]) -> Optional[str]:
    if any(_ex_true(d, vars_) for d in disjuncts(test)):
        return "true"
    if any(_ex_false(c, vars_) for c in conjuncts(test)):
        return "false"
    return None


def analyse_loop(ctx, f, loop: ast.While) -> Tuple[bool, str, dict]:
    cfg = ctx.cfg(f)
    fv = FuncView.of(f.node)
    H = cfg.node(loop)
    body_entry = cfg.edge_node(loop, "true")
    # locals bound once to a stream's bound read method (`read_chunk = fobj.read`, also via functools.partial)
    _READ_ALIASES.clear()
    from .astutil import assignments_to as _asg

    cand = {n0.id for st0 in walk_no_nested(f.node) if isinstance(st0, ast.Assign) for t0 in st0.targets for n0 in ast.walk(t0) if isinstance(n0, ast.Name)}
    for name0 in cand:
        defs0 = _asg(f.node, name0)
        if len(defs0) != 1 or defs0[0][1] is None:
            continue
        v0 = defs0[0][1]
        if isinstance(v0, ast.Call) and dotted(v0.func) in ("functools.partial", "partial") and v0.args:
            v0 = v0.args[0]
        if isinstance(v0, ast.Attribute) and v0.attr in READS:
            _READ_ALIASES.add(name0)
    rvars = _read_vars(loop)
    G: List[Tuple] = []
    facts = []
    inner_nodes = {id(n) for n in ast.walk(loop)}
    # nodes outside this loop: a path that leaves the loop is not a cycle of it
    outside = []
    for n in cfg.g.nodes:
        if n[0] in ("s", "e", "fin") and len(n) > 1 and n[1] in inner_nodes and n != H:
            continue
        if n == H:
            continue
        outside.append(n)
    real_reaches = cfg.reaches

    def reaches(a, b, avoiding=()):
        return real_reaches(a, b, avoiding=list(avoiding) + outside)
    # the header test itself
    ee = exhausted_edge(loop.test, rvars | _rebound_from_read(loop))
    for n, st in cfg.stmt.items():
        if id(st) not in inner_nodes or st is loop:
            continue
        if isinstance(st, (ast.Assign, ast.Expr, ast.AnnAssign, ast.AugAssign, ast.Return)):
            # struct parse statements
            for c in walk_no_nested(st):
                if isinstance(c, ast.Call):
                    cal = ctx.rs.resolve_call(f, c)
                    if cal.kind == "struct" and c.args:
                        G.append(n)
                        facts.append(f"struct parse {src(c)[:40]}")
        if isinstance(st, ast.If):
            e = exhausted_edge(st.test, rvars)
            if e is not None:
                ex = cfg.edge_node(st, e)
                if not reaches(ex, H):
                    G.append(cfg.edge_node(st, "false" if e == "true" else "true"))
                    facts.append(f"exhaustion test `{src(st.test)[:50]}` leaves the loop")
                else:
                    facts.append(f"exhaustion test `{src(st.test)[:50]}` does NOT leave the loop")
            # search-advance: p = d.find(x, p + 1) ... if p == -1 [or ...]: break
            for dj in disjuncts(nnf(st.test)):
                for l, op, r in compare_parts(dj):
                    if isinstance(op, ast.Eq) and isinstance(l, ast.Name) and _is_minus_one(r) and _find_advance(loop, l.id):
                        t = cfg.edge_node(st, "true")
                        if not reaches(t, H):
                            G.append(cfg.edge_node(st, "false"))
                            facts.append(f"search restarts strictly after the last match ({l.id} = ....find(_, {l.id} + 1))")
    # search-advance through the raising twin: `r = d.index(x, S)` inside a try whose ValueError handler leaves the loop;
    # r >= S whenever index returns, and the next start is r + k (k > 0) on every way back to the header
    for n, st in cfg.stmt.items():
        if id(st) not in inner_nodes or not isinstance(st, ast.Try):
            continue
        hs = [h for h in st.handlers if h.type is None or dotted(h.type) in ("ValueError", "Exception") or
              (isinstance(h.type, ast.Tuple) and any(dotted(e) in ("ValueError", "Exception") for e in h.type.elts))]
        if not hs or any(reaches(cfg.node(h), H) for h in hs):
            continue
        for b in st.body:
            if isinstance(b, ast.Assign) and isinstance(b.targets[0], ast.Name) and isinstance(b.value, ast.Call) and isinstance(b.value.func, ast.Attribute) \
                    and b.value.func.attr == "index" and len(b.value.args) >= 2 and _start_advances(cfg, reaches, loop, b, b.targets[0].id, H):
                G.append(cfg.node(b))
                facts.append(f"search restarts strictly after the last match ({b.targets[0].id} = ....index(_, <start>), ValueError leaves the loop)")
    # search loop driven by its header: `while p != -1 and ...:` with every rebinding of p inside the loop of the form
    # p = <seq>.find(x, p + 1) - each cycle restarts strictly after the last match
    for cj in conjuncts(nnf(loop.test)):
        for l, op, r in compare_parts(cj):
            if isinstance(op, ast.NotEq) and isinstance(l, ast.Name) and _is_minus_one(r) and _find_advance(loop, l.id):
                for n, st in cfg.stmt.items():
                    if id(st) in inner_nodes and isinstance(st, ast.Assign) and dotted(st.targets[0]) == l.id:
                        G.append(n)
                facts.append(f"header ends the search when {l.id} == -1; every cycle restarts strictly after the last match")
    # iterator-driven loop: `while it.has_more():` whose every cycle takes `next(it)` - as finite as the `for` loop over
    # the same iterator would be
    recv = None
    for cj in conjuncts(nnf(loop.test)):
        c0 = cj.operand if isinstance(cj, ast.UnaryOp) else cj
        if isinstance(c0, ast.Call) and isinstance(c0.func, ast.Attribute) and isinstance(c0.func.value, ast.Name):
            recv = c0.func.value.id
    if recv is not None:
        took = 0
        for n, st in cfg.stmt.items():
            if id(st) not in inner_nodes or st is loop or isinstance(st, (ast.If, ast.While, ast.For, ast.Try, ast.With)):
                continue
            for c in walk_no_nested(st):
                if isinstance(c, ast.Call) and ((dotted(c.func) == "next" and c.args and dotted(c.args[0]) == recv)
                                                or (isinstance(c.func, ast.Attribute) and dotted(c.func.value) == recv and c.func.attr in ("next", "__next__"))):
                    G.append(n)
                    took += 1
        if took:
            facts.append(f"iterator-driven: header asks {recv}, every cycle must take next({recv})")
    # counter loop: `while v < B:` (B not rebound in the loop) whose every rebinding of v adds a positive constant
    assigned_in_loop = set()
    for st in walk_no_nested(loop):
        if isinstance(st, (ast.Assign, ast.AugAssign, ast.AnnAssign, ast.For)):
            tg = st.targets if isinstance(st, ast.Assign) else [st.target]
            for t in tg:
                for n2 in ast.walk(t):
                    if isinstance(n2, ast.Name):
                        assigned_in_loop.add(n2.id)
    for cj in conjuncts(nnf(loop.test)):
        for l, op, r in compare_parts(cj):
            if isinstance(op, (ast.Lt, ast.LtE)) and isinstance(l, ast.Name):
                v = l.id
                bound_names = {n2.id for n2 in ast.walk(r) if isinstance(n2, ast.Name)}
                if bound_names & assigned_in_loop:
                    continue
                ups = [st for st in walk_no_nested(loop) if (isinstance(st, ast.AugAssign) and dotted(st.target) == v) or
                       (isinstance(st, ast.Assign) and any(v in {x.id for x in ast.walk(t) if isinstance(x, ast.Name)} for t in st.targets))]
                if ups and all((isinstance(u, ast.AugAssign) and isinstance(u.op, ast.Add) and _positive(u.value)) or
                               (isinstance(u, ast.Assign) and len(u.targets) == 1 and dotted(u.targets[0]) == v and isinstance(u.value, ast.BinOp) and isinstance(u.value.op, ast.Add)
                                and ((dotted(u.value.left) == v and _positive(u.value.right)) or (dotted(u.value.right) == v and _positive(u.value.left)))) for u in ups):
                    for n, st in cfg.stmt.items():
                        if any(st is u for u in ups):
                            G.append(n)
                    facts.append(f"counter loop: {v} only grows by positive constants and the header requires {v} {'<' if isinstance(op, ast.Lt) else '<='} {src(r)[:30]} (not rebound in the loop)")
    # consumption by partition: `head, sep, rest = rest.partition(S)` with a non-empty constant S; the loop flag is the
    # truth of `sep` - `rest` gets strictly shorter while the separator is found and the loop ends when it is not
    flagname = dotted(loop.test) if isinstance(loop.test, ast.Name) else None
    if flagname:
        fdefs = [st for st in walk_no_nested(loop) if isinstance(st, ast.Assign) and len(st.targets) == 1 and dotted(st.targets[0]) == flagname]
        for st in walk_no_nested(loop):
            if isinstance(st, ast.Assign) and len(st.targets) == 1 and isinstance(st.targets[0], ast.Tuple) and len(st.targets[0].elts) == 3 \
                    and isinstance(st.value, ast.Call) and isinstance(st.value.func, ast.Attribute) and st.value.func.attr == "partition" and st.value.args:
                recv, sepv, restv = dotted(st.value.func.value), dotted(st.targets[0].elts[1]), dotted(st.targets[0].elts[2])
                try:
                    sep_const = const_eval(st.value.args[0])
                except NotConst:
                    sep_const = None
                flag_ok = bool(fdefs) and all(
                    (isinstance(d.value, ast.Call) and dotted(d.value.func) == "bool" and d.value.args and dotted(d.value.args[0]) == sepv) or dotted(d.value) == sepv
                    or any(dotted(l2) == sepv and isinstance(op2, ast.NotEq) and isinstance(r2, ast.Constant) and r2.value in (b"", "") for l2, op2, r2 in compare_parts(d.value))
                    for d in fdefs)
                if recv and recv == restv and sepv and isinstance(sep_const, (bytes, str)) and len(sep_const) > 0 and flag_ok:
                    for n, s2 in cfg.stmt.items():
                        if s2 is st:
                            G.append(n)
                    facts.append(f"consumption loop: {restv} = tail of {restv}.partition({sep_const!r}); the flag {flagname} is the truth of the separator found")
    if ee == "false":
        # `while data:` - the loop ends when the (re)bound value is empty; progress must come from the body (G)
        facts.append(f"header `{src(loop.test)}` ends the loop on an empty value")
    cyc = reaches(body_entry, H, avoiding=G)
    info = {"progress_nodes": len(G), "facts": facts}
    if cyc:
        path = cfg.witness_path(body_entry, H, avoiding=list(G) + outside)
        return False, "a cycle of the loop neither consumes input with an exhaustion exit nor advances a search: " + " -> ".join(path[-6:]), info
    # position-driven: absolute seek(v) with v updated in loop
    for c in walk_no_nested(loop):
        if isinstance(c, ast.Call) and isinstance(c.func, ast.Attribute) and c.func.attr == "seek" and len(c.args) == 1 and isinstance(c.args[0], ast.Name):
            v = c.args[0].id
            ups = [s for s in walk_no_nested(loop) if (isinstance(s, ast.AugAssign) and dotted(s.target) == v)
                   or (isinstance(s, ast.Assign) and len(s.targets) == 1 and dotted(s.targets[0]) == v
                       and any(isinstance(x, ast.Name) and x.id == v for x in ast.walk(s.value)))]

            def _advances(u):
                if isinstance(u, ast.AugAssign):
                    return isinstance(u.op, ast.Add) and _positive(u.value)
                val = u.value  # v = v + k / v = k + v
                return isinstance(val, ast.BinOp) and isinstance(val.op, ast.Add) and ((dotted(val.left) == v and _positive(val.right)) or (dotted(val.right) == v and _positive(val.left)))
            if ups and fv.enclosing(c, (ast.While,)) is loop:
                good = [cfg.node(u) for u in ups if _advances(u)]
                if reaches(body_entry, H, avoiding=good):
                    return False, f"position variable {v} is not advanced on every cycle: " + " -> ".join(cfg.witness_path(body_entry, H, avoiding=list(good) + outside)[-6:]), info
                facts.append(f"position variable {v} advances on every cycle")
    return True, "; ".join(facts) or "terminates", info


def _is_minus_one(e: ast.AST) -> bool:
    try:
        return const_eval(e) == -1
    except (NotConst, TypeError):
        return False


def _positive(e: ast.AST) -> bool:
    try:
        return const_eval(e) > 0
    except (NotConst, TypeError):
        return False


def _start_advances(cfg, reaches, loop: ast.AST, stmt: ast.Assign, result: str, H) -> bool:
    """the start argument of the search call in `stmt` is `result + k` (k > 0), or a local whose every rebinding inside
    the loop is `result + k` and lies on every way from the search back to the loop header"""
    s = stmt.value.args[1]
    if isinstance(s, ast.BinOp) and isinstance(s.op, ast.Add) and dotted(s.left) == result and _positive(s.right):
        return True
    if not isinstance(s, ast.Name):
        return False
    defs = [n for n in walk_no_nested(loop) if isinstance(n, (ast.Assign, ast.AugAssign)) and dotted(n.targets[0] if isinstance(n, ast.Assign) else n.target) == s.id]
    if not defs:
        return False
    for d in defs:
        v = d.value if isinstance(d, ast.Assign) else None
        if not (isinstance(v, ast.BinOp) and isinstance(v.op, ast.Add) and dotted(v.left) == result and _positive(v.right)):
            return False
    return not reaches(cfg.node(stmt), H, avoiding=[cfg.node(d) for d in defs])


def _find_advance(loop: ast.AST, name: str) -> bool:
    defs = [n for n in walk_no_nested(loop) if isinstance(n, ast.Assign) and dotted(n.targets[0]) == name]
    if not defs:
        return False
    for d in defs:
        v = d.value
        if not (isinstance(v, ast.Call) and isinstance(v.func, ast.Attribute) and v.func.attr in ("find", "index") and len(v.args) >= 2):
            return False
        s = v.args[1]
        if not (isinstance(s, ast.BinOp) and isinstance(s.op, ast.Add) and dotted(s.left) == name and _positive(s.right)):
            return False
    return True


def _rebound_from_read(loop: ast.While) -> Set[str]:
    return _read_vars(loop)
