"""Statement-level control-flow graph with explicit branch-edge nodes.

Nodes
-----
* ``("entry",)`` / ``("exit",)`` (normal return / fall off the end) / ``("raise",)``
  (an exception leaves the function)
* ``("s", id)`` one per simple statement, and one per compound-statement header
  (``if`` / ``while`` test, ``for`` iterator, ``with`` items, ``try`` entry, ``except`` entry)
* ``("e", id, label)`` *edge nodes*: the true/false outcome of an ``if``/``while`` test
  and the iterate/exhausted outcome of a ``for`` - so that "dominated by the true edge
  of test T" is plain node dominance.

A statement node stands for the statement having *completed normally*: the exceptional
edge of a statement inside a ``try`` body leaves from the program point *before* it.
"""

from __future__ import annotations

import ast
from typing import Dict, Iterable, List, Optional, Set, Tuple

import networkx as nx

from .astutil import head

ENTRY = ("entry",)
EXIT = ("exit",)
RAISE = ("raise",)


def _cannot_raise(st: ast.AST) -> bool:
    """break / continue / pass, and the binding of a constant to a plain local name"""
    if isinstance(st, (ast.Break, ast.Continue, ast.Pass)):
        return True
    if isinstance(st, ast.Assign) and isinstance(st.value, ast.Constant) and all(isinstance(t, ast.Name) for t in st.targets):
        return True
    if isinstance(st, (ast.If, ast.While)):
        # a header test made of local names, constants, identity tests and and/or/not (no call, attribute, subscript,
        # arithmetic or rich comparison - those may run user code)
        for n in ast.walk(st.test):
            if isinstance(n, (ast.Name, ast.Constant, ast.BoolOp, ast.And, ast.Or, ast.Not, ast.Load, ast.Is, ast.IsNot)):
                continue
            if isinstance(n, ast.UnaryOp) and isinstance(n.op, ast.Not):
                continue
            if isinstance(n, ast.Compare) and all(isinstance(o, (ast.Is, ast.IsNot)) for o in n.ops):
                continue
            return False
        return True
    return False


class CFG:
    def __init__(self, fn: ast.AST):
        self.fn = fn
        self.g = nx.DiGraph()
        self.g.add_nodes_from([ENTRY, EXIT, RAISE])
        self.stmt: Dict[Tuple, ast.AST] = {}
        self._node_of: Dict[int, Tuple] = {}
        self.loops: Dict[int, Tuple[Tuple, List[Tuple]]] = {}  # id(loop stmt) -> (header node, break sources)
        self._build()
        self._idom = None
        self._ipdom = None

    # ------------------------------------------------------------------ build
    def node(self, st: ast.AST) -> Tuple:
        return self._node_of[id(st)]

    def has(self, st: ast.AST) -> bool:
        return id(st) in self._node_of

    def edge_node(self, st: ast.AST, label: str) -> Tuple:
        return ("e", id(st), label)

    def _mk(self, st: ast.AST) -> Tuple:
        n = ("s", id(st))
        self._node_of[id(st)] = n
        self.stmt[n] = st
        self.g.add_node(n)
        return n

    def _connect(self, preds: Iterable[Tuple], n: Tuple):
        for p in preds:
            self.g.add_edge(p, n)

    def _build(self):
        body = self.fn.body if not isinstance(self.fn, ast.Lambda) else [ast.Return(value=self.fn.body)]
        self._handlers: List[List[Tuple]] = []  # stack of handler-entry node lists
        self._finals: List[Tuple] = []
        self._loopstack: List[Tuple[Tuple, List[Tuple]]] = []  # (continue target, break collectors)
        out = self._seq(body, [ENTRY])
        self._connect(out, EXIT)

    def _exc_targets(self) -> List[Tuple]:
        if self._handlers:
            return self._handlers[-1]
        return [RAISE]

    def _seq(self, body: List[ast.stmt], preds: List[Tuple]) -> List[Tuple]:
        for st in body:
            preds = self._stmt(st, preds)
        return preds

    def _stmt(self, st: ast.stmt, preds: List[Tuple]) -> List[Tuple]:
        # exceptional edge from the point before the statement (not for statements that cannot raise)
        if self._handlers and not _cannot_raise(st):
            for h in self._handlers[-1]:
                self._connect(preds, h)
        if isinstance(st, ast.If):
            n = self._mk(st)
            self._connect(preds, n)
            t, f = self.edge_node(st, "true"), self.edge_node(st, "false")
            self.g.add_edge(n, t)
            self.g.add_edge(n, f)
            o1 = self._seq(st.body, [t])
            o2 = self._seq(st.orelse, [f]) if st.orelse else [f]
            return o1 + o2
        if isinstance(st, ast.While):
            n = self._mk(st)
            self._connect(preds, n)
            t, f = self.edge_node(st, "true"), self.edge_node(st, "false")
            self.g.add_edge(n, t)
            const_true = isinstance(st.test, ast.Constant) and bool(st.test.value)
            if not const_true:
                self.g.add_edge(n, f)
            else:
                self.g.add_node(f)
            breaks: List[Tuple] = []
            self._loopstack.append((n, breaks))
            self.loops[id(st)] = (n, breaks)
            o = self._seq(st.body, [t])
            self._loopstack.pop()
            self._connect(o, n)
            outs = self._seq(st.orelse, [f]) if st.orelse else ([f] if not const_true else [])
            return outs + breaks
        if isinstance(st, (ast.For, ast.AsyncFor)):
            n = self._mk(st)
            self._connect(preds, n)
            t, f = self.edge_node(st, "iter"), self.edge_node(st, "exhaust")
            self.g.add_edge(n, t)
            self.g.add_edge(n, f)
            breaks = []
            self._loopstack.append((n, breaks))
            self.loops[id(st)] = (n, breaks)
            o = self._seq(st.body, [t])
            self._loopstack.pop()
            self._connect(o, n)
            outs = self._seq(st.orelse, [f]) if st.orelse else [f]
            return outs + breaks
        if isinstance(st, (ast.With, ast.AsyncWith)):
            n = self._mk(st)
            self._connect(preds, n)
            return self._seq(st.body, [n])
        if isinstance(st, ast.Try) or st.__class__.__name__ == "TryStar":
            n = self._mk(st)
            self._connect(preds, n)
            hnodes = []
            for h in st.handlers:
                hn = self._mk(h)
                hnodes.append(hn)
            # a try with handlers may still let other exceptions through
            outer = self._exc_targets()
            fin_entry: Optional[Tuple] = None
            if st.finalbody:
                fin_entry = ("fin", id(st))
                self.g.add_node(fin_entry)
            self._handlers.append(hnodes + ([fin_entry] if fin_entry else outer))
            o = self._seq(st.body, [n])
            # the last statement of the body may raise too: point before it is covered; the
            # point after the whole body cannot raise.
            self._handlers.pop()
            if st.orelse:
                o = self._seq(st.orelse, o)
            outs = list(o)
            for h, hn in zip(st.handlers, hnodes):
                if fin_entry:
                    self._handlers.append([fin_entry])
                ho = self._seq(h.body, [hn])
                if fin_entry:
                    self._handlers.pop()
                outs += ho
            if st.finalbody:
                # normal path through finally
                fo = self._seq(st.finalbody, outs + [fin_entry])
                # exceptional path continues outwards after finally
                for t in outer:
                    self._connect(fo, t)
                return fo
            return outs
        # ---- simple statements
        n = self._mk(st)
        self._connect(preds, n)
        if isinstance(st, ast.Return):
            self.g.add_edge(n, EXIT)
            return []
        if isinstance(st, ast.Raise):
            for t in self._exc_targets():
                self.g.add_edge(n, t)
            # a raise inside try may not match the handlers: also leaves outward
            if self._handlers:
                self.g.add_edge(n, RAISE)
            return []
        if isinstance(st, ast.Break):
            if self._loopstack:
                self._loopstack[-1][1].append(n)
            return []
        if isinstance(st, ast.Continue):
            if self._loopstack:
                self.g.add_edge(n, self._loopstack[-1][0])
            return []
        return [n]

    # ------------------------------------------------------------------ queries
    def idom(self):
        if self._idom is None:
            self._idom = nx.immediate_dominators(self.g, ENTRY)
        return self._idom

    def dominators_of(self, n: Tuple) -> Set[Tuple]:
        idom = self.idom()
        out = set()
        if n not in idom and n != ENTRY:
            return out  # unreachable
        while True:
            out.add(n)
            p = idom.get(n, n)
            if p == n:
                break
            n = p
        return out

    def dominates(self, a: Tuple, b: Tuple) -> bool:
        """True iff every path ENTRY -> b passes through a (b reachable)."""
        return a in self.dominators_of(b)

    def reachable(self, n: Tuple) -> bool:
        return n == ENTRY or n in self.idom()

    def reaches(self, a: Tuple, b: Tuple, avoiding: Iterable[Tuple] = ()) -> bool:
        """Is there a path a ->* b that touches none of `avoiding` (a and b excepted)?"""
        avoid = set(avoiding) - {a, b}
        seen = {a}
        stack = [a]
        while stack:
            x = stack.pop()
            for y in self.g.successors(x):
                if y == b:
                    return True
                if y in seen or y in avoid:
                    continue
                seen.add(y)
                stack.append(y)
        return False

    def all_paths_pass(self, src: Tuple, dst: Tuple, via: Iterable[Tuple]) -> bool:
        """Every path src ->* dst passes through at least one node of `via`."""
        return not self.reaches(src, dst, avoiding=via)

    def return_stmts(self) -> List[ast.Return]:
        return [self.stmt[p] for p in self.g.predecessors(EXIT) if p in self.stmt and isinstance(self.stmt[p], ast.Return)]

    def falls_off_end(self) -> bool:
        for p in self.g.predecessors(EXIT):
            if p not in self.stmt or not isinstance(self.stmt[p], ast.Return):
                if self.reachable(p):
                    return True
        return False

    def raise_stmts(self) -> List[ast.Raise]:
        return [s for s in self.stmt.values() if isinstance(s, ast.Raise)]

    def in_cycle(self, n: Tuple) -> bool:
        return self.reaches(n, n)

    def describe(self, n: Tuple) -> str:
        if n in self.stmt:
            s = self.stmt[n]
            return f"L{getattr(s, 'lineno', 0)}:{head(s)}"
        if n[0] == "e":
            for k, s in self.stmt.items():
                if k[1] == n[1]:
                    return f"L{getattr(s, 'lineno', 0)}:{head(s)} [{n[2]}]"
        return str(n[0])

    def witness_path(self, src: Tuple, dst: Tuple, avoiding: Iterable[Tuple] = ()) -> List[str]:
        avoid = set(avoiding) - {src, dst}
        prev = {src: None}
        stack = [src]
        while stack:
            x = stack.pop(0)
            for y in self.g.successors(x):
                if y in prev or y in avoid:
                    continue
                prev[y] = x
                if y == dst:
                    path = [y]
                    while prev[path[-1]] is not None:
                        path.append(prev[path[-1]])
                    return [self.describe(p) for p in reversed(path)]
                stack.append(y)
        return []
