"""Source loader: parses every module of the package and resolves *anchors*.

An anchor is a dotted path ``module.Class.method`` / ``module.func`` / ``module.CONST``.
A vanished anchor raises AnalysisError (exit 2, never a silent pass).
"""

from __future__ import annotations

import ast
import hashlib
import os
from dataclasses import dataclass, field
from typing import Dict, Iterator, List, Optional

from . import AnalysisError

PKG_REL = os.path.join("dissect", "cobaltstrike")


def repo_root() -> str:
    return os.environ.get("VERIF_REPO", "/repo")


@dataclass
class Module:
    name: str
    path: str
    relpath: str
    src: str
    tree: ast.Module
    digest: str
    funcs: Dict[str, "Func"] = field(default_factory=dict)
    classes: Dict[str, ast.ClassDef] = field(default_factory=dict)
    consts: Dict[str, ast.AST] = field(default_factory=dict)  # module-level NAME = value


@dataclass
class Func:
    module: Module
    qualname: str  # without module prefix, e.g. "BeaconConfig.from_file"
    node: ast.AST  # FunctionDef / AsyncFunctionDef / Lambda
    cls: Optional[str] = None
    parent: Optional["Func"] = None

    @property
    def fq(self) -> str:
        return f"{self.module.name}.{self.qualname}"

    @property
    def file(self) -> str:
        return self.module.relpath

    def __hash__(self):
        return hash(self.fq)

    def __eq__(self, other):
        return isinstance(other, Func) and other.fq == self.fq


class Repo:
    def __init__(self, root: Optional[str] = None, with_scripts: bool = False):
        self.root = root or repo_root()
        self.pkgdir = os.path.join(self.root, PKG_REL)
        if not os.path.isdir(self.pkgdir):
            raise AnalysisError(f"package directory not found: {self.pkgdir}")
        self.modules: Dict[str, Module] = {}
        self.norm_stats: Dict[str, dict] = {}
        # new module-level scalar constants of every module (for `from .x import NEW_CONST` in a sibling module)
        self._foreign: Dict[str, Dict[str, object]] = {}
        if os.environ.get("VERIF_NO_NORMALISE") != "1":
            from .normalise import baseline, new_scalar_constants

            for fn in sorted(os.listdir(self.pkgdir)):
                if fn.endswith(".py"):
                    try:
                        with open(os.path.join(self.pkgdir, fn), "rb") as fh:
                            t0 = ast.parse(fh.read().decode("utf-8"))
                    except (SyntaxError, UnicodeDecodeError, OSError):
                        continue
                    b = baseline().get(fn[:-3])
                    if b is not None:
                        c = new_scalar_constants(t0, set(b.get("names", [])))
                        if c:
                            self._foreign[fn[:-3]] = c
        for fn in sorted(os.listdir(self.pkgdir)):
            if fn.endswith(".py"):
                self._load(os.path.join(self.pkgdir, fn), fn[:-3])
        self.scripts: Dict[str, Module] = {}
        if with_scripts:
            sdir = os.path.join(self.root, "scripts")
            if os.path.isdir(sdir):
                for fn in sorted(os.listdir(sdir)):
                    if fn.endswith(".py"):
                        m = self._parse(os.path.join(sdir, fn), "scripts/" + fn[:-3])
                        if m:
                            self.scripts[m.name] = m
        self.grammar_path = os.path.join(self.pkgdir, "c2profile.lark")

    # ------------------------------------------------------------------
    def _parse(self, path: str, name: str) -> Optional[Module]:
        with open(path, "rb") as f:
            raw = f.read()
        try:
            src = raw.decode("utf-8")
            tree = ast.parse(src, filename=path)
        except (SyntaxError, UnicodeDecodeError) as e:
            raise AnalysisError(f"cannot parse {path}: {e}")
        _strip_noops(tree)
        if not name.startswith("scripts/") and os.environ.get("VERIF_NO_NORMALISE") != "1":
            from .normalise import normalise

            normalise(tree, name, self.norm_stats.setdefault(name, {}), getattr(self, "_foreign", None))
        rel = os.path.relpath(path, self.root)
        mod = Module(name, path, rel, src, tree, hashlib.sha256(raw).hexdigest()[:16])
        self._index(mod)
        return mod

    def _load(self, path: str, name: str) -> None:
        m = self._parse(path, name)
        self.modules[name] = m

    def _index(self, mod: Module) -> None:
        def visit(body, prefix: str, cls: Optional[str], parent: Optional[Func]):
            for st in body:
                if isinstance(st, (ast.FunctionDef, ast.AsyncFunctionDef)):
                    q = prefix + st.name
                    f = Func(mod, q, st, cls, parent)
                    # a redefinition (e.g. @overload stubs) keeps the last one
                    mod.funcs[q] = f
                    visit_nested(st, q + ".", cls, f)
                elif isinstance(st, ast.ClassDef):
                    q = prefix + st.name
                    mod.classes[q] = st
                    visit(st.body, q + ".", q, parent)
                elif isinstance(st, (ast.If, ast.Try)):
                    # module-level conditional definitions (TYPE_CHECKING, try-import)
                    for sub in ast.iter_child_nodes(st):
                        if isinstance(sub, list):
                            continue
                    for blk in _blocks(st):
                        visit(blk, prefix, cls, parent)

        def visit_nested(fn, prefix, cls, parent):
            for st in ast.walk(fn):
                if st is fn:
                    continue
                if isinstance(st, (ast.FunctionDef, ast.AsyncFunctionDef)):
                    # only direct nesting level matters for naming; deeper levels get
                    # flattened names which is fine for anchors
                    q = prefix + st.name
                    if q not in mod.funcs:
                        mod.funcs[q] = Func(mod, q, st, cls, parent)

        visit(mod.tree.body, "", None, None)
        for st in mod.tree.body:
            if isinstance(st, ast.Assign) and len(st.targets) == 1 and isinstance(st.targets[0], ast.Name):
                mod.consts[st.targets[0].id] = st.value
            elif isinstance(st, ast.AnnAssign) and isinstance(st.target, ast.Name) and st.value is not None:
                mod.consts[st.target.id] = st.value

    # ------------------------------------------------------------------
    def module(self, name: str) -> Module:
        if name not in self.modules:
            raise AnalysisError(f"anchor vanished: module {name}")
        return self.modules[name]

    def func(self, fq: str) -> Func:
        mname, _, q = fq.partition(".")
        mod = self.module(mname)
        if q not in mod.funcs:
            raise AnalysisError(f"anchor vanished: function {fq}")
        return mod.funcs[q]

    def has_func(self, fq: str) -> bool:
        mname, _, q = fq.partition(".")
        return mname in self.modules and q in self.modules[mname].funcs

    def cls(self, fq: str) -> ast.ClassDef:
        mname, _, q = fq.partition(".")
        mod = self.module(mname)
        if q not in mod.classes:
            raise AnalysisError(f"anchor vanished: class {fq}")
        return mod.classes[q]

    def const(self, fq: str) -> ast.AST:
        mname, _, q = fq.partition(".")
        mod = self.module(mname)
        if q not in mod.consts:
            raise AnalysisError(f"anchor vanished: constant {fq}")
        return mod.consts[q]

    def all_funcs(self) -> Iterator[Func]:
        for m in self.modules.values():
            yield from m.funcs.values()

    def class_attrs(self, fq: str) -> Dict[str, ast.AST]:
        """NAME = value assignments in a class body."""
        out = {}
        for st in self.cls(fq).body:
            if isinstance(st, ast.Assign) and len(st.targets) == 1 and isinstance(st.targets[0], ast.Name):
                out[st.targets[0].id] = st.value
            elif isinstance(st, ast.AnnAssign) and isinstance(st.target, ast.Name) and st.value is not None:
                out[st.target.id] = st.value
        return out

    def methods(self, cls_fq: str) -> List[Func]:
        mname, _, q = cls_fq.partition(".")
        mod = self.module(mname)
        return [f for k, f in mod.funcs.items() if k.startswith(q + ".") and "." not in k[len(q) + 1 :]]

    def digests(self) -> Dict[str, str]:
        d = {m.relpath: m.digest for m in self.modules.values()}
        if os.path.exists(self.grammar_path):
            with open(self.grammar_path, "rb") as f:
                d[os.path.relpath(self.grammar_path, self.root)] = hashlib.sha256(f.read()).hexdigest()[:16]
        return d


def _strip_noops(tree: ast.AST) -> None:
    """Remove expression statements that are bare constants (docstrings, `...`, stray literals): they have no
    behaviour, and rules that look at "the first statement of a body" should not depend on them."""
    for n in ast.walk(tree):
        for name in ("body", "orelse", "finalbody"):
            b = getattr(n, name, None)
            if isinstance(b, list) and b and isinstance(b[0], ast.stmt):
                kept = [s for s in b if not (isinstance(s, ast.Expr) and isinstance(s.value, ast.Constant))]
                if not kept and name == "body":
                    p = ast.Pass()
                    ast.copy_location(p, b[0])
                    kept = [p]
                setattr(n, name, kept)
        if isinstance(n, ast.Try):
            for h in n.handlers:
                kept = [s for s in h.body if not (isinstance(s, ast.Expr) and isinstance(s.value, ast.Constant))]
                if not kept:
                    p = ast.Pass()
                    ast.copy_location(p, h.body[0])
                    kept = [p]
                h.body = kept


def _blocks(st):
    for name in ("body", "orelse", "finalbody"):
        b = getattr(st, name, None)
        if b:
            yield b
    for h in getattr(st, "handlers", []) or []:
        yield h.body
