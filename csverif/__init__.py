"""csverif - repository-specific static analysis engine for dissect.cobaltstrike.

Nothing in this package imports or executes code from /repo: sources are read with
``ast`` (Python), lark's grammar loader (c2profile.lark) and a small parser for the
C-like structure definitions embedded in string constants.
"""


class AnalysisError(Exception):
    """The analysis itself cannot proceed (vanished anchor, unreadable source).

    Distinct from a violated obligation: ends the run with ANALYSIS-ERROR / exit 2.
    """
