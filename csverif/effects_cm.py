"""Escape analysis with the meaning of context managers (ported from rules/c06.py, where it was written for C06.R6, so that
every user of `effects.check_escape` gets it): `with g(..): BODY` for a generator-based context manager g of the package is
g's body with BODY in the place of its `yield`; a class-based context manager whose `__exit__` can change the exception flow
makes the sites of BODY uncertain."""

from __future__ import annotations

import ast

from .astutil import body_walk, dotted, statements
from .q import FuncView


def _generator_cm(ctx, f, e, active=()):
    """(g, yield statement) if expression e is a call of a package function g that is a generator-based context manager
    (decorated with contextlib.contextmanager - import aliases resolved) whose body has exactly one `yield`, as a statement
    of its own and outside every loop; else None."""
    if not isinstance(e, ast.Call):
        return None
    cal = ctx.rs.resolve_call(f, e)
    g = cal.func if cal.kind == "func" else None
    if g is None or not isinstance(g.node, ast.FunctionDef) or g.fq == f.fq or g.fq in active:
        return None

    def is_cm(d):
        sym = ctx.rs.lookup_dotted(g.module.name, dotted(d)) if dotted(d) else None
        return sym is not None and sym.kind == "external" and sym.name == "contextlib.contextmanager"

    if len(g.node.decorator_list) != 1 or not is_cm(g.node.decorator_list[0]):
        return None
    ys = [n for n in body_walk(g.node) if isinstance(n, (ast.Yield, ast.YieldFrom, ast.Await))]
    if len(ys) != 1 or not isinstance(ys[0], ast.Yield):
        return None
    fv = FuncView.of(g.node)
    st = fv.stmt_of(ys[0])
    if not (isinstance(st, ast.Expr) and st.value is ys[0]) or fv.enclosing(st, (ast.For, ast.AsyncFor, ast.While)) is not None:
        return None
    return g, st


def _class_cm_exit(ctx, f, e):
    """The `__exit__` method (own or inherited, of the package) of the class instantiated by expression e when that method
    can change the exception flow of a `with` body: it raises, or returns something other than a falsy constant (a truthy
    result swallows the exception).  None otherwise."""
    if not isinstance(e, ast.Call):
        return None
    cal = ctx.rs.resolve_call(f, e)
    if cal.kind != "class" or not cal.fq:
        return None
    mname, _, cname = cal.fq.partition(".")
    sym = ctx.rs.lookup_dotted(mname, f"{cname}.__exit__")
    g = ctx.repo.modules[sym.module].funcs.get(sym.name) if sym is not None and sym.kind == "func" and sym.module in ctx.repo.modules else None
    if g is None:
        return None
    for st in statements(g.node):
        if isinstance(st, ast.Raise):
            return g
        if isinstance(st, ast.Return) and st.value is not None and not (isinstance(st.value, ast.Constant) and not st.value.value):
            return g
    return None


def cm_escape(ctx):
    """The escape analysis of the engine (csverif.effects.Escape) with the meaning of a generator-based context manager:
    `with g(..): BODY` for a package function g decorated with contextlib.contextmanager that has exactly one `yield`
    statement (outside loops) runs g's body with BODY in the place of the `yield` - contextlib throws an exception of BODY
    into the generator at the `yield`, what the generator raises (or lets through) leaves the `with`, what it catches and
    does not re-raise is swallowed.  So the may-raise set of the statement is that of g's body with the `yield` statement
    standing for BODY; the engine's own treatment of try / except then applies to g's handlers.  A `with` over a package
    class whose `__exit__` raises or may return a truthy value translates / swallows exceptions of BODY in a way that is
    not followed: what `__enter__` / `__exit__` raise is charged, and the sites of BODY are *uncertain* (the engine reports
    an escape that hinges on them as undecided).  Any other `with` is the engine's (context expression + body, nothing
    filtered).  Syntax-tree weaving over resolved callees (1)/(2)."""
    from csverif import effects

    class _Escape(effects.Escape):
        def __init__(self, c):
            super().__init__(c)
            self._woven = {}  # id(yield statement) -> may-raise set of the with-body that stands in its place

        def stmt(self, f, st):
            if isinstance(st, ast.Expr) and id(st) in self._woven:
                return set(self._woven[id(st)])
            if isinstance(st, ast.With) and any(_generator_cm(self.ctx, f, i.context_expr, self.active) or _class_cm_exit(self.ctx, f, i.context_expr) for i in st.items):
                return self._with(f, st, 0)
            return super().stmt(f, st)

        def _with(self, f, st, i):
            """`with i0, i1, ..: BODY` is `with i0: with i1: ..: BODY`"""
            if i == len(st.items):
                return self.block(f, st.body)
            c = st.items[i].context_expr
            cm = _generator_cm(self.ctx, f, c, self.active)
            ex = _class_cm_exit(self.ctx, f, c) if cm is None else None
            if ex is not None:
                frame = f"{f.fq}:{c.lineno}"
                out = self.exprs(f, st, [c])
                enter = self.repo.modules[ex.module.name].funcs.get(ex.qualname.rsplit(".", 1)[0] + ".__enter__")
                for m in (enter, ex):
                    if m is not None:
                        out |= {e.via(frame) for e in self.function_effects(m)}
                inner = self._with(f, st, i + 1)
                self.uncertain_sites |= {e.site for e in inner}
                return out | inner
            if cm is None:
                return self.exprs(f, st, [c]) | self._with(f, st, i + 1)
            g, ystmt = cm
            out = self.exprs(f, st, list(c.args) + [k.value for k in c.keywords])
            inner = self._with(f, st, i + 1)
            saved = self._woven.get(id(ystmt))
            self._woven[id(ystmt)] = inner
            self.active.add(g.fq)
            self.visited_funcs.add(g.fq)
            try:
                woven = self.block(g, g.node.body)
            finally:
                self.active.discard(g.fq)
                if saved is None:
                    self._woven.pop(id(ystmt), None)
                else:
                    self._woven[id(ystmt)] = saved
            frame = f"{f.fq}:{c.lineno}"
            return out | {e if e in inner else e.via(frame) for e in woven}

    return _Escape(ctx)
