"""Symbolic file-position typestate.

Walks the statements of a function in order and tracks the position of one stream as a
polynomial (SymPoly) over local names: ``seek(e)`` sets it, a struct parse advances it by
the struct's static size, ``read(k)`` by k.  An if/else whose branches each parse one
struct into the same variable from the same position advances by ``sizeof(<var>)``.
Positions that cannot be tracked become None (top).  Every parse/read site is recorded
with the position it starts at.
"""

from __future__ import annotations

import ast
from dataclasses import dataclass
from typing import Dict, List, Optional, Tuple

from .absint import SymPoly, sympoly
from .astutil import const_eval, dotted, NotConst, src, walk_no_nested


@dataclass
class Site:
    kind: str  # "parse" | "read" | "seek"
    what: str  # struct name / read length text / seek expr
    pos: Optional[SymPoly]  # position before the operation
    node: ast.AST
    var: Optional[str] = None
    count: Optional[str] = None


class CursorWalk:
    def __init__(self, ctx, f, stream: str):
        self.ctx = ctx
        self.f = f
        self.stream = stream
        self.sites: List[Site] = []
        self.pos: Optional[SymPoly] = None

    def run(self) -> List[Site]:
        self.block(self.f.node.body)
        return self.sites

    # ------------------------------------------------------------------
    def _struct_size(self, call: ast.Call) -> Optional[Tuple[str, Optional[int]]]:
        cal = self.ctx.rs.resolve_call(self.f, call)
        if cal.kind == "struct" and cal.struct and call.args and dotted(call.args[0]) == self.stream:
            cd = self.ctx.cdefs(cal.struct[0]).get(cal.struct[1])
            ts = cd.type_size(cal.struct[2]) if cd else None
            return cal.struct[2], (ts[0] if ts else None)
        return None

    def block(self, body: List[ast.stmt]):
        for st in body:
            self.stmt(st)

    def stmt(self, st: ast.stmt):
        if isinstance(st, ast.If):
            before = self.pos
            saved_n = len(self.sites)
            self.block(st.body)
            p1, n1 = self.pos, len(self.sites)
            self.pos = before
            self.block(st.orelse)
            p2 = self.pos
            b1 = self.sites[saved_n:n1]
            b2 = self.sites[n1:]
            # both branches parse exactly one struct into the same variable from the same position
            if len(b1) == 1 and b1[0].kind == "parse" and b1[0].var and before is not None:
                others = [s for s in b2 if s.kind == "parse"]
                if (len(b2) >= 1 and all(s.var == b1[0].var for s in others) and others) or self._branch_leaves(st.orelse):
                    self.pos = before + SymPoly.atom(f"sizeof({b1[0].var})")
                    return
            if p1 == p2:
                self.pos = p1
            elif self._branch_leaves(st.body):
                self.pos = p2
            elif self._branch_leaves(st.orelse):
                self.pos = p1
            else:
                self.pos = None
            return
        if isinstance(st, ast.Try):
            self.block(st.body)
            self.block(st.orelse)
            after = self.pos
            for h in st.handlers:
                self.pos = None
                self.block(h.body)
            self.pos = after
            self.block(st.finalbody)
            return
        if isinstance(st, (ast.For, ast.While)):
            # loop bodies: positions inside are tracked from the entry position once (first iteration)
            entry = self.pos
            self.block(st.body)
            moved = self.pos != entry
            self.pos = None if moved else entry
            self.block(st.orelse)
            return
        if isinstance(st, (ast.With,)):
            self.block(st.body)
            return
        if isinstance(st, (ast.FunctionDef, ast.ClassDef)):
            return
        self.simple(st)

    @staticmethod
    def _branch_leaves(body: List[ast.stmt]) -> bool:
        return bool(body) and isinstance(body[-1], (ast.Return, ast.Raise, ast.Continue, ast.Break))

    def simple(self, st: ast.stmt):
        var = None
        if isinstance(st, ast.Assign) and len(st.targets) == 1:
            var = dotted(st.targets[0])
        # calls of the statement in evaluation order: a call completes after its callee expression and its arguments
        # (post-order, left to right).  Source positions are not used - nodes synthesised by the normaliser share one.
        calls = []

        def _post(node):
            for ch in ast.iter_child_nodes(node):
                if not isinstance(ch, (ast.FunctionDef, ast.AsyncFunctionDef, ast.ClassDef, ast.Lambda)):
                    _post(ch)
            if isinstance(node, ast.Call):
                calls.append(node)

        _post(st)
        for c in calls:
            if isinstance(c.func, ast.Attribute) and dotted(c.func.value) == self.stream:
                m = c.func.attr
                if m == "seek":
                    wh = c.args[1] if len(c.args) > 1 else None
                    absolute = wh is None or (dotted(wh) or "").endswith("SEEK_SET")
                    self.sites.append(Site("seek", src(c.args[0]) if c.args else "", self.pos, c))
                    if absolute and c.args:
                        self.pos = sympoly(c.args[0])
                    elif c.args and self.pos is not None and (dotted(wh) or "").endswith("SEEK_CUR"):
                        d = sympoly(c.args[0])
                        self.pos = self.pos + d if d is not None else None
                    else:
                        self.pos = None
                elif m == "read":
                    self.sites.append(Site("read", src(c.args[0]) if c.args else "*", self.pos, c, var))
                    k = sympoly(c.args[0]) if c.args else None
                    self.pos = self.pos + k if (self.pos is not None and k is not None) else None
                elif m == "tell":
                    pass
                continue
            ss = self._struct_size(c)
            if ss is not None:
                name, size = ss
                # list comprehension: [T(fh) for _ in range(N)]
                comp = None
                for n in walk_no_nested(st):
                    if isinstance(n, (ast.ListComp, ast.GeneratorExp)) and n.elt is c:
                        comp = n
                count = None
                if comp is not None and isinstance(comp.generators[0].iter, ast.Call) and dotted(comp.generators[0].iter.func) == "range":
                    count = src(comp.generators[0].iter.args[0])
                self.sites.append(Site("parse", name, self.pos, c, var, count))
                if self.pos is not None and size is not None:
                    if count is None:
                        self.pos = self.pos + SymPoly.const(size)
                    else:
                        cp = sympoly(comp.generators[0].iter.args[0])
                        self.pos = self.pos + SymPoly.const(size) * cp if cp is not None else None
                else:
                    self.pos = None
