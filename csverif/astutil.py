"""Small AST helpers shared by all rules."""

from __future__ import annotations

import ast
from typing import Any, Callable, Dict, Iterable, Iterator, List, Optional, Tuple


def src(node: Optional[ast.AST]) -> str:
    """Normalised source text of a node (independent of layout, quotes, comments)."""
    if node is None:
        return "<none>"
    try:
        s = ast.unparse(node)
    except Exception:  # pragma: no cover
        s = ast.dump(node)
    s = " ".join(s.split())
    return s if len(s) <= 160 else s[:157] + "..."


def head(node: ast.AST) -> str:
    """First line of a statement (compound statements: the header only)."""
    if isinstance(node, ast.If):
        return "if " + src(node.test)
    if isinstance(node, ast.While):
        return "while " + src(node.test)
    if isinstance(node, (ast.For, ast.AsyncFor)):
        return f"for {src(node.target)} in {src(node.iter)}"
    if isinstance(node, ast.Try):
        return "try"
    if isinstance(node, (ast.With, ast.AsyncWith)):
        return "with " + ", ".join(src(i) for i in node.items)
    if isinstance(node, (ast.FunctionDef, ast.AsyncFunctionDef)):
        return "def " + node.name
    if isinstance(node, ast.ClassDef):
        return "class " + node.name
    if isinstance(node, ast.ExceptHandler):
        return "except " + src(node.type)
    return src(node)


def dotted(node: ast.AST) -> Optional[str]:
    """'a.b.c' for Name/Attribute chains, else None."""
    parts = []
    while isinstance(node, ast.Attribute):
        parts.append(node.attr)
        node = node.value
    if isinstance(node, ast.Name):
        parts.append(node.id)
        return ".".join(reversed(parts))
    return None


def call_name(call: ast.Call) -> Optional[str]:
    return dotted(call.func)


def last_attr(node: ast.AST) -> Optional[str]:
    if isinstance(node, ast.Attribute):
        return node.attr
    if isinstance(node, ast.Name):
        return node.id
    return None


def walk_no_nested(node: ast.AST, include_self: bool = True) -> Iterator[ast.AST]:
    """ast.walk that does not descend into nested function/class/lambda bodies."""
    stack = [node]
    first = True
    while stack:
        n = stack.pop()
        if not first and isinstance(n, (ast.FunctionDef, ast.AsyncFunctionDef, ast.ClassDef, ast.Lambda)):
            continue
        if include_self or not first:
            yield n
        first = False
        stack.extend(reversed(list(ast.iter_child_nodes(n))))


def body_walk(fn: ast.AST) -> Iterator[ast.AST]:
    """All nodes in the body of a function (not nested defs), in source order."""
    for st in getattr(fn, "body", []):
        if isinstance(st, (ast.FunctionDef, ast.AsyncFunctionDef, ast.ClassDef)):
            yield st  # a nested definition is a statement of this body; its own body is not
        elif isinstance(st, ast.AST):
            yield from walk_no_nested(st)
    if isinstance(fn, ast.Lambda):
        yield from walk_no_nested(fn.body)


def calls_in(node: ast.AST) -> List[ast.Call]:
    out = [n for n in walk_no_nested(node) if isinstance(n, ast.Call)]
    out.sort(key=lambda c: (c.lineno, c.col_offset))
    return out


def fn_calls(fn: ast.AST) -> List[ast.Call]:
    out = [n for n in body_walk(fn) if isinstance(n, ast.Call)]
    out.sort(key=lambda c: (c.lineno, c.col_offset))
    return out


def statements(fn: ast.AST) -> Iterator[ast.stmt]:
    """All statements (recursively, no nested defs) of a function in source order."""
    for n in body_walk(fn):
        if isinstance(n, ast.stmt):
            yield n


def parents(root: ast.AST) -> Dict[int, ast.AST]:
    p: Dict[int, ast.AST] = {}
    for n in ast.walk(root):
        for c in ast.iter_child_nodes(n):
            p[id(c)] = n
    return p


def names_in(node: ast.AST) -> set:
    return {n.id for n in ast.walk(node) if isinstance(n, ast.Name)}


def kwarg(call: ast.Call, name: str) -> Optional[ast.AST]:
    for k in call.keywords:
        if k.arg == name:
            return k.value
    return None


def arg(call: ast.Call, idx: int, name: Optional[str] = None) -> Optional[ast.AST]:
    if idx < len(call.args) and not any(isinstance(a, ast.Starred) for a in call.args[: idx + 1]):
        return call.args[idx]
    if name:
        return kwarg(call, name)
    return None


def params(fn: ast.AST) -> List[str]:
    a = fn.args
    return [x.arg for x in (a.posonlyargs + a.args)] + [x.arg for x in a.kwonlyargs]


_NEG_OP = {ast.Eq: ast.NotEq, ast.NotEq: ast.Eq, ast.Lt: ast.GtE, ast.GtE: ast.Lt, ast.Gt: ast.LtE, ast.LtE: ast.Gt,
           ast.Is: ast.IsNot, ast.IsNot: ast.Is, ast.In: ast.NotIn, ast.NotIn: ast.In}


def nnf(test: ast.AST, negate: bool = False) -> ast.AST:
    """Negation normal form of a test: `not` pushed inwards over and/or (De Morgan), single comparisons flipped."""
    if isinstance(test, ast.UnaryOp) and isinstance(test.op, ast.Not):
        return nnf(test.operand, not negate)
    if isinstance(test, ast.BoolOp):
        op = test.op
        if negate:
            op = ast.Or() if isinstance(op, ast.And) else ast.And()
        return ast.copy_location(ast.BoolOp(op=op, values=[nnf(v, negate) for v in test.values]), test)
    if negate and isinstance(test, ast.Compare) and len(test.ops) == 1 and type(test.ops[0]) in _NEG_OP:
        return ast.copy_location(ast.Compare(left=test.left, ops=[_NEG_OP[type(test.ops[0])]()], comparators=test.comparators), test)
    if negate:
        return ast.copy_location(ast.UnaryOp(op=ast.Not(), operand=test), test)
    return test


def bind_args(call: ast.Call, fn: ast.AST, skip_self: bool = False) -> Dict[str, Optional[ast.AST]]:
    """Map the callee's parameter names to the argument expressions of `call` (positional then keyword); a parameter
    left to its default maps to the default expression; `*args`/`**kw` at the call site make the binding unknown
    (those parameters map to None)."""
    a = fn.args
    pos = [x.arg for x in (a.posonlyargs + a.args)]
    if skip_self and pos:
        pos = pos[1:]
    out: Dict[str, Optional[ast.AST]] = {}
    star = any(isinstance(x, ast.Starred) for x in call.args) or any(k.arg is None for k in call.keywords)
    for p, v in zip(pos, call.args):
        if isinstance(v, ast.Starred):
            break
        out[p] = v
    for k in call.keywords:
        if k.arg is not None:
            out[k.arg] = k.value
    dfl = param_defaults(fn)
    for p in pos + [x.arg for x in a.kwonlyargs]:
        if p not in out:
            out[p] = None if star else dfl.get(p)
    return out


def param_defaults(fn: ast.AST) -> Dict[str, ast.AST]:
    a = fn.args
    pos = a.posonlyargs + a.args
    out = {}
    for p, d in zip(pos[len(pos) - len(a.defaults) :], a.defaults):
        out[p.arg] = d
    for p, d in zip(a.kwonlyargs, a.kw_defaults):
        if d is not None:
            out[p.arg] = d
    return out


def param_annotation(fn: ast.AST, name: str) -> Optional[ast.AST]:
    a = fn.args
    for p in a.posonlyargs + a.args + a.kwonlyargs:
        if p.arg == name:
            return p.annotation
    return None


class NotConst(Exception):
    pass


_SAFE_BINOPS = {
    ast.Add: lambda a, b: a + b,
    ast.Sub: lambda a, b: a - b,
    ast.Mult: lambda a, b: a * b,
    ast.FloorDiv: lambda a, b: a // b,
    ast.Mod: lambda a, b: a % b,
    ast.BitOr: lambda a, b: a | b,
    ast.BitAnd: lambda a, b: a & b,
    ast.BitXor: lambda a, b: a ^ b,
    ast.LShift: lambda a, b: a << b,
    ast.RShift: lambda a, b: a >> b,
    ast.Pow: lambda a, b: _safe_pow(a, b),
}


def _safe_pow(a, b):
    if isinstance(a, int) and isinstance(b, int) and 0 <= b <= 256 and abs(a) <= 1 << 16:
        return a ** b
    raise NotConst("pow out of range")


def const_eval(node: ast.AST, env: Optional[Callable[[str], Any]] = None) -> Any:
    """Evaluate a literal expression without executing repository code.

    Supports constants, containers, arithmetic on constants, ``bytes.fromhex("..")``,
    unary minus, and names resolved by ``env(name)`` (which must raise NotConst/KeyError
    when unknown).  Raises NotConst otherwise.
    """
    if isinstance(node, ast.Constant):
        return node.value
    if isinstance(node, (ast.List, ast.Tuple, ast.Set)):
        vals = [const_eval(e, env) for e in node.elts]
        return list(vals) if isinstance(node, ast.List) else tuple(vals) if isinstance(node, ast.Tuple) else set(vals)
    if isinstance(node, ast.Dict):
        if any(k is None for k in node.keys):
            raise NotConst(src(node))
        return {const_eval(k, env): const_eval(v, env) for k, v in zip(node.keys, node.values)}
    if isinstance(node, ast.UnaryOp) and isinstance(node.op, ast.USub):
        return -const_eval(node.operand, env)
    if isinstance(node, ast.UnaryOp) and isinstance(node.op, ast.Invert):
        return ~const_eval(node.operand, env)
    if isinstance(node, ast.BinOp) and type(node.op) in _SAFE_BINOPS:
        a, b = const_eval(node.left, env), const_eval(node.right, env)
        try:
            if isinstance(node.op, ast.Mult) and isinstance(a, (bytes, str, list)) and isinstance(b, int) and b > 1 << 20:
                raise NotConst("too large")
            return _SAFE_BINOPS[type(node.op)](a, b)
        except NotConst:
            raise
        except Exception as e:
            raise NotConst(f"{src(node)}: {e}")
    if isinstance(node, ast.Call):
        name = dotted(node.func)
        if name == "bytes.fromhex" and len(node.args) == 1:
            v = const_eval(node.args[0], env)
            if isinstance(v, str):
                try:
                    return bytes.fromhex(v)
                except ValueError as e:
                    raise NotConst(str(e))
        if name in ("len",) and len(node.args) == 1:
            return len(const_eval(node.args[0], env))
        if name in ("tuple", "list", "set", "frozenset") and len(node.args) == 1:
            v = const_eval(node.args[0], env)
            return {"tuple": tuple, "list": list, "set": set, "frozenset": frozenset}[name](v)
        raise NotConst(src(node))
    if isinstance(node, ast.Name) and env is not None:
        try:
            return env(node.id)
        except KeyError:
            raise NotConst(node.id)
    if isinstance(node, ast.Subscript) and env is not None:
        base = const_eval(node.value, env)
        if isinstance(node.slice, ast.Slice):
            lo = const_eval(node.slice.lower, env) if node.slice.lower else None
            hi = const_eval(node.slice.upper, env) if node.slice.upper else None
            st = const_eval(node.slice.step, env) if node.slice.step else None
            return base[lo:hi:st]
        try:
            return base[const_eval(node.slice, env)]
        except Exception as e:
            raise NotConst(str(e))
    raise NotConst(src(node))


def module_env(mod) -> Callable[[str], Any]:
    """Constant environment over a module's top-level literal assignments."""
    seen = set()

    def env(name: str):
        if name in seen:
            raise KeyError(name)
        if name not in mod.consts:
            raise KeyError(name)
        seen.add(name)
        try:
            return const_eval(mod.consts[name], env)
        except NotConst:
            raise KeyError(name)
        finally:
            seen.discard(name)

    return env


def is_none(node: Optional[ast.AST]) -> bool:
    return isinstance(node, ast.Constant) and node.value is None


def is_const(node: Optional[ast.AST], value: Any) -> bool:
    return isinstance(node, ast.Constant) and type(node.value) is type(value) and node.value == value


def find_stmt(fn: ast.AST, pred: Callable[[ast.stmt], bool]) -> List[ast.stmt]:
    return [s for s in statements(fn) if pred(s)]


def assigned_names(target: ast.AST) -> List[str]:
    out = []
    for n in ast.walk(target):
        if isinstance(n, ast.Name) and isinstance(n.ctx, ast.Store):
            out.append(n.id)
    return out


_ASSIGN_CACHE: Dict[Tuple[int, str], list] = {}


def assignments_to(fn: ast.AST, name: str) -> List[Tuple[ast.stmt, Optional[ast.AST]]]:
    """All (statement, value) pairs that bind local `name` in fn (no nested defs).

    value is None for bindings whose value is not a plain expression (for-targets,
    tuple unpacking, with-as, augmented assignment).
    """
    key = (id(fn), name)
    hit = _ASSIGN_CACHE.get(key)
    if hit is not None and hit[0] is fn:
        return list(hit[1])
    res = _assignments_to(fn, name)
    _ASSIGN_CACHE[key] = (fn, res)
    return list(res)


def _assignments_to(fn: ast.AST, name: str) -> List[Tuple[ast.stmt, Optional[ast.AST]]]:
    out: List[Tuple[ast.stmt, Optional[ast.AST]]] = []
    for st in statements(fn):
        if isinstance(st, ast.Assign):
            for t in st.targets:
                if isinstance(t, ast.Name) and t.id == name:
                    out.append((st, st.value))
                elif name in assigned_names(t) and not isinstance(t, (ast.Attribute, ast.Subscript)):
                    if isinstance(t, (ast.Tuple, ast.List)) and isinstance(st.value, (ast.Tuple, ast.List)) and len(
                        t.elts
                    ) == len(st.value.elts):
                        for te, ve in zip(t.elts, st.value.elts):
                            if isinstance(te, ast.Name) and te.id == name:
                                out.append((st, ve))
                    elif isinstance(t, (ast.Tuple, ast.List)):
                        if any(isinstance(e, ast.Name) and e.id == name for e in ast.walk(t)):
                            out.append((st, None))
        elif isinstance(st, ast.AnnAssign):
            if isinstance(st.target, ast.Name) and st.target.id == name and st.value is not None:
                out.append((st, st.value))
        elif isinstance(st, ast.AugAssign):
            if isinstance(st.target, ast.Name) and st.target.id == name:
                out.append((st, None))
        elif isinstance(st, (ast.For, ast.AsyncFor)):
            if name in assigned_names(st.target):
                out.append((st, None))
        elif isinstance(st, (ast.With, ast.AsyncWith)):
            for it in st.items:
                if it.optional_vars is not None and name in assigned_names(it.optional_vars):
                    out.append((st, None))
    # walrus
    for n in body_walk(fn):
        if isinstance(n, ast.NamedExpr) and n.target.id == name:
            out.append((n, n.value))  # type: ignore[arg-type]
    return out


def strip_cast(node: ast.AST) -> ast.AST:
    """cast(T, x) -> x ; (x) unchanged."""
    while isinstance(node, ast.Call) and dotted(node.func) in ("cast", "typing.cast") and len(node.args) == 2:
        node = node.args[1]
    return node


_FLIP_OP = {ast.Eq: ast.Eq, ast.NotEq: ast.NotEq, ast.Lt: ast.Gt, ast.Gt: ast.Lt, ast.LtE: ast.GtE, ast.GtE: ast.LtE}


def compare_parts(test: ast.AST, mirrored: bool = True) -> List[Tuple[ast.AST, ast.cmpop, ast.AST]]:
    """Flatten a Compare (incl. chained) into (left, op, right) triples.

    With `mirrored` every relational triple is also given in its mirrored orientation
    (`a < b` additionally as `b > a`), so a rule that looks for one orientation accepts both."""
    out = []
    if isinstance(test, ast.Compare):
        left = test.left
        for op, right in zip(test.ops, test.comparators):
            out.append((left, op, right))
            if mirrored and type(op) in _FLIP_OP:
                out.append((right, _FLIP_OP[type(op)](), left))
            left = right
    return out


def flipped(test: ast.AST) -> Optional[ast.AST]:
    """The mirrored form of a single relational comparison (a < b -> b > a), else None."""
    if isinstance(test, ast.Compare) and len(test.ops) == 1 and type(test.ops[0]) in _FLIP_OP:
        return ast.Compare(left=test.comparators[0], ops=[_FLIP_OP[type(test.ops[0])]()], comparators=[test.left])
    return None


def conjuncts(test: ast.AST) -> List[ast.AST]:
    if isinstance(test, ast.BoolOp) and isinstance(test.op, ast.And):
        out = []
        for v in test.values:
            out.extend(conjuncts(v))
        return out
    return [test]


def disjuncts(test: ast.AST) -> List[ast.AST]:
    if isinstance(test, ast.BoolOp) and isinstance(test.op, ast.Or):
        out = []
        for v in test.values:
            out.extend(disjuncts(v))
        return out
    return [test]


# ---------------------------------------------------------------------------- pattern matching
_PAT_CACHE: Dict[str, ast.AST] = {}


def _pat(pattern: str) -> ast.AST:
    if pattern not in _PAT_CACHE:
        _PAT_CACHE[pattern] = ast.parse(pattern.replace("$", "__mv_"), mode="eval").body
    return _PAT_CACHE[pattern]


def pmatch(pattern: str, node: Optional[ast.AST], binds: Optional[Dict[str, str]] = None) -> Optional[Dict[str, str]]:
    """Structural match of an expression against a pattern with metavariables.

    ``$x`` in the pattern matches any expression; a metavariable that occurs twice (or is
    pre-bound in `binds`) must match expressions with the same normalised text.  Everything
    else (operators, attribute names, constants, keyword names, call shapes) must be equal.
    Returns the bindings {name: normalised source} or None.  Local variable names in the
    analysed code thus never have to be spelled out in a rule.
    """
    if node is None:
        return None
    b = dict(binds or {})
    return b if _pm(_pat(pattern), node, b) else None


def _pm(p: ast.AST, n: ast.AST, b: Dict[str, str]) -> bool:
    if isinstance(p, ast.Name) and p.id.startswith("__mv_"):
        key = p.id[5:]
        s = src(n)
        if key in b:
            return b[key] == s
        b[key] = s
        return True
    if type(p) is not type(n):
        return False
    if isinstance(p, ast.Compare) and len(p.ops) == 1 and len(n.ops) == 1 and type(p.ops[0]) is not type(n.ops[0]) or (
            isinstance(p, ast.Compare) and len(p.ops) == 1 and len(n.ops) == 1 and type(p.ops[0]) in _FLIP_OP and not _pm_fields(p, n, dict(b))):
        fl = flipped(n)
        if fl is not None and type(fl.ops[0]) is type(p.ops[0]):
            return _pm_fields(p, fl, b)
        return False
    return _pm_fields(p, n, b)


def _pm_fields(p: ast.AST, n: ast.AST, b: Dict[str, str]) -> bool:
    for field_name, pv in ast.iter_fields(p):
        if field_name in ("ctx", "lineno", "col_offset", "end_lineno", "end_col_offset", "type_comment", "kind"):
            continue
        nv = getattr(n, field_name, None)
        if isinstance(pv, ast.AST):
            if not isinstance(nv, ast.AST) or not _pm(pv, nv, b):
                return False
        elif isinstance(pv, list):
            if not isinstance(nv, list) or len(pv) != len(nv):
                return False
            for x, y in zip(pv, nv):
                if isinstance(x, ast.AST):
                    if not isinstance(y, ast.AST) or not _pm(x, y, b):
                        return False
                elif x != y:
                    return False
        else:
            if pv != nv:
                return False
    return True


def find_match(pattern: str, root: ast.AST, binds: Optional[Dict[str, str]] = None) -> List[Tuple[ast.AST, Dict[str, str]]]:
    """All sub-expressions of root (no nested defs) that match the pattern."""
    out = []
    for n in walk_no_nested(root):
        if isinstance(n, ast.expr):
            m = pmatch(pattern, n, binds)
            if m is not None:
                out.append((n, m))
    return out
