"""Name and call resolution inside the package, and the call graph.

Resolution is by construction/annotation only (no type checker is available in this
sandbox): module symbol tables, intra-package imports, ``functools.partial`` aliases,
class-attribute aliases, ``self``/``cls`` receivers, locals typed by a constructor call,
by a parameter annotation or by the return annotation of a resolved callee.  What cannot
be resolved is reported, never guessed.
"""

from __future__ import annotations

import ast
from dataclasses import dataclass, field
from typing import Dict, List, Optional, Tuple, Union

import networkx as nx

from .astutil import assignments_to, body_walk, dotted, fn_calls, params, strip_cast
from .loader import Func, Module, Repo

PKG = "dissect.cobaltstrike"


@dataclass
class Sym:
    kind: str  # "func" | "class" | "module" | "partial" | "const" | "struct" | "external"
    module: Optional[str] = None  # package module name
    name: Optional[str] = None  # qualname inside module / external dotted name
    bound: Dict[str, ast.AST] = field(default_factory=dict)  # partial kwargs
    cdef_var: Optional[str] = None  # for struct types: owning cstruct variable

    @property
    def fq(self) -> str:
        return f"{self.module}.{self.name}" if self.module else (self.name or "?")


@dataclass
class Callee:
    kind: str  # "func" | "class" | "struct" | "external" | "unresolved" | "builtin-method"
    func: Optional[Func] = None
    fq: str = ""
    bound: Dict[str, ast.AST] = field(default_factory=dict)
    recv_type: Optional[str] = None  # "module.Class" for method calls on typed receivers
    struct: Optional[Tuple[str, str, str]] = None  # (module, cstruct var, C type)


class Resolver:
    def __init__(self, repo: Repo):
        self.repo = repo
        self.symtabs: Dict[str, Dict[str, Sym]] = {}
        for m in repo.modules.values():
            self.symtabs[m.name] = self._symtab(m)
        # second pass: follow re-exports (from .c2 import BeaconConfig where c2 imported it from beacon)
        for _ in range(3):
            for mname, tab in self.symtabs.items():
                for k, s in list(tab.items()):
                    if s.kind == "reexport":
                        tgt = self.symtabs.get(s.module, {}).get(s.name)
                        if tgt is not None and tgt.kind != "reexport":
                            tab[k] = tgt
        self._cg: Optional[nx.DiGraph] = None
        self._et_cache: Dict[tuple, tuple] = {}
        self._rc_cache: Dict[tuple, tuple] = {}
        self.unresolved: List[Tuple[str, str, int]] = []
        self._cstructs: Dict[str, dict] = {}

    # ------------------------------------------------------------------ symbol tables
    def _pkgmod(self, name: Optional[str], level: int, cur: str) -> Optional[str]:
        """Map an import source to a package module name ('' for the package itself)."""
        if level >= 1:
            return name or ""
        if name == PKG:
            return ""
        if name and name.startswith(PKG + "."):
            return name[len(PKG) + 1 :]
        return None

    def _symtab(self, mod: Module) -> Dict[str, Sym]:
        from . import cdefs

        tab: Dict[str, Sym] = {}
        for n in ast.walk(mod.tree):
            if isinstance(n, ast.ImportFrom):
                pm = self._pkgmod(n.module, n.level, mod.name)
                for a in n.names:
                    local = a.asname or a.name
                    if pm is None:
                        tab.setdefault(local, Sym("external", None, f"{n.module}.{a.name}"))
                    elif pm == "":
                        if a.name in self.repo.modules:
                            tab[local] = Sym("module", a.name, None)
                    else:
                        tab[local] = Sym("reexport", pm, a.name)
            elif isinstance(n, ast.Import):
                for a in n.names:
                    local = a.asname or a.name.split(".")[0]
                    if a.name.startswith(PKG + "."):
                        tab[a.asname or a.name] = Sym("module", a.name[len(PKG) + 1 :], None)
                    else:
                        tab.setdefault(local, Sym("external", None, a.name if a.asname else a.name.split(".")[0]))
        for q, f in mod.funcs.items():
            if "." not in q:
                tab[q] = Sym("func", mod.name, q)
        for q in mod.classes:
            if "." not in q:
                tab[q] = Sym("class", mod.name, q)
        try:
            cds = cdefs.discover(mod)
        except Exception:
            cds = {}
        self._cstructs_for = getattr(self, "_cstructs_for", {})
        self._cstructs_for[mod.name] = cds
        for var, cd in cds.items():
            tab[var] = Sym("cstruct", mod.name, var)
            for py, cname in cd.aliases.items():
                tab[py] = Sym("struct", mod.name, cname, cdef_var=var)
        for name, val in mod.consts.items():
            if name in tab and tab[name].kind in ("struct", "cstruct"):
                continue
            if isinstance(val, ast.Call) and dotted(val.func) in ("partial", "functools.partial") and val.args:
                tgt = dotted(val.args[0])
                if tgt and tgt in tab and tab[tgt].kind in ("func", "partial"):
                    base = tab[tgt]
                    bound = dict(base.bound)
                    for k in val.keywords:
                        if k.arg:
                            bound[k.arg] = k.value
                    tab[name] = Sym("partial", base.module, base.name, bound)
                    continue
            if isinstance(val, ast.Name) and val.id in tab:
                tab[name] = tab[val.id]
                continue
            tab.setdefault(name, Sym("const", mod.name, name))
        return tab

    def cdefs_of(self, modname: str):
        return self._cstructs_for.get(modname, {})

    def lookup(self, modname: str, name: str) -> Optional[Sym]:
        s = self.symtabs.get(modname, {}).get(name)
        if s is not None and s.kind == "reexport":
            return None
        return s

    def lookup_dotted(self, modname: str, dn: str) -> Optional[Sym]:
        parts = dn.split(".")
        s = self.lookup(modname, parts[0])
        i = 1
        while s is not None and i < len(parts):
            if s.kind == "module":
                s = self.lookup(s.module, parts[i])
            elif s.kind == "class":
                q = f"{s.name}.{parts[i]}"
                m = self.repo.modules[s.module]
                if q in m.funcs:
                    s = Sym("func", s.module, q)
                else:
                    # class attribute alias: header = ConfigBlock._pair
                    attrs = self.repo.class_attrs(f"{s.module}.{s.name}")
                    if parts[i] in attrs:
                        d = dotted(attrs[parts[i]])
                        s2 = self.lookup_dotted(s.module, d) if d else None
                        s = s2 if s2 is not None else Sym("const", s.module, q)
                    else:
                        # inherited?
                        s = self._inherited(s, parts[i])
            elif s.kind == "cstruct":
                s = Sym("struct", s.module, parts[i], cdef_var=s.name)
            elif s.kind == "external":
                s = Sym("external", None, f"{s.name}.{parts[i]}")
            else:
                return None
            i += 1
        return s

    def _inherited(self, cls: Sym, attr: str) -> Optional[Sym]:
        node = self.repo.modules[cls.module].classes.get(cls.name)
        if node is None:
            return None
        for b in node.bases:
            d = dotted(b)
            if not d:
                continue
            bs = self.lookup_dotted(cls.module, d)
            if bs is not None and bs.kind == "class":
                r = self.lookup_dotted(bs.module, f"{bs.name}.{attr}") if "." not in bs.name else None
                if r is None:
                    q = f"{bs.name}.{attr}"
                    if q in self.repo.modules[bs.module].funcs:
                        return Sym("func", bs.module, q)
                    r = self._inherited(bs, attr)
                if r is not None:
                    return r
        return None

    # ------------------------------------------------------------------ local typing
    def _annot_class(self, modname: str, ann: Optional[ast.AST]) -> Optional[str]:
        """'module.Class' for an annotation naming a package class (Optional[...] unwrapped)."""
        if ann is None:
            return None
        if isinstance(ann, ast.Constant) and isinstance(ann.value, str):
            try:
                ann = ast.parse(ann.value, mode="eval").body
            except SyntaxError:
                return None
        if isinstance(ann, ast.Subscript) and dotted(ann.value) in ("Optional", "typing.Optional"):
            return self._annot_class(modname, ann.slice)
        d = dotted(ann)
        if d:
            s = self.lookup_dotted(modname, d)
            if s is not None and s.kind == "class":
                return s.fq
            if s is not None and s.kind == "struct":
                return f"struct:{s.module}.{s.cdef_var}.{s.name}"
        return None

    def expr_type(self, f: Func, e: ast.AST, depth: int = 0) -> Optional[str]:
        """Best-effort static class of an expression: 'module.Class' or None."""
        if depth > 4:
            return None
        if depth == 0:
            key = (f.fq, id(e))
            hit = self._et_cache.get(key)
            if hit is not None and hit[0] is e:
                return hit[1]
            r = self._expr_type(f, e, 0)
            self._et_cache[key] = (e, r)
            return r
        return self._expr_type(f, e, depth)

    def _expr_type(self, f: Func, e: ast.AST, depth: int = 0) -> Optional[str]:
        e = strip_cast(e)
        modname = f.module.name
        if isinstance(e, ast.Name):
            if e.id == "self" and f.cls:
                return f"{modname}.{f.cls}"
            if e.id == "cls" and f.cls:
                return f"type:{modname}.{f.cls}"
            if e.id in params(f.node):
                from .astutil import param_annotation

                t = self._annot_class(modname, param_annotation(f.node, e.id))
                if t:
                    return t
            types = set()
            for _st, v in assignments_to(f.node, e.id):
                if v is None:
                    return None
                types.add(self.expr_type(f, v, depth + 1))
            if len(types) == 1:
                return types.pop()
            return None
        if isinstance(e, ast.Call):
            c = self.resolve_call(f, e, depth + 1)
            if c.kind == "class":
                return c.fq
            if c.kind == "struct" and c.struct:
                return f"struct:{c.struct[0]}.{c.struct[1]}.{c.struct[2]}"
            if c.kind == "func" and c.func is not None:
                ret = getattr(c.func.node, "returns", None)
                t = self._annot_class(c.func.module.name, ret)
                if t:
                    return t
                # classmethod returning cls(...)
                if c.func.cls and _returns_cls(c.func.node):
                    return f"{c.func.module.name}.{c.func.cls}"
            return None
        if isinstance(e, ast.Attribute):
            base = self.expr_type(f, e.value, depth + 1)
            if base and not base.startswith(("type:", "struct:")):
                return self.attr_type(base, e.attr)
            return None
        if isinstance(e, ast.IfExp):
            a, b = self.expr_type(f, e.body, depth + 1), self.expr_type(f, e.orelse, depth + 1)
            return a if a == b else None
        return None

    def attr_type(self, cls_fq: str, attr: str) -> Optional[str]:
        """Type of self.<attr> from assignments in the class's methods (constructor-typed)."""
        mname, _, cname = cls_fq.partition(".")
        if mname not in self.repo.modules:
            return None
        active = self.__dict__.setdefault("_attr_active", set())
        if (cls_fq, attr) in active:
            return None  # self.a = self.b; self.b = self.a (swap through a temporary): no type information from the cycle
        active.add((cls_fq, attr))
        try:
            return self._attr_type(cls_fq, attr, mname, cname)
        finally:
            active.discard((cls_fq, attr))

    def _attr_type(self, cls_fq: str, attr: str, mname: str, cname: str) -> Optional[str]:
        types = set()
        for m in self.repo.methods(cls_fq):
            for st in body_walk(m.node):
                tgt = val = None
                if isinstance(st, ast.Assign) and len(st.targets) == 1:
                    tgt, val = st.targets[0], st.value
                elif isinstance(st, ast.AnnAssign):
                    tgt, val = st.target, st.value
                    if isinstance(tgt, ast.Attribute) and dotted(tgt) == f"self.{attr}":
                        t = self._annot_class(mname, st.annotation)
                        if t:
                            types.add(t)
                            continue
                if tgt is not None and val is not None and isinstance(tgt, ast.Attribute) and dotted(tgt) == f"self.{attr}":
                    types.add(self.expr_type(m, val, 2))
        # NamedTuple-style class annotations
        node = self.repo.modules[mname].classes.get(cname)
        if node is not None:
            for st in node.body:
                if isinstance(st, ast.AnnAssign) and isinstance(st.target, ast.Name) and st.target.id == attr:
                    t = self._annot_class(mname, st.annotation)
                    if t:
                        types.add(t)
        types.discard(None)
        if len(types) == 1:
            return types.pop()
        return None

    # ------------------------------------------------------------------ calls
    def resolve_call(self, f: Func, call: ast.Call, depth: int = 0) -> Callee:
        if depth == 0:
            key = (f.fq, id(call))
            hit = self._rc_cache.get(key)
            if hit is not None and hit[0] is call:
                return hit[1]
            r = self._resolve_call(f, call, 0)
            self._rc_cache[key] = (call, r)
            return r
        return self._resolve_call(f, call, depth)

    def _resolve_call(self, f: Func, call: ast.Call, depth: int = 0) -> Callee:
        modname = f.module.name
        fn = call.func
        d = dotted(fn)
        if d:
            head = d.split(".")[0]
            # locals shadow module symbols (except self/cls)
            is_local = head in _local_names(f) and head not in ("self", "cls")
            if not is_local:
                if head == "self" and f.cls and d.count(".") == 1:
                    s = self.lookup_dotted(modname, f"{f.cls}.{d.split('.')[1]}")
                    if s is not None:
                        return self._sym_callee(s, recv=f"{modname}.{f.cls}")
                if head == "cls" and f.cls:
                    if d == "cls":
                        return Callee("class", None, f"{modname}.{f.cls}")
                    if d.count(".") == 1:
                        s = self.lookup_dotted(modname, f"{f.cls}.{d.split('.')[1]}")
                        if s is not None:
                            return self._sym_callee(s, recv=f"{modname}.{f.cls}")
                if head == "super":
                    pass
                s = self.lookup_dotted(modname, d)
                if s is not None:
                    return self._sym_callee(s)
                # nested function of the enclosing def
                if "." not in d:
                    q = f"{f.qualname}.{d}"
                    if q in f.module.funcs:
                        return Callee("func", f.module.funcs[q], f"{modname}.{q}")
                    if f.parent is not None:
                        q = f"{f.parent.qualname}.{d}"
                        if q in f.module.funcs:
                            return Callee("func", f.module.funcs[q], f"{modname}.{q}")
        if isinstance(fn, ast.Attribute):
            # super().__init__(...)
            if isinstance(fn.value, ast.Call) and dotted(fn.value.func) == "super" and f.cls:
                s = self._inherited(Sym("class", modname, f.cls), fn.attr)
                if s is not None:
                    return self._sym_callee(s)
            if depth <= 4:
                t = self.expr_type(f, fn.value, depth + 1)
                if t and t.startswith("type:"):
                    t = t[5:]
                if t and not t.startswith("struct:"):
                    mname, _, cname = t.partition(".")
                    s = self.lookup_dotted(mname, f"{cname}.{fn.attr}")
                    if s is not None and s.kind in ("func", "partial"):
                        return self._sym_callee(s, recv=t)
                    return Callee("builtin-method", None, f"{t}.{fn.attr}", recv_type=t)
                if t and t.startswith("struct:"):
                    return Callee("builtin-method", None, f"{t}.{fn.attr}", recv_type=t)
            return Callee("unresolved", None, f"?.{fn.attr}")
        if d:
            return Callee("external", None, d)
        return Callee("unresolved", None, ast.unparse(fn)[:40])

    def _sym_callee(self, s: Sym, recv: Optional[str] = None) -> Callee:
        if s.kind in ("func", "partial"):
            m = self.repo.modules[s.module]
            f = m.funcs.get(s.name)
            if f is None:
                return Callee("unresolved", None, s.fq)
            return Callee("func", f, s.fq, dict(s.bound), recv_type=recv)
        if s.kind == "class":
            return Callee("class", None, s.fq)
        if s.kind == "struct":
            return Callee("struct", None, f"{s.module}.{s.cdef_var}.{s.name}", struct=(s.module, s.cdef_var, s.name))
        if s.kind == "external":
            return Callee("external", None, s.name or "?")
        return Callee("unresolved", None, s.fq)

    def class_init(self, cls_fq: str) -> Optional[Func]:
        mname, _, cname = cls_fq.partition(".")
        s = self.lookup_dotted(mname, f"{cname}.__init__")
        if s is not None and s.kind == "func":
            return self.repo.modules[s.module].funcs.get(s.name)
        return None

    # ------------------------------------------------------------------ call graph
    def callgraph(self) -> nx.DiGraph:
        if self._cg is not None:
            return self._cg
        g = nx.MultiDiGraph()
        stats = {"resolved": 0, "external": 0, "unresolved": 0, "builtin-method": 0, "external-method": 0}
        pkg_methods = set()
        for m in self.repo.modules.values():
            for q in m.funcs:
                if "." in q:
                    pkg_methods.add(q.rsplit(".", 1)[1])
        for f in self.repo.all_funcs():
            g.add_node(f.fq)
            for c in fn_calls(f.node):
                cal = self.resolve_call(f, c)
                if cal.kind == "func":
                    g.add_edge(f.fq, cal.func.fq, call=c)
                    stats["resolved"] += 1
                elif cal.kind == "class":
                    init = self.class_init(cal.fq)
                    if init is not None:
                        g.add_edge(f.fq, init.fq, call=c)
                    stats["resolved"] += 1
                elif cal.kind == "struct":
                    stats["resolved"] += 1
                elif cal.kind == "external":
                    stats["external"] += 1
                elif cal.kind == "builtin-method":
                    stats["builtin-method"] += 1
                elif isinstance(c.func, ast.Attribute) and c.func.attr not in pkg_methods:
                    # a method no class of the package defines: cannot be a package callee
                    stats["external-method"] += 1
                else:
                    stats["unresolved"] += 1
                    self.unresolved.append((f.fq, ast.unparse(c.func)[:60], c.lineno))
            # property reads: self.<prop> resolves to the property function
        self._cg = g
        self.cg_stats = stats
        return g

    def property_of(self, cls_fq: str, attr: str) -> Optional[Func]:
        mname, _, cname = cls_fq.partition(".")
        m = self.repo.modules.get(mname)
        if not m:
            return None
        f = m.funcs.get(f"{cname}.{attr}")
        if f is None:
            return None
        for d in getattr(f.node, "decorator_list", []):
            if dotted(d) in ("property", "functools.cached_property", "cached_property"):
                return f
        return None


def _returns_cls(fn: ast.AST) -> bool:
    for n in body_walk(fn):
        if isinstance(n, ast.Return) and n.value is not None:
            v = n.value
            if isinstance(v, ast.Call) and dotted(v.func) == "cls":
                return True
            if isinstance(v, ast.Name):
                for _st, val in assignments_to(fn, v.id):
                    if isinstance(val, ast.Call) and dotted(val.func) == "cls":
                        return True
    return False


_LOCALS_CACHE: Dict[int, set] = {}


def _local_names(f: Func) -> set:
    k = id(f.node)
    if k in _LOCALS_CACHE:
        return _LOCALS_CACHE[k]
    names = set(params(f.node)) if not isinstance(f.node, ast.Lambda) else {a.arg for a in f.node.args.args}
    for n in body_walk(f.node):
        if isinstance(n, ast.Name) and isinstance(n.ctx, ast.Store):
            names.add(n.id)
    # imports inside the function are local bindings of *module* symbols: do not shadow
    for n in body_walk(f.node):
        if isinstance(n, (ast.Import, ast.ImportFrom)):
            for a in n.names:
                names.discard(a.asname or a.name.split(".")[0])
    _LOCALS_CACHE[k] = names
    return names
