"""Exception-escape (may-raise) analysis.

For a function, computes the set of exception classes that may propagate out of it, each
with a witness (the primitive that raises and the call path to it).  Sources:

* explicit ``raise`` / ``assert``
* resolved callees (interprocedural over the package; generators are charged at the
  call site)
* a frozen *primitive-effect table* (PRIMITIVES below; DESIGN.md section 2.1)

``try/except`` subtracts by the builtin class hierarchy.  Precision devices (sign facts
for seek offsets, stream kind, safe-subscript idioms, validated DOS header) are explicit
functions in this module; every fact they use is derived from the current source.
"""

from __future__ import annotations

import ast
from dataclasses import dataclass, field
from typing import Dict, FrozenSet, List, Optional, Set, Tuple

from .astutil import (
    assignments_to, body_walk, compare_parts, conjuncts, const_eval, disjuncts, dotted, fn_calls, is_const, kwarg,
    NotConst, param_annotation, param_defaults, params, src, statements, strip_cast, walk_no_nested,
)
from .loader import Func
from .q import FuncView, dominating_conditions, guarded_by, origin

# ---------------------------------------------------------------------------- class hierarchy
PARENT = {
    "BaseException": None, "Exception": "BaseException", "KeyboardInterrupt": "BaseException", "SystemExit": "BaseException",
    "ValueError": "Exception", "UnicodeError": "ValueError", "UnicodeDecodeError": "UnicodeError", "UnicodeEncodeError": "UnicodeError",
    "binascii.Error": "ValueError", "AddressValueError": "ValueError", "JSONDecodeError": "ValueError",
    "LookupError": "Exception", "IndexError": "LookupError", "KeyError": "LookupError",
    "ArithmeticError": "Exception", "ZeroDivisionError": "ArithmeticError", "OverflowError": "ArithmeticError",
    "OSError": "Exception", "IOError": "Exception", "FileNotFoundError": "OSError", "PermissionError": "OSError", "BrokenPipeError": "OSError",
    "io.UnsupportedOperation": "OSError",
    "EOFError": "Exception", "AttributeError": "Exception", "TypeError": "Exception", "AssertionError": "Exception",
    "StopIteration": "Exception", "RuntimeError": "Exception", "RecursionError": "RuntimeError", "NotImplementedError": "RuntimeError",
    "struct.error": "Exception", "ImportError": "Exception", "NameError": "Exception", "UnboundLocalError": "NameError",
    "MemoryError": "Exception",
}


def is_subclass(cls: str, base: str) -> bool:
    if base in ("IOError", "EnvironmentError"):
        base = "OSError"
    if cls in ("IOError", "EnvironmentError"):
        cls = "OSError"
    c: Optional[str] = cls
    seen = 0
    while c is not None and seen < 20:
        if c == base:
            return True
        c = PARENT.get(c, "Exception" if c not in PARENT and c != "Exception" else None)
        seen += 1
    return False


PRIMITIVES = [
    ("struct/int type of a cstruct applied to a stream or bytes", "EOFError", "dissect.cstruct raises EOFError on a short read"),
    ("absolute seek with an offset not provably >= 0", "ValueError (BytesIO) / OSError (real file)", "CPython io"),
    ("relative seek with a negative or unknown offset on a stream not known to be BytesIO", "OSError", "seeking before the start of a real file is EINVAL"),
    ("int(x) / int(x, base) / bytes.decode() / str.encode('ascii')", "ValueError", "CPython"),
    ("x.to_bytes(n, ...) with x not provably in range", "OverflowError", "CPython"),
    ("a % b, a // b, a / b with b not provably non-zero", "ZeroDivisionError", "CPython"),
    ("seq[i] with i not covered by a recognised length fact", "IndexError", "CPython"),
    ("mapping[key] with key not provably present", "KeyError", "CPython"),
    ("tuple-unpack of a sequence of unknown length", "ValueError", "CPython"),
    ("assert", "AssertionError", "CPython"),
    ("next(it) without default", "StopIteration", "CPython"),
    ("base64.*decode, ipaddress.IPv4Address, RSA.import_key, max()/min() of possibly empty", "ValueError", "library documentation"),
    ("open(path)", "OSError", "CPython (exempt in from_path: path validity is the caller's precondition)"),
]

EXTERNAL_RAISES = {
    "int": "ValueError", "base64.b64decode": "binascii.Error", "base64.urlsafe_b64decode": "binascii.Error",
    "ipaddress.IPv4Address": "AddressValueError", "RSA.import_key": "ValueError", "bytes.fromhex": "ValueError",
    "struct.unpack": "struct.error", "struct.unpack_from": "struct.error", "urlparse": "ValueError", "parse_qsl": "ValueError",
    "urllib.parse.urlparse": "ValueError", "open": "OSError", "float": "ValueError", "datetime.datetime.strptime": "ValueError",
    "max": "ValueError", "min": "ValueError",
}

# frozen exemptions: (function fq, primitive kind, callee/text fragment) -> reason
EXEMPT = {
    ("utils.xor", "OverflowError", "to_bytes"): "xor: both operands are cut to len(data) bytes, so the XOR fits in `size` bytes (structure owed to C20.R1)",
    ("beacon.iter_beacon_config_blocks", "OverflowError", "pack p8"): "p8(x[0]): x[0] is a byte value counted from iterating a bytes chunk (0..255)",
    ("beacon.BeaconConfig.from_path", "OSError", "open"): "path validity is the caller's precondition; the property quantifies over byte contents",
    ("xordecode.XorEncodedFile.from_path", "OSError", "open"): "path validity is the caller's precondition",
    ("pe.find_compile_stamps", "OverflowError", "to_bytes"): "uint32 value always fits 4 bytes",
}


@dataclass(frozen=True)
class Effect:
    cls: str
    site: str  # "file::func::text"
    line: int
    file: str
    path: Tuple[str, ...] = ()  # call chain from the summarised function to the site

    def via(self, frame: str) -> "Effect":
        if len(self.path) >= 12:
            return self
        return Effect(self.cls, self.site, self.line, self.file, (frame,) + self.path)


class Escape:
    def __init__(self, ctx):
        self.ctx = ctx
        self.rs = ctx.rs
        self.repo = ctx.repo
        self.memo: Dict[str, FrozenSet[Effect]] = {}
        self.active: Set[str] = set()
        self.visited_funcs: Set[str] = set()
        self.primitive_sites = 0
        self.struct_parse_sites = 0
        self.seek_sites = 0
        self.subscript_sites = 0
        self.external_unknown: Set[str] = set()
        self.exempt_used: List[str] = []
        self.facts_used: List[str] = []
        self._callsites: Optional[Dict[str, List[Tuple[Func, ast.Call]]]] = None
        self._gen_nonneg: Dict[str, bool] = {}
        self._scanner_ok: Optional[bool] = None
        self._scanner_state: Optional[str] = None  # 'ok' / 'violated' / 'undecided'
        self._unknown_hit = False  # set while a sign fact is evaluated that ran into an undecided callee summary
        self.uncertain_sites: Set[str] = set()
        self.reach: Optional[Set[str]] = None

    # ------------------------------------------------------------------ public
    def function_effects(self, f: Func) -> FrozenSet[Effect]:
        if f.fq in self.memo:
            return self.memo[f.fq]
        if f.fq in self.active:
            return frozenset()
        self.active.add(f.fq)
        self.visited_funcs.add(f.fq)
        try:
            body = f.node.body if not isinstance(f.node, ast.Lambda) else [ast.Expr(value=f.node.body)]
            effs = self.block(f, body)
        finally:
            self.active.discard(f.fq)
        res = frozenset(effs)
        self.memo[f.fq] = res
        return res

    # ------------------------------------------------------------------ statements
    def block(self, f: Func, body: List[ast.stmt]) -> Set[Effect]:
        out: Set[Effect] = set()
        for st in body:
            out |= self.stmt(f, st)
        return out

    def stmt(self, f: Func, st: ast.stmt) -> Set[Effect]:
        if isinstance(st, (ast.FunctionDef, ast.AsyncFunctionDef, ast.ClassDef, ast.Import, ast.ImportFrom, ast.Global, ast.Nonlocal, ast.Pass, ast.Break, ast.Continue)):
            return set()
        if isinstance(st, ast.Try):
            body = self.block(f, st.body)
            out: Set[Effect] = set()
            caught_any = {}
            for e in body:
                h = self._handler_for(st, e.cls)
                if h is None:
                    out.add(e)
                else:
                    caught_any.setdefault(id(h), []).append(e)
            for h in st.handlers:
                # a handler is live if something it catches can be raised, or we cannot tell (external calls)
                hb = self.block(f, h.body)
                # bare `raise` inside handler re-raises what was caught
                for n in h.body:
                    for x in walk_no_nested(n):
                        if isinstance(x, ast.Raise) and x.exc is None:
                            out |= set(caught_any.get(id(h), []))
                out |= {e for e in hb if not (e.site.endswith("::raise") and False)}
            out |= self.block(f, st.orelse)
            out |= self.block(f, st.finalbody)
            return out
        if isinstance(st, ast.If):
            return self.exprs(f, st, [st.test]) | self.block(f, st.body) | self.block(f, st.orelse)
        if isinstance(st, ast.While):
            return self.exprs(f, st, [st.test]) | self.block(f, st.body) | self.block(f, st.orelse)
        if isinstance(st, (ast.For, ast.AsyncFor)):
            return self.exprs(f, st, [st.iter]) | self.block(f, st.body) | self.block(f, st.orelse)
        if isinstance(st, (ast.With, ast.AsyncWith)):
            return self.exprs(f, st, [i.context_expr for i in st.items]) | self.block(f, st.body)
        if isinstance(st, ast.Raise):
            out = self.exprs(f, st, [x for x in (st.exc, st.cause) if x is not None])
            if st.exc is not None:
                exc = st.exc
                if isinstance(exc, ast.Name) and exc.id not in PARENT:
                    # err = ValueError(..); raise err
                    o = origin(f.node, exc)
                    if isinstance(o, ast.Call) or (isinstance(o, (ast.Name, ast.Attribute)) and (dotted(o) or "").split(".")[-1] in PARENT):
                        exc = o
                cls = dotted(exc.func) if isinstance(exc, ast.Call) else dotted(exc)
                out.add(self._eff(f, (cls or "Exception").split(".")[-1] if cls not in PARENT else cls, st, "raise " + src(st.exc)[:60]))
            return out
        if isinstance(st, ast.Assert):
            out = self.exprs(f, st, [st.test])
            out.add(self._eff(f, "AssertionError", st, src(st)[:80]))
            return out
        if isinstance(st, ast.Assign):
            out = self.exprs(f, st, [st.value] + list(st.targets))
            for t in st.targets:
                if isinstance(t, (ast.Tuple, ast.List)) and not self._unpack_safe(f, st, t):
                    out.add(self._eff(f, "ValueError", st, "unpack " + src(st)[:70]))
            return out
        # generic: all expressions of the statement
        return self.exprs(f, st, [c for c in ast.iter_child_nodes(st) if isinstance(c, ast.expr)])

    def _handler_for(self, tr: ast.Try, cls: str) -> Optional[ast.ExceptHandler]:
        for h in tr.handlers:
            if h.type is None:
                return h
            types = h.type.elts if isinstance(h.type, ast.Tuple) else [h.type]
            for t in types:
                name = dotted(t) or ""
                short = name if name in PARENT else name.split(".")[-1]
                if is_subclass(cls, short):
                    return h
        return None

    def _unpack_safe(self, f: Func, st: ast.Assign, tgt: ast.AST) -> bool:
        v = st.value
        n = len(tgt.elts)
        if isinstance(v, (ast.Tuple, ast.List)) and len(v.elts) == n:
            return True
        if isinstance(v, ast.Call):
            if isinstance(v.func, ast.Attribute) and v.func.attr in ("partition", "rpartition") and n == 3:
                return True
            cal = self.rs.resolve_call(f, v)
            if cal.kind == "func" and cal.func is not None:
                rets = [s for s in statements(cal.func.node) if isinstance(s, ast.Return) and s.value is not None]
                if rets and all(isinstance(r.value, ast.Tuple) and len(r.value.elts) == n for r in rets):
                    return True
            if dotted(v.func) in ("divmod",) and n == 2:
                return True
        d = dotted(v)
        if d is not None:
            # length test on the unpacked name dominates
            def pred(t):
                for l, op, r in compare_parts(t):
                    if isinstance(l, ast.Call) and dotted(l.func) == "len" and l.args and dotted(l.args[0]) == d:
                        try:
                            k = const_eval(r)
                        except NotConst:
                            continue
                        if isinstance(op, ast.NotEq) and k == n:
                            return False
                        if isinstance(op, ast.Eq) and k == n:
                            return True
                return None
            if guarded_by(self.ctx, f, st, pred):
                return True
        return False

    # ------------------------------------------------------------------ expressions
    def exprs(self, f: Func, st: ast.AST, es: List[ast.AST], _lazy_depth: int = 0) -> Set[Effect]:
        out: Set[Effect] = set()
        for e in es:
            for n in walk_no_nested(e):
                if isinstance(n, ast.Name) and isinstance(n.ctx, ast.Load) and _lazy_depth < 2:
                    # a generator expression bound to a local is evaluated lazily: what its body can raise is raised
                    # where the local is consumed (in the try-context of *this* statement), not where it was bound
                    for _s2, v in assignments_to(f.node, n.id):
                        if isinstance(v, ast.GeneratorExp):
                            out |= self.exprs(f, st, [v.elt] + [g.iter for g in v.generators] + [c for g in v.generators for c in g.ifs], _lazy_depth + 1)
                if isinstance(n, ast.Call):
                    out |= self.call(f, st, n)
                elif isinstance(n, ast.BinOp) and isinstance(n.op, (ast.Mod, ast.FloorDiv, ast.Div)):
                    if not self._nonzero(f, st, n.right) and not (isinstance(n.op, ast.Mod) and self._is_strlike(n.left)):
                        out |= self._prim(f, "ZeroDivisionError", n, "division " + src(n)[:60], st)
                elif isinstance(n, ast.Subscript) and isinstance(n.ctx, ast.Load) and not isinstance(n.slice, ast.Slice):
                    self.subscript_sites += 1
                    r = self._subscript(f, st, n)
                    if r is not None:
                        out |= self._prim(f, r, n, "subscript " + src(n)[:60], st)
        return out

    @staticmethod
    def _is_strlike(e: ast.AST) -> bool:
        return isinstance(e, (ast.JoinedStr,)) or (isinstance(e, ast.Constant) and isinstance(e.value, (str, bytes)))

    def _eff(self, f: Func, cls: str, node: ast.AST, text: str) -> Effect:
        return Effect(cls, f"{f.module.relpath.split('/')[-1]}::{f.qualname}::{text}", getattr(node, "lineno", 0), f.module.relpath)

    def _prim(self, f: Func, cls: str, node: ast.AST, text: str, st: ast.AST) -> Set[Effect]:
        self.primitive_sites += 1
        for (fq, k, frag), reason in EXEMPT.items():
            if fq == f.fq and k == cls and frag in text:
                self.exempt_used.append(f"{fq} {cls} {frag}: {reason}")
                return set()
        return {self._eff(f, cls, node, text)}

    # ------------------------------------------------------------------ calls
    def call(self, f: Func, st: ast.AST, c: ast.Call) -> Set[Effect]:
        out: Set[Effect] = set()
        cal = self.rs.resolve_call(f, c)
        frame = f"{f.fq}:{c.lineno}"
        if cal.kind == "func" and cal.func is not None:
            if cal.func.fq == "utils.pack":
                # frozen summary: pack(n, size) is total iff n fits `size` bytes - charged at the call site
                if not self._pack_fits(f, st, c, cal):
                    out |= self._prim(f, "OverflowError", c, "pack " + src(c)[:60], st)
                return out
            for e in self.function_effects(cal.func):
                out.add(e.via(frame))
            return out
        if cal.kind == "class":
            init = self.rs.class_init(cal.fq)
            if init is not None:
                for e in self.function_effects(init):
                    out.add(e.via(frame))
            return out
        if cal.kind == "struct":
            self.struct_parse_sites += 1
            if c.args:  # parsing from a stream / bytes (no-arg construction builds an empty instance)
                if not self._validated_parse(f, st, c, cal):
                    out |= self._prim(f, "EOFError", c, "parse " + src(c)[:60], st)
                out |= self._dyn(f, "read", frame)
            return out
        name = dotted(c.func)
        if isinstance(c.func, ast.Attribute):
            m = c.func.attr
            if m == "seek":
                self.seek_sites += 1
                out |= self._seek(f, st, c)
                return out
            if m in ("read", "tell", "peek") and cal.kind in ("unresolved", "builtin-method"):
                out |= self._dyn(f, m, frame, recv=c.func.value, func=f)
                return out
            if m == "decode":
                if kwarg(c, "errors") is None and len(c.args) < 2:
                    enc = c.args[0].value if c.args and isinstance(c.args[0], ast.Constant) else "utf-8"
                    if str(enc).lower().replace("_", "-") not in ("latin-1", "latin1", "iso-8859-1"):
                        out |= self._prim(f, "UnicodeDecodeError", c, "decode " + src(c)[:60], st)
                return out
            if m == "encode":
                enc = c.args[0].value if c.args and isinstance(c.args[0], ast.Constant) else "utf-8"
                if str(enc).lower() in ("ascii", "latin-1", "latin1") and kwarg(c, "errors") is None and len(c.args) < 2:
                    out |= self._prim(f, "UnicodeEncodeError", c, "encode " + src(c)[:60], st)
                return out
            if m == "to_bytes":
                if not self._to_bytes_safe(f, st, c):
                    out |= self._prim(f, "OverflowError", c, "to_bytes " + src(c)[:60], st)
                return out
            if m == "index" and c.args:
                if not self._index_guarded(f, st, c):
                    out |= self._prim(f, "ValueError", c, "index " + src(c)[:60], st)
                return out
            if m == "pop" and not c.args:
                return out
            if m in ("unpack", "unpack_from") and c.args and self._is_struct_object(f, c.func.value):
                # <struct.Struct>.unpack(buf): struct.error unless the buffer is known to have exactly/at least the struct's size
                if not self._struct_len_guard(f, st, c):
                    out |= self._prim(f, "struct.error", c, "struct unpack " + src(c)[:60], st)
                return out
        if name == "next" and len(c.args) == 1:
            out |= self._prim(f, "StopIteration", c, "next " + src(c)[:60], st)
            return out
        if name in EXTERNAL_RAISES or (cal.kind == "external" and cal.fq in EXTERNAL_RAISES):
            key = name if name in EXTERNAL_RAISES else cal.fq
            if key in ("max", "min") and (len(c.args) > 1 or kwarg(c, "default") is not None):
                return out
            if key == "int" and c.args and not self._int_may_fail(f, c):
                return out
            out |= self._prim(f, EXTERNAL_RAISES[key], c, f"{key} " + src(c)[:60], st)
            return out
        if cal.kind == "external":
            self.external_unknown.add(cal.fq)
        # lambda / callable values: dict-dispatched pretty functions etc. are not followed
        return out

    def _is_struct_object(self, f: Func, recv: ast.AST) -> bool:
        """recv is (a name bound to) a struct.Struct(...) construction - module level or local."""
        o = origin(f.node, recv)
        if isinstance(o, ast.Name) and o.id in f.module.consts and not assignments_to(f.node, o.id) and o.id not in params(f.node):
            o = f.module.consts[o.id]
        return isinstance(o, ast.Call) and (dotted(o.func) or "").split(".")[-1] == "Struct"

    def _struct_len_guard(self, f: Func, st: ast.AST, c: ast.Call) -> bool:
        """The unpacked buffer's length is tied to <recv>.size by a dominating comparison (==, or >= for unpack_from)."""
        buf, recv = src(c.args[0]), src(c.func.value)
        want = f"{recv}.size"
        for t, pol, n in dominating_conditions(self.ctx, f, st if isinstance(st, ast.stmt) else c):
            for l, op, r in compare_parts(n):
                if src(l) == f"len({buf})" and src(r) == want:
                    if (isinstance(op, ast.Eq) and pol) or (isinstance(op, ast.NotEq) and not pol):
                        return True
                    if c.func.attr == "unpack_from" and ((isinstance(op, ast.GtE) and pol) or (isinstance(op, ast.Lt) and not pol)):
                        return True
        return False

    def _int_may_fail(self, f: Func, c: ast.Call) -> bool:
        a = c.args[0]
        if isinstance(a, ast.Constant) and isinstance(a.value, (int, bool)):
            return False
        if isinstance(a, ast.Call) and dotted(a.func) in ("len", "time.time", "round"):
            return False
        if isinstance(a, ast.Attribute) and a.attr in ("network_address", "broadcast_address", "value"):
            return False
        return True

    def _dyn(self, f: Func, method: str, frame: str, recv: Optional[ast.AST] = None, func: Optional[Func] = None) -> Set[Effect]:
        """Dynamic dispatch of a stream method to the package's own file-like classes."""
        out: Set[Effect] = set()
        if recv is not None and func is not None and self.stream_kind(func, recv) == "bytesio":
            return out
        for m in self.repo.modules.values():
            for cname, cnode in m.classes.items():
                bases = [dotted(b) or "" for b in cnode.bases]
                if any(b.startswith("io.") and b.endswith("IOBase") for b in bases):
                    g = m.funcs.get(f"{cname}.{method}")
                    if g is not None:
                        for e in self.function_effects(g):
                            out.add(e.via(frame + "~>" + g.fq))
        return out

    # ------------------------------------------------------------------ streams
    def stream_kind(self, f: Func, recv: ast.AST, depth: int = 0) -> str:
        """'bytesio' when the receiver is provably an in-memory stream, else 'unknown'."""
        recv = strip_cast(recv)
        if depth > 4:
            return "unknown"
        if isinstance(recv, ast.Call):
            d = dotted(recv.func)
            if d in ("io.BytesIO", "BytesIO"):
                return "bytesio"
            if d in ("io.BufferedReader", "io.BufferedRandom") and recv.args:
                return self.stream_kind(f, recv.args[0], depth + 1)
            return "unknown"
        if isinstance(recv, ast.IfExp):
            kb, ko = self.stream_kind(f, recv.body, depth + 1), self.stream_kind(f, recv.orelse, depth + 1)
            if kb == ko == "bytesio":
                return "bytesio"
            # `io.BytesIO(p) if isinstance(p, bytes) else p` - the conditional-expression spelling of the rebind idiom
            t, taken = recv.test, kb
            if isinstance(t, ast.UnaryOp) and isinstance(t.op, ast.Not):
                t, taken = t.operand, ko
            if isinstance(t, ast.Call) and dotted(t.func) == "isinstance" and len(t.args) == 2 and dotted(t.args[0]) in params(f.node) \
                    and dotted(t.args[1]) in ("bytes", "(bytes, bytearray)") and taken == "bytesio" and all(v is recv for _s, v in assignments_to(f.node, dotted(t.args[0]))) \
                    and self._all_callers_pass_bytes(f, dotted(t.args[0])):
                self.facts_used.append(f"stream-kind: {f.fq}({dotted(t.args[0])}) is bytes at every reachable call site -> BytesIO")
                return "bytesio"
            return "unknown"
        if isinstance(recv, ast.Name):
            defs = assignments_to(f.node, recv.id)
            kinds = set()
            for st, v in defs:
                if v is None:
                    kinds.add("unknown")
                else:
                    kinds.add(self.stream_kind(f, v, depth + 1))
            if recv.id in params(f.node):
                # the `if isinstance(p, bytes): p = io.BytesIO(p)` idiom: kind is bytesio iff all reachable
                # call sites pass bytes
                if defs and kinds == {"bytesio"} and (self._isinstance_bytes_rebind(f, recv.id) or all(isinstance(v, ast.IfExp) for _s, v in defs)) \
                        and self._all_callers_pass_bytes(f, recv.id):
                    self.facts_used.append(f"stream-kind: {f.fq}({recv.id}) is bytes at every reachable call site -> BytesIO")
                    return "bytesio"
                return "unknown"
            if kinds == {"bytesio"}:
                return "bytesio"
        return "unknown"

    def _isinstance_bytes_rebind(self, f: Func, p: str) -> bool:
        for st in statements(f.node):
            if isinstance(st, ast.If) and isinstance(st.test, ast.Call) and dotted(st.test.func) == "isinstance" and dotted(st.test.args[0]) == p and dotted(st.test.args[1]) in ("bytes", "(bytes, bytearray)"):
                return any(isinstance(s, ast.Assign) and dotted(s.targets[0]) == p for s in st.body)
        return False

    def callsites(self) -> Dict[str, List[Tuple[Func, ast.Call]]]:
        if self._callsites is None:
            cs: Dict[str, List[Tuple[Func, ast.Call]]] = {}
            for g in self.repo.all_funcs():
                for c in fn_calls(g.node):
                    cal = self.rs.resolve_call(g, c)
                    tgt = None
                    if cal.kind == "func" and cal.func is not None:
                        tgt = cal.func.fq
                    elif cal.kind == "class":
                        init = self.rs.class_init(cal.fq)
                        tgt = init.fq if init is not None else None
                    if tgt:
                        cs.setdefault(tgt, []).append((g, c))
            self._callsites = cs
        return self._callsites

    def _reachable_callers(self, f: Func) -> List[Tuple[Func, ast.Call]]:
        sites = self.callsites().get(f.fq, [])
        if self.reach is not None:
            sites = [(g, c) for g, c in sites if g.fq in self.reach]
        return sites

    def _arg_for(self, f: Func, c: ast.Call, pname: str) -> Optional[ast.AST]:
        ps = params(f.node)
        if f.cls and ps and ps[0] in ("self", "cls"):
            ps = ps[1:]
        v = kwarg(c, pname)
        if v is not None:
            return v
        if pname in ps:
            i = ps.index(pname)
            if i < len(c.args) and not any(isinstance(a, ast.Starred) for a in c.args):
                return c.args[i]
        return None

    def _all_callers_pass_bytes(self, f: Func, p: str) -> bool:
        sites = self._reachable_callers(f)
        if not sites:
            return False
        for g, c in sites:
            a = self._arg_for(f, c, p)
            if a is None or not self._is_bytes(g, a):
                return False
        return True

    def _is_bytes(self, g: Func, a: ast.AST) -> bool:
        a = strip_cast(a)
        if isinstance(a, ast.Constant) and isinstance(a.value, bytes):
            return True
        if isinstance(a, ast.Name) and a.id in params(g.node):
            ann = param_annotation(g.node, a.id)
            return ann is not None and src(ann) in ("bytes", "'bytes'")
        if isinstance(a, ast.Attribute):
            # dataclass / class annotation `name: bytes`
            for m in self.repo.modules.values():
                for cn in m.classes.values():
                    for st in cn.body:
                        if isinstance(st, ast.AnnAssign) and isinstance(st.target, ast.Name) and st.target.id == a.attr and src(st.annotation) in ("bytes", "'bytes'", "bytes | None"):
                            return True
        if isinstance(a, ast.Call):
            cal = self.rs.resolve_call(g, a)
            if cal.kind == "func" and cal.func is not None and getattr(cal.func.node, "returns", None) is not None and src(cal.func.node.returns) == "bytes":
                return True
        return False

    # ------------------------------------------------------------------ seeks
    def _seek(self, f: Func, st: ast.AST, c: ast.Call) -> Set[Effect]:
        recv = c.func.value
        kind = self.stream_kind(f, recv)
        off = c.args[0] if c.args else kwarg(c, "offset")
        wh = c.args[1] if len(c.args) > 1 else kwarg(c, "whence")
        whs = dotted(wh) if wh is not None else None
        relative = wh is not None and not (is_const(wh, 0) or (whs or "").endswith("SEEK_SET"))
        wrapper_param = self._is_wrapper_offset(f, off)
        if off is None:
            return set()
        if wrapper_param:
            return set()  # charged at the wrapper's call sites
        if relative:
            if is_const(off, 0):
                return set()
            if kind == "bytesio":
                return set()  # BytesIO clips relative seeks at 0
            if whs is None and not isinstance(wh, ast.Constant):
                pass
            if self.nonneg(f, off, st) and (whs or "").endswith("SEEK_CUR"):
                return set()
            if (whs or "").endswith("SEEK_CUR") and self._giveback(f, st, recv, off):
                return set()
            return self._prim(f, "OSError", c, "relative seek " + src(c)[:60], st)
        self._unknown_hit = False
        if self.nonneg(f, off, st):
            return set()
        unknown = self._unknown_hit
        out = self._prim(f, "ValueError", c, "absolute seek " + src(c)[:60], st)
        if kind != "bytesio":
            out |= self._prim(f, "OSError", c, "absolute seek " + src(c)[:60], st)
        if unknown:
            # the sign of the offset hinges on the summary of a callee whose shape the owning rule could not recognise
            # (undecided there): nothing is known here either - recorded, reported as undecided by check_escape
            self.uncertain_sites |= {e.site for e in out}
        return out

    def _giveback(self, f: Func, st: ast.AST, recv: ast.AST, off: ast.AST) -> bool:
        """seek(A - len(B), SEEK_CUR) with A >= 0 and B accumulated only from reads of the same stream in this
        function: the cursor moves back by at most what this function consumed - it cannot pass the start."""
        if not (isinstance(off, ast.BinOp) and isinstance(off.op, ast.Sub)):
            return False
        a, b = off.left, off.right
        rname = dotted(recv)

        def from_read(x) -> bool:
            o = origin(f.node, x)
            return isinstance(o, ast.Call) and isinstance(o.func, ast.Attribute) and o.func.attr == "read" and dotted(o.func.value) == rname

        if isinstance(b, ast.Name) and (self.nonneg(f, a, st) or self._guard_nonneg(f, a, st)):
            # a byte counter: starts at 0 and only grows by len(<what was read from this stream>)
            defs = assignments_to(f.node, b.id)
            ok = bool(defs) and b.id not in params(f.node)
            for s2, v in defs:
                if isinstance(v, ast.Constant) and type(v.value) is int and v.value == 0:
                    continue
                if isinstance(s2, ast.AugAssign) and isinstance(s2.op, ast.Add) and isinstance(s2.value, ast.Call) and dotted(s2.value.func) == "len" \
                        and s2.value.args and from_read(s2.value.args[0]):
                    continue
                ok = False
            if ok:
                self.facts_used.append(f"give-back: {f.fq}: seek({src(off)}, SEEK_CUR) returns bytes counted from reads of {rname}")
                return True
        if not (isinstance(b, ast.Call) and dotted(b.func) == "len" and b.args and isinstance(b.args[0], ast.Name)):
            return False
        acc = b.args[0].id
        if not (self.nonneg(f, a, st) or self._guard_nonneg(f, a, st)):
            return False
        for s2, v in assignments_to(f.node, acc):
            if isinstance(v, ast.Constant) and v.value == b"":
                continue
            if isinstance(v, ast.Subscript) and isinstance(v.slice, ast.Slice) and dotted(v.value) == acc:
                continue  # a slice of the accumulator only shrinks it
            if isinstance(s2, ast.AugAssign) and isinstance(s2.op, ast.Add):
                val = s2.value
                # data += xor(chunk, ..) | data += chunk, with chunk = <recv>.read(k)
                srcs = [val] if isinstance(val, ast.Name) else list(val.args[:1]) if isinstance(val, ast.Call) else []
                ok = False
                for x in srcs:
                    o = origin(f.node, x)
                    if isinstance(o, ast.Call) and isinstance(o.func, ast.Attribute) and o.func.attr == "read" and dotted(o.func.value) == rname:
                        ok = True
                    elif isinstance(x, ast.Name) and self._drawn_from_reading_generator(f, x.id, rname):
                        ok = True
                if ok:
                    continue
            return False
        self.facts_used.append(f"give-back: {f.fq}: seek({src(off)}, SEEK_CUR) returns bytes this function read from {rname}")
        return True

    def _drawn_from_reading_generator(self, f: Func, name: str, rname: str) -> bool:
        """`name` is only bound as the target of `for name in self.G(..)` with G a generator method of the same object whose
        every yielded value is (a length-preserving call on) a chunk it read from the same stream attribute, and which
        never seeks that stream: what the consumer accumulates was consumed from the stream during this call."""
        if not rname.startswith("self."):
            return False
        defs = assignments_to(f.node, name)
        if not defs:
            return False
        for st, v in defs:
            if not isinstance(st, (ast.For, ast.AsyncFor)) or dotted(st.target) != name or not isinstance(st.iter, ast.Call):
                return False
            if not (isinstance(st.iter.func, ast.Attribute) and dotted(st.iter.func.value) == "self"):
                return False
            cal = self.rs.resolve_call(f, st.iter)
            g = cal.func if cal.kind == "func" else None
            if g is None:
                return False
            ys = [y for y in ast.walk(g.node) if isinstance(y, (ast.Yield, ast.YieldFrom))]
            if not ys or any(isinstance(y, ast.YieldFrom) or y.value is None for y in ys):
                return False
            for c in fn_calls(g.node):
                if isinstance(c.func, ast.Attribute) and dotted(c.func.value) == rname and c.func.attr not in ("read", "tell"):
                    return False
            for y in ys:
                e = y.value
                if isinstance(e, ast.Call) and not (isinstance(e.func, ast.Attribute) and e.func.attr == "read"):
                    e = e.args[0] if e.args else None
                o = origin(g.node, e) if e is not None else None
                if not (isinstance(o, ast.Call) and isinstance(o.func, ast.Attribute) and o.func.attr == "read" and dotted(o.func.value) == rname):
                    return False
        return True

    def _is_wrapper_offset(self, f: Func, off: Optional[ast.AST]) -> bool:
        """Inside the seek() of a package file-like class, its own `offset` parameter is the caller's offset."""
        if off is None or not f.cls or not f.qualname.endswith(".seek"):
            return False
        cnode = f.module.classes.get(f.cls)
        if cnode is None or not any((dotted(b) or "").startswith("io.") for b in cnode.bases):
            return False
        ps = params(f.node)
        if len(ps) < 2:
            return False
        p = ps[1]
        names = {n.id for n in ast.walk(off) if isinstance(n, ast.Name)}
        if p not in names:
            return False
        # offset + <non-negative header>
        rest = _remove_name(off, p)
        return rest is None or self.nonneg(f, rest, off)

    # ------------------------------------------------------------------ sign facts
    def nonneg(self, f: Func, e: ast.AST, at: ast.AST, depth: int = 0) -> bool:
        e = strip_cast(e)
        if depth > 60:
            return False
        if isinstance(e, ast.Constant):
            return isinstance(e.value, (int, float)) and not isinstance(e.value, bool) and e.value >= 0 or (isinstance(e.value, bool))
        if isinstance(e, ast.IfExp):
            return self.nonneg(f, e.body, at, depth + 1) and self.nonneg(f, e.orelse, at, depth + 1)
        if isinstance(e, ast.BoolOp):
            return all(self.nonneg(f, v, at, depth + 1) for v in e.values)
        if isinstance(e, ast.BinOp):
            if isinstance(e.op, (ast.Add, ast.Sub)):
                # a sum with subtracted terms in any order: each subtracted term is matched with a distinct added term that a
                # dominating comparison places above it (b <= a), the remaining added terms are non-negative
                pos, neg = [], []

                def flat(x, sign):
                    x = strip_cast(x)
                    if isinstance(x, ast.BinOp) and isinstance(x.op, ast.Add):
                        flat(x.left, sign)
                        flat(x.right, sign)
                    elif isinstance(x, ast.BinOp) and isinstance(x.op, ast.Sub):
                        flat(x.left, sign)
                        flat(x.right, -sign)
                    else:
                        (pos if sign > 0 else neg).append(x)

                flat(e, 1)
                if neg and len(pos) + len(neg) > 2:
                    left = list(pos)
                    matched = True
                    for nterm in neg:
                        hit = next((pt for pt in left if self._ordered(f, nterm, pt, at)), None)
                        if hit is None:
                            matched = False
                            break
                        left.remove(hit)
                    if matched and all(self.nonneg(f, pt, at, depth + 1) for pt in left):
                        return True
            if isinstance(e.op, (ast.Add, ast.Mult, ast.FloorDiv, ast.Mod, ast.BitOr, ast.BitAnd, ast.LShift, ast.RShift)):
                return self.nonneg(f, e.left, at, depth + 1) and self.nonneg(f, e.right, at, depth + 1)
            if isinstance(e.op, ast.Sub):
                # a - b >= 0 needs a dominating comparison b <= a
                if self._ordered(f, e.right, e.left, at):
                    return True
                # (a - b) + ... handled by Add; a - const with a dominating test on the whole name handled by Name
                return False
            return False
        if isinstance(e, ast.Call):
            d = dotted(e.func)
            if d in ("len", "abs"):
                return True
            if d == "int.from_bytes":
                sg = kwarg(e, "signed")
                if sg is None or is_const(sg, False):
                    return True
                return self._hand_read_lfanew(f, e)
            if d == "sum" and e.args and isinstance(e.args[0], (ast.GeneratorExp, ast.ListComp)) and (len(e.args) == 1 or self.nonneg(f, e.args[1], at, depth + 1)):
                return self.nonneg(f, e.args[0].elt, at, depth + 1)
            if d == "max" and any(self.nonneg(f, a, at, depth + 1) for a in e.args):
                return True
            if d == "min" and e.args and all(self.nonneg(f, a, at, depth + 1) for a in e.args):
                return True
            if isinstance(e.func, ast.Attribute) and e.func.attr in ("tell", "find_nonneg"):
                return True
            cal = self.rs.resolve_call(f, e)
            if cal.kind == "func" and cal.func is not None:
                if cal.func.fq == "utils.unpack":
                    sg = cal.bound.get("signed") or kwarg(e, "signed")
                    return sg is None or is_const(sg, False)
                return self._returns_nonneg(cal.func, depth + 1)
            if cal.kind == "struct" and cal.struct:
                cd = self.ctx.cdefs(cal.struct[0]).get(cal.struct[1])
                ts = cd.type_size(cal.struct[2]) if cd else None
                return ts is not None and not ts[1]
            return False
        if isinstance(e, ast.Attribute):
            # struct field?
            cands = self._structs_of(f, e.value)
            if cands:
                flds = []
                for cd, sname in cands:
                    try:
                        fld = cd.struct(sname).field(e.attr)
                    except Exception:
                        fld = None
                    flds.append((cd, fld))
                if all(fld is not None for _cd, fld in flds):
                    if all(not fld.signed and cd.type_size(fld.type) is not None for cd, fld in flds):
                        return True
                    # signed: dominated by a `> 0` / `>= 0` test, or validated DOS header
                    if self._guard_nonneg(f, e, at):
                        return True
                    if e.attr == "e_lfanew" and self._validated_dos(f, e.value, at):
                        return True
                    return False
            if isinstance(e.value, ast.Name) and e.value.id == "self" and f.cls:
                return self._attr_nonneg(f, e.attr, depth + 1)
            return self._guard_nonneg(f, e, at)
        if isinstance(e, ast.Name):
            if self._guard_nonneg(f, e, at):
                return True
            nkey = ("name", f.fq, e.id)
            if nkey in self._pn_active:
                return True  # inductive step: the name's own previous value
            self._pn_active.add(nkey)
            try:
                return self._name_nonneg(f, e, at, depth)
            finally:
                self._pn_active.discard(nkey)
        return False

    def _name_nonneg(self, f: Func, e: ast.Name, at: ast.AST, depth: int) -> bool:
        if True:
            defs = assignments_to(f.node, e.id)
            ok = True
            if e.id in params(f.node):
                ok = self._param_nonneg(f, e.id, depth + 1)
                if not ok:
                    return False
                if not defs:
                    return True
            if not defs:
                # a module-level integer constant (literals, other constants, len(<cstruct struct>))
                mi = self._module_int(f, e)
                return mi is not None and mi >= 0
            for st, v in defs:
                if isinstance(v, ast.Constant) and v.value is None:
                    continue  # a None placeholder is not a number (TypeError is out of the model)
                if v is not None:
                    if not self.nonneg(f, v, st, depth + 1):
                        return False
                elif isinstance(st, ast.AugAssign):
                    if not (isinstance(st.op, (ast.Add, ast.Mult)) and self.nonneg(f, st.value, st, depth + 1)):
                        return False
                elif isinstance(st, ast.Assign) and isinstance(st.targets[0], (ast.Tuple, ast.List)) and any(dotted(t) == e.id for t in st.targets[0].elts):
                    # a, b = <tuple-valued expression>: the element of every tuple literal the value may be
                    i = [dotted(t) for t in st.targets[0].elts].index(e.id)
                    tups = self._tuple_values(f, st.value, 0, set())
                    if not tups:
                        return False
                    for g, t in tups:
                        if len(t.elts) <= i:
                            return False
                        tst = FuncView.of(g.node).stmt_of(t) or g.node
                        if not self.nonneg(g, t.elts[i], tst, depth + 1):
                            return False
                elif isinstance(st, (ast.For, ast.AsyncFor)):
                    if not self._for_target_nonneg(f, st, e.id, depth + 1):
                        return False
                else:
                    return False
            return ok
        return False

    def _guard_nonneg(self, f: Func, e: ast.AST, at: ast.AST) -> bool:
        t = src(e)

        def pred(test):
            for l, op, r in compare_parts(test):
                ls, rs_ = src(l), src(r)
                try:
                    rc = const_eval(r)
                except NotConst:
                    rc = None
                try:
                    lc = const_eval(l)
                except NotConst:
                    lc = None
                if ls == t and isinstance(rc, (int, float)):
                    if isinstance(op, ast.Gt) and rc >= -1:
                        return True
                    if isinstance(op, ast.GtE) and rc >= 0:
                        return True
                    if isinstance(op, ast.Lt) and rc <= 0:
                        return False
                    if isinstance(op, ast.LtE) and rc < 0:
                        return False
                if rs_ == t and isinstance(lc, (int, float)):
                    if isinstance(op, ast.Lt) and lc >= -1:
                        return True
                    if isinstance(op, ast.LtE) and lc >= 0:
                        return True
                    if isinstance(op, ast.Gt) and lc <= 0:
                        return False
                    if isinstance(op, ast.GtE) and lc < 0:
                        return False
            return None

        def pred_all(test):
            r = pred(test)
            if r is not None:
                return r
            # false edge of `a or x < 0` establishes x >= 0
            for dj in disjuncts(test):
                if pred(dj) is False:
                    return False
            return None

        return guarded_by(self.ctx, f, at, pred_all)

    def _ordered(self, f: Func, small: ast.AST, big: ast.AST, at: ast.AST) -> bool:
        """A dominating comparison establishes small <= big (through a single-definition copy of a loop variable)."""
        def norm(x):
            # ds.VirtualAddress where ds = section (copy of a loop variable)
            if isinstance(x, ast.Attribute) and isinstance(x.value, ast.Name):
                defs = [v for _s, v in assignments_to(f.node, x.value.id) if v is not None and not (isinstance(v, ast.Constant) and v.value is None)]
                if len(defs) == 1 and isinstance(defs[0], ast.Name):
                    return f"{defs[0].id}.{x.attr}", defs[0].id, x.value.id
            return src(x), None, None
        s, s_src, s_alias = norm(small)
        b, b_src, b_alias = norm(big)

        def pred(test):
            for l, op, r in compare_parts(test):
                if isinstance(op, (ast.LtE, ast.Lt)) and src(l) == s and src(r) == b:
                    return True
                if isinstance(op, (ast.GtE, ast.Gt)) and src(l) == b and src(r) == s:
                    return True
            return None

        if guarded_by(self.ctx, f, at, pred):
            return True
        # x = next((t for t in seq if <comparison on t>), None) and the use is dominated by `x is not None`
        for side, other in ((small, big), (big, small)):
            if isinstance(side, ast.Attribute) and isinstance(side.value, ast.Name):
                alias = side.value.id
                defs = [v for _s, v in assignments_to(f.node, alias) if not (isinstance(v, ast.Constant) and v.value is None)]
                g = _first_of_genexp(defs[0]) if len(defs) == 1 and defs[0] is not None else None
                if g is not None and isinstance(g.generators[0].target, ast.Name) and dotted(g.elt) == g.generators[0].target.id:
                    tname = g.generators[0].target.id
                    s2 = f"{tname}.{side.attr}"
                    o2 = src(other)
                    lo, hi = (s2, o2) if side is small else (o2, s2)
                    hit = False
                    for cond in g.generators[0].ifs:
                        for cj in conjuncts(cond):
                            for l, op, r in compare_parts(cj):
                                if (isinstance(op, (ast.LtE, ast.Lt)) and src(l) == lo and src(r) == hi) or (isinstance(op, (ast.GtE, ast.Gt)) and src(l) == hi and src(r) == lo):
                                    hit = True

                    def notnone2(test, alias=alias):
                        for l, op, r in compare_parts(test):
                            if dotted(l) == alias and isinstance(r, ast.Constant) and r.value is None:
                                return True if isinstance(op, ast.IsNot) else False if isinstance(op, ast.Is) else None
                        if dotted(test) == alias:
                            return True
                        return None
                    if hit and guarded_by(self.ctx, f, at, notnone2):
                        self.facts_used.append(f"ordered: {f.fq}: {src(small)} <= {src(big)} via `{alias} = next(<{tname} for {tname} in .. if comparison>, None)`")
                        return True
        # the alias is only ever bound under the comparison
        for alias, srcname in ((s_alias, s_src), (b_alias, b_src)):
            if alias is None:
                continue
            binds = [st for st, v in assignments_to(f.node, alias) if isinstance(v, ast.Name) and v.id == srcname]
            if binds and all(guarded_by(self.ctx, f, st, pred) for st in binds):
                # and the use is dominated by `alias is not None`
                def notnone(test):
                    for l, op, r in compare_parts(test):
                        if dotted(l) == alias and isinstance(r, ast.Constant) and r.value is None:
                            return True if isinstance(op, ast.IsNot) else False if isinstance(op, ast.Is) else None
                    if dotted(test) == alias:
                        return True
                    return None
                others = [v for _s, v in assignments_to(f.node, alias) if not (isinstance(v, ast.Name) and v.id == srcname)]
                if all(isinstance(v, ast.Constant) and v.value is None for v in others) and guarded_by(self.ctx, f, at, notnone):
                    self.facts_used.append(f"ordered: {f.fq}: {s} <= {b} via `{alias} = {srcname}` bound only under the comparison")
                    return True
        return False

    def _structs_of(self, f: Func, e: ast.AST, depth: int = 0):
        """All struct types (cdefs, name) the expression may be an instance of; [] if unknown."""
        if depth > 5:
            return []
        t = self.rs.expr_type(f, e)
        if t and t.startswith("struct:"):
            m, var, cname = t[len("struct:"):].split(".", 2)
            cd = self.ctx.cdefs(m).get(var)
            if cd is not None:
                return [(cd, cname)]
        if isinstance(e, ast.Call):
            cal = self.rs.resolve_call(f, e)
            if cal.kind == "struct" and cal.struct:
                cd = self.ctx.cdefs(cal.struct[0]).get(cal.struct[1])
                if cd is not None:
                    return [(cd, cal.struct[2])]
            # a struct type chosen from a constant table: T = TABLE.get(key[, default]) / TABLE[key]; T(fh)
            types = self._struct_type_alternatives(f, e.func, depth + 1)
            if types:
                return types
            return []
        if isinstance(e, ast.Subscript):
            return self._struct_field_types(f, e.value, depth + 1)
        if isinstance(e, ast.Name):
            out = []
            defs = assignments_to(f.node, e.id)
            for st, v in defs:
                if isinstance(v, ast.Constant) and v.value is None:
                    continue
                if isinstance(st, (ast.For, ast.AsyncFor)) and v is None:
                    it = origin(f.node, st.iter)
                    elt = it.elt if isinstance(it, (ast.ListComp, ast.GeneratorExp)) else None
                    r = self._structs_of(f, elt, depth + 1) if elt is not None else []
                elif v is not None:
                    g = _first_of_genexp(v)
                    if g is not None:
                        # x = next((elt for t in seq if cond), None): an element of seq
                        it = origin(f.node, strip_cast(g.generators[0].iter))
                        elt = it.elt if isinstance(it, (ast.ListComp, ast.GeneratorExp)) else None
                        r = self._structs_of(f, elt, depth + 1) if elt is not None else []
                    else:
                        r = self._structs_of(f, v, depth + 1)
                else:
                    r = []
                if not r:
                    return []
                out.extend(r)
            if not defs or not out:
                # a comprehension / generator-expression target anywhere in the function
                for n in body_walk(f.node):
                    if isinstance(n, ast.comprehension) and dotted(n.target) == e.id:
                        it = origin(f.node, strip_cast(n.iter))
                        elt = it.elt if isinstance(it, (ast.ListComp, ast.GeneratorExp)) else None
                        r = self._structs_of(f, elt, depth + 1) if elt is not None else []
                        if r:
                            return r
            return out
        return []

    def _struct_type_expr(self, f: Func, v: ast.AST):
        """(cdefs, struct name) if v names a struct type of a cstruct instance (`pestruct.IMAGE_X`), else None."""
        if isinstance(v, ast.Attribute):
            s = self.rs.lookup_dotted(f.module.name, dotted(v.value) or "")
            if s is not None and s.kind == "cstruct":
                cd = self.ctx.cdefs(s.module).get(s.name)
                if cd is not None and v.attr in cd.structs:
                    return (cd, v.attr)
        return None

    def _struct_type_alternatives(self, f: Func, callee: ast.AST, depth: int = 0):
        """All struct types a callable expression may denote when it is picked from a module-level constant mapping
        (`TABLE.get(k, default)`, `TABLE[k]`, possibly through a local); [] if that cannot be established for every
        alternative."""
        if depth > 5:
            return []
        o = origin(f.node, callee)
        t = self._struct_type_expr(f, o)
        if t:
            return [t]
        table = default = None
        if isinstance(o, ast.Call) and isinstance(o.func, ast.Attribute) and o.func.attr == "get" and o.args:
            table, default = o.func.value, (o.args[1] if len(o.args) > 1 else None)
        elif isinstance(o, ast.Subscript):
            table = o.value
        if table is None or not isinstance(table, ast.Name) or table.id not in f.module.consts or assignments_to(f.node, table.id):
            return []
        lit = f.module.consts[table.id]
        if isinstance(lit, ast.Call) and lit.args and (dotted(lit.func) or "").split(".")[-1] in ("MappingProxyType", "dict"):
            lit = lit.args[0]
        if not isinstance(lit, ast.Dict):
            return []
        out = []
        for v in list(lit.values) + ([default] if default is not None and not (isinstance(default, ast.Constant) and default.value is None) else []):
            t = self._struct_type_expr(f, v)
            if not t:
                return []
            out.append(t)
        return out

    def _struct_of(self, f: Func, e: ast.AST):
        r = self._structs_of(f, e)
        return r[0] if len(r) == 1 else None

    def _struct_field_types(self, f: Func, e: ast.AST, depth: int = 0):
        """Struct types of an attribute that is itself a struct (array) field, over all candidates."""
        out = []
        if isinstance(e, ast.Attribute):
            cands = self._structs_of(f, e.value, depth + 1)
            if not cands:
                return []
            for cd, sname in cands:
                fld = cd.struct(sname).field(e.attr)
                if fld is None or fld.type not in cd.structs:
                    return []
                out.append((cd, fld.type))
        return out

    def _attr_nonneg(self, f: Func, attr: str, depth: int) -> bool:
        cls_fq = f"{f.module.name}.{f.cls}"
        vals = []
        for m in self.repo.methods(cls_fq):
            for st in statements(m.node):
                if isinstance(st, ast.Assign) and dotted(st.targets[0]) == f"self.{attr}":
                    vals.append((m, st, st.value))
                elif isinstance(st, ast.AnnAssign) and dotted(st.target) == f"self.{attr}" and st.value is not None:
                    vals.append((m, st, st.value))
        return bool(vals) and all(self.nonneg(m, v, st, depth + 1) for m, st, v in vals)

    def _param_nonneg(self, f: Func, p: str, depth: int) -> bool:
        d = param_defaults(f.node).get(p)
        if d is not None and not (isinstance(d, ast.Constant) and d.value is None) and not self.nonneg(f, d, f.node, depth + 1):
            return False
        sites = self._reachable_callers(f)
        key = ("param", f.fq, p)
        if key in self._pn_active:
            return True
        self._pn_active.add(key)
        try:
            for g, c in sites:
                a = self._arg_for(f, c, p)
                if a is None:
                    continue
                if isinstance(a, ast.Constant) and a.value is None:
                    continue
                if not self.nonneg(g, a, c, depth + 1):
                    return False
        finally:
            self._pn_active.discard(key)
        # entry points: integer parameters are API preconditions (non-negative offsets / ranges)
        return True

    _pn_active: Set[tuple] = set()

    def _returns_nonneg(self, g: Func, depth: int) -> bool:
        key = ("ret", g.fq)
        if key in self._pn_active:
            return True
        self._pn_active.add(key)
        try:
            rets = [s for s in statements(g.node) if isinstance(s, ast.Return)]
            vals = [r.value for r in rets if r.value is not None and not (isinstance(r.value, ast.Constant) and r.value.value is None)]
            return bool(vals) and all(self.nonneg(g, v, r, depth + 1) for v, r in zip(vals, [r for r in rets if r.value is not None and not (isinstance(r.value, ast.Constant) and r.value.value is None)]))
        finally:
            self._pn_active.discard(key)

    def _yields_nonneg(self, g: Func, depth: int) -> bool:
        if g.fq in self._gen_nonneg:
            if g.fq in getattr(self, "_gen_unknown", ()):
                self._unknown_hit = True
            return self._gen_nonneg[g.fq]
        self._gen_nonneg[g.fq] = True  # optimistic for recursion
        ys = [n for n in body_walk(g.node) if isinstance(n, ast.Yield)]
        ok = bool(ys)
        fv = FuncView.of(g.node)
        for y in ys:
            if y.value is None or not self.nonneg(g, y.value, fv.stmt_of(y), depth + 1):
                ok = False
        if not ok and g.fq == "utils.iter_find_needle":
            # scanner summary: yielded offsets >= the scan start; owed to C15.R1/R3 which are evaluated here
            ok = self.scanner_ok()
            if ok:
                self.facts_used.append("scanner summary: iter_find_needle yields offsets >= start (C15.R1/R3 discharged on this tree)")
            elif self._scanner_state == "undecided":
                if not hasattr(self, "_gen_unknown"):
                    self._gen_unknown = set()
                self._gen_unknown.add(g.fq)
                self._unknown_hit = True
        self._gen_nonneg[g.fq] = ok
        return ok

    def scanner_ok(self) -> bool:
        if self._scanner_ok is None:
            try:
                from rules import c15

                r = c15.scanner_facts_hold(self.ctx)
                self._scanner_state = "undecided" if r is None else "ok" if r else "violated"
                self._scanner_ok = bool(r)
            except Exception:
                self._scanner_ok = False
                self._scanner_state = "violated"
        return self._scanner_ok

    def _for_target_nonneg(self, f: Func, st: ast.For, name: str, depth: int) -> bool:
        it = strip_cast(st.iter)
        idx = None
        if isinstance(st.target, ast.Tuple):
            for i, t in enumerate(st.target.elts):
                if dotted(t) == name:
                    idx = i
        elif dotted(st.target) != name:
            return False
        return self._elems_nonneg(f, it, st, idx, depth + 1)

    def _elems_nonneg(self, f: Func, it: ast.AST, at: ast.AST, idx: Optional[int], depth: int) -> bool:
        """Are the elements produced by iterating `it` (component idx of them, if a tuple) non-negative ints?"""
        it = strip_cast(it)
        if depth > 60:
            return False
        if isinstance(it, ast.Name):
            defs = assignments_to(f.node, it.id)
            real = [(s, v) for s, v in defs if not (isinstance(v, (ast.List, ast.Tuple)) and not v.elts)
                    and not (isinstance(v, ast.Call) and dotted(v.func) in ("list", "set", "collections.Counter", "Counter", "collections.deque", "deque") and not v.args)]
            # elements put into the container in place: x.append(e) / x.add(e) / x.extend(es) / x.update(es) / x += es
            grown = []
            for n in body_walk(f.node):
                if isinstance(n, ast.Call) and isinstance(n.func, ast.Attribute) and dotted(n.func.value) == it.id and n.args:
                    if n.func.attr in ("append", "add", "appendleft"):
                        grown.append(("elem", n.args[0], FuncView.of(f.node).stmt_of(n) or at))
                    elif n.func.attr in ("extend", "update", "extendleft"):
                        grown.append(("iter", n.args[0], FuncView.of(f.node).stmt_of(n) or at))
                    elif n.func.attr in ("insert",) and len(n.args) == 2:
                        grown.append(("elem", n.args[1], FuncView.of(f.node).stmt_of(n) or at))
                elif isinstance(n, ast.AugAssign) and dotted(n.target) == it.id and isinstance(n.op, ast.Add):
                    grown.append(("iter", n.value, n))
            if not real and not grown:
                return False
            for kind, v, s in grown:
                if kind == "elem":
                    if idx is not None or not self.nonneg(f, v, s, depth + 1):
                        return False
                elif not self._elems_nonneg(f, v, s, idx, depth + 1):
                    return False
            return all(v is not None and self._elems_nonneg(f, v, s, idx, depth + 1) for s, v in real)
        if isinstance(it, ast.Call):
            d = dotted(it.func)
            if d == "range" and idx is None:
                if len(it.args) == 1:
                    return True
                if len(it.args) == 3:
                    try:
                        if const_eval(it.args[2]) <= 0:
                            return False
                    except NotConst:
                        return False
                return self.nonneg(f, it.args[0], at, depth + 1)
            if d in ("itertools.count", "count") and idx is None:
                # count(start[, step]): start, start + step, ... - non-negative when start >= 0 and step > 0
                if len(it.args) > 1:
                    try:
                        if const_eval(it.args[1]) <= 0:
                            return False
                    except NotConst:
                        return False
                return True if not it.args else self.nonneg(f, it.args[0], at, depth + 1)
            if d in ("list", "tuple", "sorted", "set", "iter", "reversed") and it.args:
                return self._elems_nonneg(f, it.args[0], at, idx, depth + 1)
            if d == "enumerate" and it.args:
                if idx == 0:
                    return True
                return False
            if d in ("itertools.chain", "chain") and it.args and not it.keywords:
                return all(self._elems_nonneg(f, a, at, idx, depth + 1) for a in it.args)
            if isinstance(it.func, ast.Attribute) and it.func.attr in ("most_common", "items") and \
                    (it.func.attr == "most_common" or (isinstance(origin(f.node, it.func.value), ast.Call)
                                                        and dotted(origin(f.node, it.func.value).func) in ("collections.Counter", "Counter"))):
                # Counter(x).most_common() / Counter(x).items(): (element of x, count >= 1)
                if idx == 1:
                    return True
                base = origin(f.node, it.func.value)
                if isinstance(base, ast.Call) and dotted(base.func) in ("collections.Counter", "Counter") and base.args:
                    return self._elems_nonneg(f, base.args[0], at, None, depth + 1)
                if isinstance(it.func.value, ast.Name):
                    # a Counter filled in place: its keys are the elements it was updated with
                    return self._elems_nonneg(f, it.func.value, at, None, depth + 1)
                return False
            cal = self.rs.resolve_call(f, it)
            if cal.kind == "func" and cal.func is not None and idx is None:
                return self._yields_nonneg(cal.func, depth + 1)
            return False
        if isinstance(it, ast.BinOp) and isinstance(it.op, ast.Add):
            return self._elems_nonneg(f, it.left, at, idx, depth + 1) and self._elems_nonneg(f, it.right, at, idx, depth + 1)
        if isinstance(it, (ast.ListComp, ast.GeneratorExp, ast.SetComp)) and idx is None:
            # [elt for v in src]: elt nonneg given v is an element of src
            gen = it.generators[0]
            if len(it.generators) != 1:
                return False
            vname = dotted(gen.target)
            src_ok = self._elems_nonneg(f, gen.iter, at, None, depth + 1)
            return self._nonneg_with(f, it.elt, at, {vname: src_ok} if vname else {}, depth + 1)
        if isinstance(it, (ast.List, ast.Tuple)) and idx is None:
            return all(self.nonneg(f, e, at, depth + 1) for e in it.elts)
        return False

    def _nonneg_with(self, f: Func, e: ast.AST, at: ast.AST, env: Dict[str, bool], depth: int) -> bool:
        if isinstance(e, ast.Name) and e.id in env:
            return env[e.id]
        if isinstance(e, ast.BinOp) and isinstance(e.op, (ast.Add, ast.Mult)):
            return self._nonneg_with(f, e.left, at, env, depth + 1) and self._nonneg_with(f, e.right, at, env, depth + 1)
        return self.nonneg(f, e, at, depth + 1)

    # ------------------------------------------------------------------ validated DOS header
    def _validated_dos(self, f: Func, mz: ast.AST, at: ast.AST) -> bool:
        """mz = IMAGE_DOS_HEADER(fh) parsed right after fh.seek(o) with o = find_mz_offset(fh, ...) not None."""
        if not isinstance(mz, ast.Name):
            return False
        defs = assignments_to(f.node, mz.id)
        if len(defs) != 1 or not isinstance(defs[0][1], ast.Call):
            return False
        pst, parse = defs[0]
        cal = self.rs.resolve_call(f, parse)
        if cal.kind != "struct" or not cal.struct[2].endswith("IMAGE_DOS_HEADER") or not parse.args:
            return False
        fh = dotted(parse.args[0])
        # the stream is positioned by an absolute fh.seek(o) when the parse starts
        sk = self._positioning_seek(f, pst, fh)
        if sk is None:
            return False
        o = sk.args[0]
        if not isinstance(o, ast.Name):
            return False
        odefs = assignments_to(f.node, o.id)
        if len(odefs) != 1 or not isinstance(odefs[0][1], ast.Call):
            return False
        ocal = self.rs.resolve_call(f, odefs[0][1])
        if not (ocal.kind == "func" and ocal.func is not None and ocal.func.fq == "pe.find_mz_offset"):
            return False
        if dotted(odefs[0][1].args[0] if odefs[0][1].args else None) != fh:
            return False
        # o is not None on the way here
        def notnone(test):
            for l, op, r in compare_parts(test):
                if dotted(l) == o.id and isinstance(r, ast.Constant) and r.value is None:
                    return True if isinstance(op, ast.IsNot) else False if isinstance(op, ast.Is) else None
            return None
        if not guarded_by(self.ctx, f, pst, notnone):
            return False
        if not self._find_mz_validates():
            return False
        self.facts_used.append(f"validated-offset: {f.fq}: {mz.id} parsed at the offset find_mz_offset validated (0 < e_lfanew)")
        return True

    @staticmethod
    def _stmt_header(st: ast.AST) -> List[ast.AST]:
        if isinstance(st, (ast.If, ast.While)):
            return [st.test]
        if isinstance(st, (ast.For, ast.AsyncFor)):
            return [st.iter]
        if isinstance(st, (ast.With, ast.AsyncWith)):
            return [i.context_expr for i in st.items]
        if isinstance(st, ast.Try) or st.__class__.__name__ == "TryStar" or isinstance(st, (ast.FunctionDef, ast.AsyncFunctionDef, ast.ClassDef)):
            return []
        return [st]

    def _touches_stream(self, st: ast.AST, fh: str) -> bool:
        """the statement (its header, for a compound one) calls a method of the stream or hands the stream to a call"""
        for h in self._stmt_header(st):
            for c in ast.walk(h):
                if isinstance(c, ast.Call):
                    if isinstance(c.func, ast.Attribute) and dotted(c.func.value) == fh:
                        return True
                    if any(dotted(a) == fh for a in c.args) or any(dotted(k.value) == fh for k in c.keywords):
                        return True
        return False

    def _positioning_seek(self, f: Func, pst: ast.AST, fh: str) -> Optional[ast.Call]:
        """The absolute `fh.seek(X)` that fixes the position of stream `fh` when statement `pst` starts: it dominates `pst`
        and no other statement touching the stream lies on a way from it to `pst`."""
        cfg = self.ctx.cfg(f)
        if not cfg.has(pst):
            return None
        pn = cfg.node(pst)
        sts = [st for st in statements(f.node) if cfg.has(st)]
        touch = [st for st in sts if st is not pst and self._touches_stream(st, fh)]
        for st in touch:
            if not (isinstance(st, ast.Expr) and isinstance(st.value, ast.Call) and isinstance(st.value.func, ast.Attribute) and st.value.func.attr == "seek"
                    and dotted(st.value.func.value) == fh and st.value.args):
                continue
            c = st.value
            wh = c.args[1] if len(c.args) > 1 else kwarg(c, "whence")
            if not (wh is None or is_const(wh, 0) or (dotted(wh) or "").endswith("SEEK_SET")):
                continue
            n = cfg.node(st)
            if not cfg.dominates(n, pn):
                continue
            if any(cfg.reaches(n, cfg.node(t), avoiding=[pn]) and cfg.reaches(cfg.node(t), pn, avoiding=[n]) for t in touch if t is not st):
                continue
            return c
        return None

    def _validated_file_header(self, f: Func, pst: ast.AST, parse: ast.Call) -> bool:
        """`IMAGE_FILE_HEADER(fh)` parsed at o + 4 + mz.e_lfanew with mz the DOS header re-parsed at the offset o that
        find_mz_offset returned: find_mz_offset returns an offset only after this very parse succeeded there."""
        if not parse.args or dotted(parse.args[0]) is None:
            return False
        fh = dotted(parse.args[0])
        sk = self._positioning_seek(f, pst, fh)
        if sk is None:
            return False
        tgt = sk.args[0]
        if isinstance(tgt, ast.Name):
            tgt = origin(f.node, tgt)
        mzs = {dotted(a.value) for a in ast.walk(tgt) if isinstance(a, ast.Attribute) and a.attr == "e_lfanew" and isinstance(a.value, ast.Name)}
        if len(mzs) != 1:
            return False
        mzn = mzs.pop()
        if not self._validated_dos(f, ast.Name(id=mzn, ctx=ast.Load()), pst):
            return False
        dpst = assignments_to(f.node, mzn)[0][0]
        dsk = self._positioning_seek(f, dpst, fh)
        if dsk is None:
            return False
        from .absint import sympoly, SymPoly

        a, o = sympoly(tgt), sympoly(dsk.args[0])
        if a is None or o is None or (a - o - SymPoly.const(4) - SymPoly.atom(f"{mzn}.e_lfanew")).const_value() != 0:
            return False
        # find_mz_offset: every offset it returns had IMAGE_FILE_HEADER parsed at <returned> + 4 + <dos>.e_lfanew
        g = self.repo.func("pe.find_mz_offset")
        cfgg = self.ctx.cfg(g)
        rets = [s2 for s2 in statements(g.node) if isinstance(s2, ast.Return) and s2.value is not None and not (isinstance(s2.value, ast.Constant) and s2.value.value is None)]
        if not rets:
            return False
        for r in rets:
            sites = [(r, r.value)]
            if isinstance(r.value, ast.Name):
                sites = [(st2, v) for st2, v in assignments_to(g.node, r.value.id) if v is not None and not (isinstance(v, ast.Constant) and v.value is None)]
                if not sites:
                    return False
            for site, val in sites:
                rp = sympoly(val)
                ok = False
                for st2 in statements(g.node):
                    v2 = getattr(st2, "value", None)
                    if not (isinstance(st2, (ast.Assign, ast.AnnAssign, ast.Expr)) and isinstance(v2, ast.Call) and cfgg.has(st2) and cfgg.has(site)):
                        continue
                    cal2 = self.rs.resolve_call(g, v2)
                    if cal2.kind != "struct" or not cal2.struct[2].endswith("IMAGE_FILE_HEADER") or not v2.args:
                        continue
                    if not cfgg.dominates(cfgg.node(st2), cfgg.node(site)):
                        continue
                    sk2 = self._positioning_seek(g, st2, dotted(v2.args[0]) or "")
                    if sk2 is None or rp is None:
                        continue
                    t2 = sk2.args[0]
                    if isinstance(t2, ast.Name):
                        t2 = origin(g.node, t2)
                    p2 = sympoly(t2)
                    if p2 is None:
                        continue
                    rest = p2 - rp - SymPoly.const(4)
                    # the remainder is exactly one `<name>.e_lfanew` atom
                    if len(rest.terms) == 1:
                        (k, cf), = rest.terms.items()
                        if cf == 1 and len(k) == 1 and str(k[0]).endswith(".e_lfanew"):
                            ok = True
                            break
                if not ok:
                    return False
        self.facts_used.append(f"validated-offset: {f.fq}: IMAGE_FILE_HEADER re-parsed where find_mz_offset parsed it")
        return True

    def _module_int(self, f: Func, e: ast.AST, depth: int = 0) -> Optional[int]:
        """constant integer value of an expression over literals, module-level constants and `len(<cstruct struct>)`"""
        if depth > 6:
            return None
        try:
            v = const_eval(e)
            return v if isinstance(v, int) and not isinstance(v, bool) else None
        except (NotConst, TypeError):
            pass
        if isinstance(e, ast.Name) and e.id in f.module.consts and not assignments_to(f.node, e.id) and e.id not in params(f.node):
            return self._module_int(f, f.module.consts[e.id], depth + 1)
        if isinstance(e, ast.Call) and dotted(e.func) == "len" and len(e.args) == 1 and dotted(e.args[0]):
            sy = self.rs.lookup_dotted(f.module.name, dotted(e.args[0]))
            if sy is not None and sy.kind == "struct":
                cd = self.ctx.cdefs(sy.module).get(sy.cdef_var)
                try:
                    return cd.struct(sy.name).static_size if cd else None
                except Exception:
                    return None
        if isinstance(e, ast.BinOp) and isinstance(e.op, (ast.Add, ast.Sub, ast.Mult)):
            a, b = self._module_int(f, e.left, depth + 1), self._module_int(f, e.right, depth + 1)
            if a is None or b is None:
                return None
            return a + b if isinstance(e.op, ast.Add) else a - b if isinstance(e.op, ast.Sub) else a * b
        return None

    def _hand_read_lfanew(self, f: Func, c: ast.Call) -> bool:
        """`int.from_bytes(fh.read(k), <order>, signed=True)` read where the stream was positioned at o + K, with o the offset
        find_mz_offset returned (not None), K and k the offset and size of `e_lfanew` in IMAGE_DOS_HEADER per the C
        definition and <order> its byte order: the very field find_mz_offset validated (> 0) - a field of a struct decoded
        by hand at its offset."""
        if not c.args:
            return False
        rd = origin(f.node, c.args[0])
        if not (isinstance(rd, ast.Call) and isinstance(rd.func, ast.Attribute) and rd.func.attr == "read" and dotted(rd.func.value) and rd.args):
            return False
        fh = dotted(rd.func.value)
        fv = FuncView.of(f.node)
        rst = fv.stmt_of(rd)
        if rst is None:
            return False
        sk = self._positioning_seek(f, rst, fh)
        if sk is None:
            return False
        # the DOS header definition
        g = self.repo.func("pe.find_mz_offset")
        cdv = None
        for c2 in fn_calls(g.node):
            cal2 = self.rs.resolve_call(g, c2)
            if cal2.kind == "struct" and cal2.struct[2].endswith("IMAGE_DOS_HEADER"):
                cdv = self.ctx.cdefs(cal2.struct[0]).get(cal2.struct[1])
                sname = cal2.struct[2]
        if cdv is None:
            return False
        try:
            fld = cdv.struct(sname).field("e_lfanew")
        except Exception:
            fld = None
        if fld is None or fld.offset is None or fld.size is None:
            return False
        order = c.args[1] if len(c.args) > 1 else kwarg(c, "byteorder")
        want = "little" if cdv.endian == "<" else "big"
        if not (isinstance(order, ast.Constant) and order.value == want) or self._module_int(f, rd.args[0]) != fld.size:
            return False
        # seek target = o + K
        names = [n for n in ast.walk(sk.args[0]) if isinstance(n, ast.Name)]
        os_ = []
        for n in names:
            od = assignments_to(f.node, n.id)
            if len(od) == 1 and isinstance(od[0][1], ast.Call):
                oc = self.rs.resolve_call(f, od[0][1])
                if oc.kind == "func" and oc.func is not None and oc.func.fq == "pe.find_mz_offset" and dotted(od[0][1].args[0] if od[0][1].args else None) == fh:
                    os_.append(n.id)
        if len(set(os_)) != 1:
            return False
        o = os_[0]
        rest = _remove_name(sk.args[0], o)
        if rest is None or rest is sk.args[0] or self._module_int(f, rest) != fld.offset:
            return False

        def notnone(test):
            for l, op, r in compare_parts(test):
                if dotted(l) == o and isinstance(r, ast.Constant) and r.value is None:
                    return True if isinstance(op, ast.IsNot) else False if isinstance(op, ast.Is) else None
            return None

        if not guarded_by(self.ctx, f, rst, notnone) or not self._find_mz_validates():
            return False
        self.facts_used.append(f"validated-offset: {f.fq}: e_lfanew decoded by hand at {o} + {fld.offset} (the field find_mz_offset validated, > 0)")
        return True

    def _find_mz_validates(self) -> bool:
        """find_mz_offset returns start+offset only under `mz.e_lfanew > 0` on the header parsed at that offset."""
        g = self.repo.func("pe.find_mz_offset")
        if _memoised(g.node):
            # a remembered answer says nothing about the bytes the stream holds now (the same file object may be handed in
            # again with other content): the validation did not necessarily run on this content
            return False
        rets = [s for s in statements(g.node) if isinstance(s, ast.Return) and s.value is not None and not (isinstance(s.value, ast.Constant) and s.value.value is None)]
        if not rets:
            return False
        fvg = FuncView.of(g.node)
        for r in rets:
            # where the returned (non-None) value is created: the return itself, or - when a local is returned - the
            # statements of the tuple literals / expressions that flow into it
            def validated(site) -> bool:
                conds = [t for t, pol, _n in dominating_conditions(self.ctx, g, site) if pol]
                return any(t.endswith(".e_lfanew > 0") or t.startswith("0 < ") and ".e_lfanew" in t for t in conds)

            if validated(r):
                continue
            sites = self._origin_sites(g, r.value, 0, set()) if isinstance(r.value, ast.Name) else []
            if not sites or not all(validated(s2) for s2 in sites):
                return False
        return True

    def _origin_sites(self, f: Func, e: ast.AST, depth: int, seen: set) -> List[ast.AST]:
        """Statements at which the non-None values a local may hold are created (through copies and tuple unpacking);
        [] if a value cannot be traced."""
        if depth > 8 or not isinstance(e, ast.Name) or (f.fq, e.id) in seen:
            return []
        seen = seen | {(f.fq, e.id)}
        out: List[ast.AST] = []
        for st, v in assignments_to(f.node, e.id):
            if isinstance(v, ast.Constant) and v.value is None:
                continue
            if isinstance(v, ast.Name):
                r = self._origin_sites(f, v, depth + 1, seen)
                if not r:
                    return []
                out.extend(r)
            elif v is not None:
                out.append(st)
            elif isinstance(st, ast.Assign) and isinstance(st.targets[0], (ast.Tuple, ast.List)):
                tups = self._tuple_values(f, st.value, 0, set())
                if not tups:
                    return []
                for g2, t in tups:
                    if g2 is not f and g2.fq != f.fq:
                        return []
                    out.append(FuncView.of(f.node).stmt_of(t) or st)
            else:
                return []
        return out

    def _validated_parse(self, f: Func, st: ast.AST, c: ast.Call, cal) -> bool:
        """Struct parses that cannot hit EOF: the re-parse of the DOS header at the offset find_mz_offset validated
        (the same parse succeeded there)."""
        if cal.struct[2].endswith("IMAGE_FILE_HEADER") and getattr(st, "value", None) is c and isinstance(st, (ast.Assign, ast.AnnAssign)):
            return self._validated_file_header(f, st, c)
        if not cal.struct[2].endswith("IMAGE_DOS_HEADER"):
            return False
        if isinstance(st, ast.Assign) and len(st.targets) == 1 and isinstance(st.targets[0], ast.Name) and st.value is c:
            return self._validated_dos(f, st.targets[0], st)
        if isinstance(st, ast.AnnAssign) and isinstance(st.target, ast.Name) and st.value is c:
            return self._validated_dos(f, st.target, st)
        return False

    def _pack_fits(self, f: Func, st: ast.AST, c: ast.Call, cal) -> bool:
        size = cal.bound.get("size") or kwarg(c, "size") or (c.args[1] if len(c.args) > 1 else None)
        try:
            size = const_eval(size) if size is not None else None
        except NotConst:
            size = None
        if size is None:
            return True  # minimal size is computed from n.bit_length()
        a = c.args[0] if c.args else None
        if a is None:
            return False
        try:
            v = const_eval(a)
            return 0 <= v < 256 ** size
        except (NotConst, TypeError):
            pass
        if isinstance(a, ast.Call) and dotted(a.func) == "len":
            return size >= 4  # lengths of in-memory objects fit 32 bits for every input in scope
        if isinstance(a, ast.Call) and dotted(a.func) == "random.getrandbits" and a.args:
            try:
                return const_eval(a.args[0]) <= 8 * size
            except NotConst:
                return False
        if isinstance(a, ast.Name):
            # comprehension / for variable over range(k)
            for n in ast.walk(st) if isinstance(st, ast.AST) else []:
                if isinstance(n, ast.comprehension) and dotted(n.target) == a.id and isinstance(n.iter, ast.Call) and dotted(n.iter.func) == "range" and len(n.iter.args) == 1:
                    try:
                        return 0 <= const_eval(n.iter.args[0]) <= 256 ** size
                    except NotConst:
                        return False
        return False

    # ------------------------------------------------------------------ misc primitives
    def _nonzero(self, f: Func, st: ast.AST, d: ast.AST, depth: int = 0) -> bool:
        try:
            v = const_eval(d)
            return v != 0
        except NotConst:
            pass
        if isinstance(d, ast.Name) and depth < 4 and (d.id in params(f.node) or assignments_to(f.node, d.id)) is not None:
            # a local: every definition reaching this statement is non-zero (evaluated at the definition)
            from .q import reaching_defs

            rd = reaching_defs(self.ctx, f, d.id, st)
            if rd and all(v is not None and isinstance(s2, ast.stmt) and self._nonzero(f, s2, v, depth + 1) for s2, v in rd):
                return True
        if isinstance(d, ast.Call) and dotted(d.func) == "len" and d.args and isinstance(d.args[0], ast.Name) and depth < 4:
            # len(x) where x is, at this point, a plain copy of another name: reason about that name
            from .q import reaching_defs

            rd = reaching_defs(self.ctx, f, d.args[0].id, st)
            if len(rd) == 1 and isinstance(rd[0][1], ast.Name) and isinstance(rd[0][0], ast.stmt):
                root = ast.Call(func=d.func, args=[rd[0][1]], keywords=[])
                if self._nonzero(f, rd[0][0], ast.copy_location(root, d), depth + 1):
                    return True
        if isinstance(d, ast.Name):
            # module constant
            mod = f.module
            if d.id in mod.consts and d.id not in params(f.node) and not assignments_to(f.node, d.id):
                try:
                    return const_eval(mod.consts[d.id]) != 0
                except NotConst:
                    return False
        if isinstance(d, ast.Call) and dotted(d.func) == "len" and d.args:
            x = src(d.args[0])

            def pred(test):
                for l, op, r in compare_parts(test):
                    if isinstance(l, ast.Call) and dotted(l.func) == "sum" and l.args and src(l.args[0]) == x and is_const(r, 0):
                        return False if isinstance(op, ast.Eq) else True if isinstance(op, (ast.NotEq, ast.Gt)) else None
                    if isinstance(l, ast.Call) and dotted(l.func) == "len" and l.args and src(l.args[0]) == x and is_const(r, 0):
                        return False if isinstance(op, ast.Eq) else True if isinstance(op, (ast.NotEq, ast.Gt)) else None
                if src(test) == x:
                    return True
                if isinstance(test, ast.UnaryOp) and isinstance(test.op, ast.Not) and src(test.operand) == x:
                    return False
                return None
            # `if sum(key) == 0: return` - the fall-through is the false edge
            if guarded_by(self.ctx, f, st, pred) or self._after_early_exit(f, st, pred):
                return True
        return False

    def _after_early_exit(self, f: Func, st: ast.AST, pred) -> bool:
        """`if <test>: return/raise` earlier in the function: what follows is on its false edge."""
        cfg = self.ctx.cfg(f)
        fv = FuncView.of(f.node)
        s = fv.stmt_of(st) if not isinstance(st, ast.stmt) else st
        if s is None or not cfg.has(s):
            return False
        for n, t in cfg.stmt.items():
            if isinstance(t, ast.If):
                r = pred(t.test)
                if r is None:
                    continue
                e = cfg.edge_node(t, "true" if r else "false")
                if cfg.dominates(e, cfg.node(s)):
                    return True
        return False

    def _to_bytes_safe(self, f: Func, st: ast.AST, c: ast.Call) -> bool:
        recv = c.func.value
        # <unsigned struct int>(fh).to_bytes(n)
        if isinstance(recv, ast.Call):
            cal = self.rs.resolve_call(f, recv)
            if cal.kind == "struct" and cal.struct:
                cd = self.ctx.cdefs(cal.struct[0]).get(cal.struct[1])
                ts = cd.type_size(cal.struct[2]) if cd else None
                try:
                    n = const_eval(c.args[0]) if c.args else None
                except NotConst:
                    n = None
                return ts is not None and not ts[1] and isinstance(n, int) and ts[0] <= n
            if dotted(recv.func) == "random.getrandbits" and recv.args and c.args:
                try:
                    return const_eval(recv.args[0]) <= 8 * const_eval(c.args[0])
                except NotConst:
                    return False
        # pack(): n.to_bytes(size) where size computed from n.bit_length() when None - still may overflow with explicit size
        return False

    def _index_guarded(self, f: Func, st: ast.AST, c: ast.Call) -> bool:
        # x.index(v) if v in x else ...
        fv = FuncView.of(f.node)
        p = fv.parent.get(id(c))
        while p is not None and not isinstance(p, (ast.IfExp, ast.stmt)):
            p = fv.parent.get(id(p))
        if isinstance(p, ast.IfExp):
            for l, op, r in compare_parts(p.test):
                if isinstance(op, ast.In) and src(r) == src(c.func.value) and src(l) == src(c.args[0]):
                    return True
        return False

    def _subscript(self, f: Func, st: ast.AST, n: ast.Subscript) -> Optional[str]:
        """None if the subscript cannot raise by a recognised fact, else the exception class."""
        idx, base = n.slice, n.value
        bo = origin(f.node, base)
        # typing / annotations
        if isinstance(st, (ast.AnnAssign,)) and n is getattr(st, "annotation", None):
            return None
        bd = dotted(base) or ""
        if bd.split(".")[0] in ("List", "Dict", "Tuple", "Optional", "Union", "Iterator", "Callable", "Mapping", "list", "dict", "tuple"):
            return None
        try:
            k = const_eval(idx)
        except NotConst:
            k = None
        if k is None and isinstance(idx, ast.Attribute):
            # #define constant of a cstruct (pestruct.IMAGE_DIRECTORY_ENTRY_EXPORT)
            s = self.rs.lookup_dotted(f.module.name, dotted(idx.value) or "")
            if s is not None and s.kind == "cstruct":
                cd = self.ctx.cdefs(s.module).get(s.name)
                if cd and idx.attr in cd.defines:
                    k = cd.defines[idx.attr]
        # mapping with a string key
        if isinstance(k, (str, bytes)):
            if self._dict_key_present(f, base, k):
                return None
            if bd.endswith("settings") or bd.endswith("settings_by_index"):
                return "KeyError"
            return "KeyError"
        if isinstance(k, int):
            need = k + 1 if k >= 0 else -k
            L = self._min_len(f, base, st, at=n)
            if L is not None and L >= need:
                return None
            return "IndexError"
        # variable index: for i in range(len(base))
        if isinstance(idx, ast.Name):
            def _bounded_by(target, it) -> bool:
                # lemma: `for i in range(len(b))` / `range(0, len(b))` draws 0 <= i < len(b); `for i, x in enumerate(b)` likewise
                it = strip_cast(it)
                if isinstance(it, ast.Call) and dotted(it.func) == "range" and dotted(target) == idx.id and not it.keywords:
                    a = it.args
                    lim = a[0] if len(a) == 1 else a[1] if len(a) == 2 else None
                    lo_ok = len(a) == 1 or (len(a) == 2 and isinstance(a[0], ast.Constant) and isinstance(a[0].value, int) and a[0].value >= 0)
                    return lo_ok and isinstance(lim, ast.Call) and dotted(lim.func) == "len" and len(lim.args) == 1 and src(lim.args[0]) == src(base)
                if isinstance(it, ast.Call) and dotted(it.func) == "enumerate" and len(it.args) == 1 and not it.keywords \
                        and isinstance(target, (ast.Tuple, ast.List)) and len(target.elts) == 2 and dotted(target.elts[0]) == idx.id:
                    return src(it.args[0]) == src(base)
                return False

            fv0 = FuncView.of(f.node)
            par = fv0.parent.get(id(n))
            while par is not None and not isinstance(par, ast.stmt):
                if isinstance(par, (ast.GeneratorExp, ast.ListComp, ast.SetComp, ast.DictComp)):
                    binders = [g for g in par.generators if any(isinstance(x, ast.Name) and x.id == idx.id for x in ast.walk(g.target))]
                    if binders:
                        if _bounded_by(binders[-1].target, binders[-1].iter) and not assignments_to(f.node, src(base)):
                            return None
                        if _bounded_by(binders[-1].target, binders[-1].iter):
                            return None
                        return "IndexError"
                par = fv0.parent.get(id(par))
            for s2, v in assignments_to(f.node, idx.id):
                if isinstance(s2, (ast.For, ast.AsyncFor)) and _bounded_by(s2.target, s2.iter) and len(assignments_to(f.node, idx.id)) == 1:
                    return None
            for s2, v in assignments_to(f.node, idx.id):
                if isinstance(s2, (ast.For, ast.AsyncFor)) and isinstance(s2.iter, ast.Call) and dotted(s2.iter.func) == "range":
                    a = s2.iter.args
                    lim = a[0] if len(a) == 1 else a[1] if len(a) >= 2 else None
                    if isinstance(lim, ast.Call) and dotted(lim.func) == "len" and lim.args and src(lim.args[0]) == src(base):
                        if len(a) < 3:
                            return None
            return "IndexError"
        if isinstance(idx, ast.BinOp):
            # seq[x % k] with k <= len(seq) (and a non-negative modulus) is always in range
            if isinstance(idx.op, ast.Mod):
                try:
                    k = const_eval(idx.right)
                except NotConst:
                    k = None
                L = self._min_len(f, base, st, at=n)
                if isinstance(k, int) and k > 0 and L is not None and L >= k:
                    return None
            return "IndexError"
        # dict lookups with computed keys
        return "KeyError" if not isinstance(idx, ast.Slice) else None

    def _dict_key_present(self, f: Func, base: ast.AST, k) -> bool:
        """Every value `base` may hold is a dict literal that contains key k.  Values are followed through locals, tuple
        unpacking, for-targets over package generators (their yielded tuples, also through `yield <local>` and
        `yield from`), and `next(<generator>, default)`."""
        lits = self._dict_literals(f, base, 0, set())
        if not lits:
            return False
        for d in lits:
            keys = set()
            for kk in d.keys:
                try:
                    keys.add(const_eval(kk))
                except (NotConst, TypeError):
                    return False
            if k not in keys:
                return False
        return True

    def _dict_literals(self, f: Func, e: ast.AST, depth: int, seen: set) -> Optional[List[ast.Dict]]:
        if e is None or depth > 12:
            return None
        e = strip_cast(e)
        if isinstance(e, ast.Dict):
            return [e]
        if isinstance(e, ast.Name):
            key = (f.fq, e.id, "d")
            if key in seen:
                return []
            seen = seen | {key}
            out: List[ast.Dict] = []
            defs = assignments_to(f.node, e.id)
            if not defs:
                return None
            for st, v in defs:
                if isinstance(v, ast.Constant) and v.value is None:
                    continue
                if v is not None:
                    r = self._dict_literals(f, v, depth + 1, seen)
                else:
                    r = None
                    tgt, source = None, None
                    if isinstance(st, (ast.For, ast.AsyncFor)):
                        tgt, source = st.target, ("iter", st.iter)
                    elif isinstance(st, ast.Assign) and isinstance(st.targets[0], (ast.Tuple, ast.List)):
                        tgt, source = st.targets[0], ("value", st.value)
                    if isinstance(tgt, (ast.Tuple, ast.List)):
                        pos = [i for i, t in enumerate(tgt.elts) if dotted(t) == e.id]
                        tups = self._tuple_values(f, source[1], depth + 1, seen, elements=(source[0] == "iter")) if pos else None
                        if tups is not None:
                            r = []
                            for g, t in tups:
                                if len(t.elts) <= pos[0]:
                                    return None
                                rr = self._dict_literals(g, t.elts[pos[0]], depth + 1, seen)
                                if rr is None:
                                    return None
                                r.extend(rr)
                if r is None:
                    return None
                out.extend(r)
            return out
        return None

    def _tuple_values(self, f: Func, e: ast.AST, depth: int, seen: set, elements: bool = False) -> Optional[List[Tuple[Func, ast.Tuple]]]:
        """The tuple literals expression e may evaluate to (elements=False) or iterate over (elements=True)."""
        if e is None or depth > 12:
            return None
        e = strip_cast(e)
        if not elements:
            if isinstance(e, ast.Tuple):
                return [(f, e)]
            if isinstance(e, ast.Constant) and e.value is None:
                return []
            if isinstance(e, ast.Call) and dotted(e.func) == "next" and e.args:
                r = self._tuple_values(f, e.args[0], depth + 1, seen, elements=True)
                if r is None:
                    return None
                if len(e.args) > 1:
                    d = self._tuple_values(f, e.args[1], depth + 1, seen)
                    if d is None:
                        return None
                    r = r + d
                return r
            if isinstance(e, ast.Name):
                key = (f.fq, e.id, "t")
                if key in seen:
                    return []
                seen = seen | {key}
                out = []
                defs = assignments_to(f.node, e.id)
                if not defs:
                    return None
                for st, v in defs:
                    if v is not None:
                        r = self._tuple_values(f, v, depth + 1, seen)
                    elif isinstance(st, (ast.For, ast.AsyncFor)) and dotted(st.target) == e.id:
                        r = self._tuple_values(f, st.iter, depth + 1, seen, elements=True)
                    else:
                        r = None
                    if r is None:
                        return None
                    out.extend(r)
                return out
            return None
        # elements of an iterable
        if isinstance(e, ast.Name):
            out = []
            defs = assignments_to(f.node, e.id)
            if not defs:
                return None
            for st, v in defs:
                r = self._tuple_values(f, v, depth + 1, seen, elements=True) if v is not None else None
                if r is None:
                    return None
                out.extend(r)
            return out
        if isinstance(e, ast.Call):
            cal = self.rs.resolve_call(f, e)
            if cal.kind == "func" and cal.func is not None:
                g = cal.func
                key = (g.fq, "<yields>")
                if key in seen:
                    return []
                seen = seen | {key}
                out = []
                ys = [y for y in body_walk(g.node) if isinstance(y, (ast.Yield, ast.YieldFrom))]
                if not ys:
                    return None
                for y in ys:
                    if isinstance(y, ast.YieldFrom):
                        r = self._tuple_values(g, y.value, depth + 1, seen, elements=True)
                    else:
                        r = self._tuple_values(g, y.value, depth + 1, seen)
                    if r is None:
                        return None
                    out.extend(r)
                return out
        return None

    def _short_circuit_guards(self, f: Func, node: ast.AST) -> List[Tuple[ast.AST, bool]]:
        """(test, polarity) pairs known to hold when `node` is evaluated because of short-circuit evaluation inside its
        own statement: earlier operands of an enclosing `and` (true), of an enclosing `or` (false), the test of an
        enclosing conditional expression."""
        fv = FuncView.of(f.node)
        out: List[Tuple[ast.AST, bool]] = []
        child = node
        p = fv.parent.get(id(child))
        while p is not None and not isinstance(p, ast.stmt):
            if isinstance(p, ast.BoolOp):
                for v in p.values:
                    if v is child:
                        break
                    out.append((v, isinstance(p.op, ast.And)))
            elif isinstance(p, ast.IfExp) and child is not p.test:
                out.append((p.test, child is p.body))
            child, p = p, fv.parent.get(id(p))
        return out

    def _min_len(self, f: Func, base: ast.AST, st: ast.AST, at: Optional[ast.AST] = None) -> Optional[int]:
        """A lower bound on len(base) from recognised facts, else None."""
        b = strip_cast(base)
        if isinstance(b, ast.Subscript) and not isinstance(b.slice, ast.Slice):
            # an element of a sequence of pairs / n-grams (Counter.most_common(), dict.items(), grouper(..))
            e = self._iter_elem_len(f, origin(f.node, strip_cast(b.value)))
            if e is not None:
                return e
        if isinstance(b, (ast.List, ast.Tuple)):
            return len(b.elts)
        if isinstance(b, ast.Constant) and isinstance(b.value, (bytes, str)):
            return len(b.value)
        if isinstance(b, ast.Attribute):
            # struct array field with a declared count
            cands = self._structs_of(f, b.value)
            if cands:
                lens = []
                for cd, sname in cands:
                    fld = cd.struct(sname).field(b.attr)
                    if fld is None or fld.count is None:
                        return None
                    try:
                        lens.append(int(fld.count, 0) if fld.count not in cd.defines else cd.defines[fld.count])
                    except ValueError:
                        return None
                return min(lens)
            # NamedTuple-ish `.args` etc: unknown
        if isinstance(b, ast.Call):
            d = dotted(b.func)
            if isinstance(b.func, ast.Attribute) and b.func.attr in ("partition", "rpartition"):
                return 3
            if isinstance(b.func, ast.Attribute) and b.func.attr in ("split", "rsplit", "splitlines"):
                # lemma: x.split(sep) with an explicit separator has at least one piece (exactly [x] when sep does not
                # occur); x.split() / x.split(None) splits on whitespace runs and is EMPTY for an empty or all-whitespace x
                sep = b.args[0] if b.args else kwarg(b, "sep")
                explicit = sep is not None and not (isinstance(sep, ast.Constant) and sep.value is None)
                return 1 if b.func.attr != "splitlines" and explicit else 0
        if isinstance(b, ast.Name):
            # dominating length test
            name = b.id
            best = None

            def mk(pred_n):
                def pred(test):
                    for l, op, r in compare_parts(test):
                        if isinstance(l, ast.Call) and dotted(l.func) == "len" and l.args and dotted(l.args[0]) == name:
                            try:
                                kk = const_eval(r)
                            except NotConst:
                                continue
                            if isinstance(op, ast.NotEq) and kk >= pred_n:
                                return False
                            if isinstance(op, ast.Eq) and kk >= pred_n:
                                return True
                            if isinstance(op, ast.Lt) and kk >= pred_n:
                                return False
                            if isinstance(op, ast.GtE) and kk >= pred_n:
                                return True
                            if isinstance(op, ast.Gt) and kk + 1 >= pred_n:
                                return True
                    return None
                return pred
            def mk2(pred_n):
                base_pred = mk(pred_n)

                def pred(test):
                    r = base_pred(test)
                    if r is None and pred_n <= 1 and dotted(test) == name:
                        return True  # `if seq:` - non-empty on the true edge
                    return r
                return pred
            for nlen in (8, 4, 3, 2, 1):
                if guarded_by(self.ctx, f, st, mk2(nlen)) or self._after_early_exit(f, st, lambda t, n=nlen: (False if mk2(n)(t) is False else None)):
                    return nlen
                if at is not None:
                    for t, pol in self._short_circuit_guards(f, at):
                        r = mk2(nlen)(t)
                        if r is not None and r == pol:
                            return nlen
            defs = assignments_to(f.node, name)
            lens = []
            for s2, v in defs:
                if v is not None:
                    l2 = self._min_len(f, v, s2)
                    lens.append(l2)
                elif isinstance(s2, (ast.For, ast.AsyncFor)):
                    lens.append(self._elem_min_len(f, s2, name))
                else:
                    lens.append(None)
            if lens and all(l is not None for l in lens):
                return min(lens)
        if isinstance(b, ast.ListComp) and len(b.generators) == 1 and not b.generators[0].ifs:
            return self._min_len(f, b.generators[0].iter, st)
        if isinstance(b, ast.Name):
            pass
        # module constant list
        if isinstance(base, ast.Name) and base.id in f.module.consts and not assignments_to(f.node, base.id):
            v = strip_cast(f.module.consts[base.id])
            if isinstance(v, (ast.List, ast.Tuple)):
                return len(v.elts)
            # a module-level comprehension without filter over another module-level sequence has that sequence's length
            hops = 0
            while isinstance(v, (ast.ListComp, ast.GeneratorExp)) and len(v.generators) == 1 and not v.generators[0].ifs and hops < 4:
                it = strip_cast(v.generators[0].iter)
                if isinstance(it, (ast.List, ast.Tuple)):
                    return len(it.elts)
                if isinstance(it, ast.Name) and it.id in f.module.consts:
                    v = strip_cast(f.module.consts[it.id])
                    if isinstance(v, (ast.List, ast.Tuple)):
                        return len(v.elts)
                    hops += 1
                    continue
                break
        return None

    def _mapping_value_min_len(self, f: Func, target: ast.AST, it: ast.AST, name: str) -> Optional[int]:
        """`for k, name in M.items()` / `for name in M.values()` with M the result of urllib.parse.parse_qs: every value is
        a non-empty list (library contract: a key is only present with at least one value)."""
        it = strip_cast(it)
        if not (isinstance(it, ast.Call) and isinstance(it.func, ast.Attribute) and not it.args):
            return None
        if it.func.attr == "items":
            if not (isinstance(target, (ast.Tuple, ast.List)) and len(target.elts) == 2 and dotted(target.elts[1]) == name):
                return None
        elif it.func.attr == "values":
            if dotted(target) != name:
                return None
        else:
            return None
        m = origin(f.node, strip_cast(it.func.value))
        if isinstance(m, ast.Call) and (dotted(m.func) or "").split(".")[-1] == "parse_qs":
            self.facts_used.append("parse_qs values are non-empty lists")
            return 1
        return None

    def _elem_min_len(self, f: Func, st: ast.For, name: str) -> Optional[int]:
        """Length of each element when `name` iterates over pairs / n-grams."""
        mv = self._mapping_value_min_len(f, st.target, st.iter, name)
        if mv is not None:
            return mv
        if dotted(st.target) != name:
            return None
        it = origin(f.node, strip_cast(st.iter))
        return self._iter_elem_len(f, it)

    def _iter_elem_len(self, f: Func, it: ast.AST) -> Optional[int]:
        if isinstance(it, ast.Call):
            if isinstance(it.func, ast.Attribute) and it.func.attr in ("most_common", "items"):
                return 2
            cal = self.rs.resolve_call(f, it)
            if cal.kind == "func" and cal.func is not None and cal.func.fq == "utils.grouper":
                nn = kwarg(it, "n") or (it.args[1] if len(it.args) > 1 else None)
                try:
                    return int(const_eval(nn))
                except (NotConst, TypeError, ValueError):
                    return None
            if dotted(it.func) in ("enumerate", "zip"):
                return 2
        return None


def _memoised(fn: ast.AST) -> bool:
    """decorated with functools.lru_cache / functools.cache (bare or called)"""
    for d in getattr(fn, "decorator_list", []):
        t = d.func if isinstance(d, ast.Call) else d
        if (dotted(t) or "").split(".")[-1] in ("lru_cache", "cache", "cached", "memoize", "memoise"):
            return True
    return False


def _remove_name(e: ast.AST, name: str) -> Optional[ast.AST]:
    """e with the additive term `name` removed; None if e is just `name`; e unchanged if not additive."""
    if isinstance(e, ast.Name) and e.id == name:
        return None
    if isinstance(e, ast.BinOp) and isinstance(e.op, ast.Add):
        l, r = _remove_name(e.left, name), _remove_name(e.right, name)
        if l is None:
            return e.right
        if r is None:
            return e.left
        if l is not e.left:
            return ast.BinOp(left=l, op=ast.Add(), right=e.right)
        if r is not e.right:
            return ast.BinOp(left=e.left, op=ast.Add(), right=r)
    return e


def _first_of_genexp(v: ast.AST) -> Optional[ast.GeneratorExp]:
    """v is `next((elt for t in seq [if ..]), <default>)` with one generator: the generator expression."""
    if isinstance(v, ast.Call) and dotted(v.func) == "next" and v.args and isinstance(v.args[0], ast.GeneratorExp) and len(v.args[0].generators) == 1:
        return v.args[0]
    return None


# ---------------------------------------------------------------------------- rule entry
def comprehension_patch(esc: Escape):
    """Comprehension variables over n-grams: `gram[0] for gram in grouper(chunk, n=4)`."""
    orig = esc._min_len

    def _min_len(f, base, st, at=None):
        r = orig(f, base, st, at=at)
        if r is not None:
            return r
        if isinstance(base, ast.Name):
            # comprehension target in the enclosing statement
            for n in ast.walk(st) if isinstance(st, ast.AST) else []:
                if isinstance(n, ast.comprehension):
                    mv = esc._mapping_value_min_len(f, n.target, n.iter, base.id)
                    if mv is not None:
                        return mv
                if isinstance(n, ast.comprehension) and dotted(n.target) == base.id:
                    it = origin(f.node, strip_cast(n.iter))
                    l = esc._iter_elem_len(f, it)
                    if l is not None:
                        return l
        return None

    esc._min_len = _min_len


def reachable_set(ctx, entries: List[str]) -> Set[str]:
    g = ctx.rs.callgraph()
    seen: Set[str] = set()
    stack = [e for e in entries if e in g]
    while stack:
        x = stack.pop()
        if x in seen:
            continue
        seen.add(x)
        stack.extend(v for _u, v in g.out_edges(x))
    # dynamic dispatch targets of stream methods
    for m in ctx.repo.modules.values():
        for cname, cnode in m.classes.items():
            if any((dotted(b) or "").startswith("io.") for b in cnode.bases):
                for q, fn in m.funcs.items():
                    if q.startswith(cname + "."):
                        if fn.fq not in seen:
                            seen.add(fn.fq)
                            stack.append(fn.fq)
    while stack:
        x = stack.pop()
        for _u, v in g.out_edges(x):
            if v not in seen:
                seen.add(v)
                stack.append(v)
    return seen


def check_escape(ctx, rule: str, entries: List[str], allowed: Set[str], esc: Optional[Escape] = None) -> Escape:
    if esc is None:
        from .effects_cm import cm_escape

        esc = cm_escape(ctx)
    comprehension_patch(esc)
    if esc.reach is None:
        esc.reach = reachable_set(ctx, entries)
    for fq in entries:
        f = ctx.repo.func(fq)
        effs = esc.function_effects(f)
        bad = [e for e in effs if not any(is_subclass(e.cls, a) for a in allowed)]
        by_site: Dict[Tuple[str, str], Effect] = {}
        for e in sorted(bad, key=lambda e: (len(e.path), e.site)):
            by_site.setdefault((e.cls, e.site), e)
        ok_classes = sorted({e.cls for e in effs if e not in bad})
        # a site is *uncertain* when the only reason it is charged is a callee summary that its owning rule left undecided
        # (the callee was re-implemented in a shape that rule does not recognise): reported as undecided, not as a violation
        certain = [e for e in bad if e.site not in esc.uncertain_sites]
        ctx.ob(rule, "ESC", f, "escape set", not bad,
               f"may-raise set of {fq}: allowed classes reached {ok_classes}; " + ("no other class can escape" if not bad else f"{len(by_site)} primitive site(s) can raise a class outside {sorted(allowed)}")
               + ("" if certain or not bad else " - all of them hinge on a callee summary that is undecided"), f.node, undecided=bool(bad) and not certain)
        for (cls, site), e in by_site.items():
            # one obligation per (entry, class, site): keyed by the site so that a second site is a new violation
            if site in esc.uncertain_sites:
                ctx.rep.ob(rule, "ESC", f"{site}::{cls}", False,
                           f"UNDECIDED: {cls} from {fq} via " + " -> ".join(e.path + (site.split('::', 1)[1],)) + ": depends on a callee summary that is undecided",
                           e.file, e.line, undecided=True)
                continue
            ctx.rep.ob(rule, "ESC", f"{site}::{cls}", False,
                       f"{cls} can escape from {fq} via " + " -> ".join(e.path + (site.split('::', 1)[1],)), e.file, e.line)
    return esc
