"""Flow-insensitive, field-sensitive may-alias + mutation analysis.

Abstract locations are values read out of designated *shared stores* (given by a source
predicate).  "Tainted" means *may be the same object as (or an element of) a store value*.
Taint propagates through assignments, tuple swaps, parameter passing (context-insensitive
over all resolved call sites), ``self.attr = x`` (class-level fields), returns, element
access and iteration.  Fresh copies (``list(x)``, ``x[:]``, ``x[::-1]``, ``x.copy()``,
``sorted(x)``, ``dict(x)``, ``tuple(x)``, ``copy.copy/deepcopy``) cut the alias.
Mutation sinks: mutator method calls, subscript stores / deletes, in-place ``+=`` on a
name or attribute, attribute stores on a tainted object.
"""

from __future__ import annotations

import ast
from dataclasses import dataclass
from typing import Callable, Dict, List, Optional, Set, Tuple

from .astutil import assignments_to, body_walk, dotted, fn_calls, kwarg, params, src, statements, strip_cast, walk_no_nested
from .loader import Func

MUTATORS = {"append", "insert", "extend", "pop", "remove", "sort", "reverse", "clear", "update", "setdefault", "popitem",
            "__setitem__", "__delitem__", "appendleft", "extendleft", "add", "discard", "move_to_end"}
FRESH_CALLS = {"list", "dict", "tuple", "set", "frozenset", "sorted", "bytes", "bytearray", "str", "int", "len", "repr", "bool",
               "copy.copy", "copy.deepcopy", "deepcopy", "OrderedDict", "collections.OrderedDict", "MappingProxyType", "enumerate", "zip",
               "reversed", "iter", "map", "filter", "any", "all", "sum", "max", "min", "isinstance", "hash", "id", "type"}
FRESH_METHODS = {"copy", "items", "keys", "values", "encode", "decode", "lower", "upper", "strip", "rstrip", "lstrip", "split",
                 "partition", "rpartition", "replace", "format", "join", "hex", "startswith", "endswith", "find", "index", "count",
                 "most_common", "digest", "hexdigest", "dumps", "_asdict", "_replace"}
ELEMENT_METHODS = {"get", "__getitem__"}  # m.get(k, default) hands out the stored element


@dataclass
class Finding:
    func: Func
    node: ast.AST
    kind: str
    target: str
    why: str


class Alias:
    def __init__(self, ctx, is_source: Callable[[Func, ast.AST], Optional[str]], owners: Optional[Set[str]] = None, deep_attrs: bool = False):
        # deep_attrs: a field read off an aliased object is itself aliased (needed when the shared object is a record
        # holding containers, e.g. a NamedTuple with dict fields)
        self.deep_attrs = deep_attrs
        self.ctx = ctx
        self.rs = ctx.rs
        self.repo = ctx.repo
        self.is_source = is_source
        self.owners = owners or set()
        self.taint_params: Dict[Tuple[str, str], str] = {}
        self.taint_fields: Dict[Tuple[str, str], str] = {}
        self.taint_returns: Dict[str, str] = {}
        self.local: Dict[str, Dict[str, str]] = {}
        self.source_reads = 0
        self.iterations = 0

    # ------------------------------------------------------------------ expression taint
    def tainted(self, f: Func, e: Optional[ast.AST], depth: int = 0) -> Optional[str]:
        """A reason string if e may alias a store value, else None."""
        if e is None or depth > 12:
            return None
        e = strip_cast(e)
        s = self.is_source(f, e)
        if s:
            return s
        if isinstance(e, ast.Name):
            r = self.local.get(f.fq, {}).get(e.id)
            if r:
                return r
            if e.id in params(f.node):
                return self.taint_params.get((f.fq, e.id))
            return None
        if isinstance(e, ast.Attribute):
            cls = self._recv_class(f, e.value)
            r = self.taint_fields.get((cls, e.attr)) if cls else None
            if r is None and self.deep_attrs and not (isinstance(e.value, ast.Name) and e.value.id in ("self", "cls")):
                r0 = self.tainted(f, e.value, depth + 1)
                r = f"field {e.attr} of {src(e.value)} <- {r0}" if r0 else None
            return r
        if isinstance(e, ast.Subscript):
            if isinstance(e.slice, ast.Slice):
                return None  # a slice is a fresh (shallow) copy
            r = self.tainted(f, e.value, depth + 1)
            return f"element of {src(e.value)} <- {r}" if r else None
        if isinstance(e, ast.Starred):
            return self.tainted(f, e.value, depth + 1)
        if isinstance(e, ast.IfExp):
            return self.tainted(f, e.body, depth + 1) or self.tainted(f, e.orelse, depth + 1)
        if isinstance(e, ast.BoolOp):
            for v in e.values:
                r = self.tainted(f, v, depth + 1)
                if r:
                    return r
            return None
        if isinstance(e, ast.NamedExpr):
            return self.tainted(f, e.value, depth + 1)
        if isinstance(e, ast.Call):
            d = dotted(e.func)
            if d in FRESH_CALLS:
                return None
            if isinstance(e.func, ast.Attribute):
                m = e.func.attr
                if m in ELEMENT_METHODS:
                    r = self.tainted(f, e.func.value, depth + 1)
                    if r:
                        return f"{src(e)[:50]} <- {r}"
                    # default argument handed back
                    return None
                if m in FRESH_METHODS:
                    return None
            cal = self.rs.resolve_call(f, e)
            if cal.kind == "func" and cal.func is not None:
                return self.taint_returns.get(cal.func.fq)
            return None
        return None

    def _recv_class(self, f: Func, recv: ast.AST) -> Optional[str]:
        if isinstance(recv, ast.Name) and recv.id == "self" and f.cls:
            return f"{f.module.name}.{f.cls}"
        t = self.rs.expr_type(f, recv)
        if t and not t.startswith(("struct:", "type:")):
            return t
        return None

    # ------------------------------------------------------------------ fixpoint
    def run(self) -> "Alias":
        funcs = list(self.repo.all_funcs())
        changed = True
        while changed and self.iterations < 20:
            changed = False
            self.iterations += 1
            for f in funcs:
                if self._process(f):
                    changed = True
        return self

    def _set(self, d: dict, k, v) -> bool:
        if k not in d:
            d[k] = v
            return True
        return False

    def _process(self, f: Func) -> bool:
        ch = False
        loc = self.local.setdefault(f.fq, {})
        # local names
        inner = True
        while inner:
            inner = False
            for st in statements(f.node):
                pairs: List[Tuple[ast.AST, ast.AST]] = []
                if isinstance(st, ast.Assign):
                    for t in st.targets:
                        pairs.extend(_pairs(t, st.value))
                elif isinstance(st, ast.AnnAssign) and st.value is not None:
                    pairs.append((st.target, st.value))
                elif isinstance(st, (ast.For, ast.AsyncFor)):
                    r = self.tainted(f, st.iter)
                    # .items() / enumerate() of a tainted mapping hand out its values
                    it = strip_cast(st.iter)
                    if r is None and isinstance(it, ast.Call) and isinstance(it.func, ast.Attribute) and it.func.attr in ("items", "values"):
                        r = self.tainted(f, it.func.value)
                    if r is None and isinstance(it, ast.Call) and dotted(it.func) in ("enumerate", "reversed", "iter", "zip") and it.args:
                        r = self.tainted(f, it.args[0])
                    if r:
                        for n in ast.walk(st.target):
                            if isinstance(n, ast.Name) and self._set(loc, n.id, f"element of {src(st.iter)[:50]} <- {r}"):
                                inner = ch = True
                for t, v in pairs:
                    r = self.tainted(f, v)
                    if not r:
                        continue
                    if isinstance(t, ast.Name):
                        if self._set(loc, t.id, r):
                            inner = ch = True
                    elif isinstance(t, ast.Attribute):
                        cls = self._recv_class(f, t.value)
                        if cls and self._set(self.taint_fields, (cls, t.attr), f"{f.fq}: {src(t)} = {src(v)[:50]} <- {r}"):
                            ch = True
            # walrus
            for n in body_walk(f.node):
                if isinstance(n, ast.NamedExpr):
                    r = self.tainted(f, n.value)
                    if r and self._set(loc, n.target.id, r):
                        inner = ch = True
        # calls: parameter passing
        for c in fn_calls(f.node):
            cal = self.rs.resolve_call(f, c)
            tgt: Optional[Func] = None
            skip = 0
            if cal.kind == "func" and cal.func is not None:
                tgt = cal.func
                ps = params(tgt.node)
                if tgt.cls and ps and ps[0] in ("self", "cls") and (isinstance(c.func, ast.Attribute) or cal.recv_type):
                    skip = 1
            elif cal.kind == "class":
                tgt = self.rs.class_init(cal.fq)
                skip = 1
            if tgt is None:
                continue
            ps = params(tgt.node)[skip:]
            for i, a in enumerate(c.args):
                if isinstance(a, ast.Starred) or i >= len(ps):
                    break
                r = self.tainted(f, a)
                if r and self._set(self.taint_params, (tgt.fq, ps[i]), f"{f.fq}:{c.lineno} passes {src(a)[:50]} <- {r}"):
                    ch = True
            for k in c.keywords:
                if k.arg and k.arg in ps:
                    r = self.tainted(f, k.value)
                    if r and self._set(self.taint_params, (tgt.fq, k.arg), f"{f.fq}:{c.lineno} passes {k.arg}={src(k.value)[:50]} <- {r}"):
                        ch = True
        # returns
        for st in statements(f.node):
            if isinstance(st, ast.Return) and st.value is not None:
                r = self.tainted(f, st.value)
                if r and self._set(self.taint_returns, f.fq, f"{f.fq} returns {src(st.value)[:40]} <- {r}"):
                    ch = True
        return ch

    # ------------------------------------------------------------------ sinks
    def findings(self) -> List[Finding]:
        out: List[Finding] = []
        for f in self.repo.all_funcs():
            if f.fq in self.owners:
                continue
            for n in body_walk(f.node):
                if isinstance(n, ast.Call) and isinstance(n.func, ast.Attribute) and n.func.attr in MUTATORS:
                    r = self.tainted(f, n.func.value)
                    if r:
                        out.append(Finding(f, n, f".{n.func.attr}()", src(n.func.value), r))
                elif isinstance(n, (ast.Assign, ast.AugAssign, ast.Delete, ast.AnnAssign)):
                    tgts = n.targets if isinstance(n, (ast.Assign, ast.Delete)) else [n.target]
                    for t in tgts:
                        for tt in (t.elts if isinstance(t, (ast.Tuple, ast.List)) else [t]):
                            if isinstance(tt, ast.Subscript):
                                r = self.tainted(f, tt.value)
                                if r:
                                    out.append(Finding(f, n, "item store/delete", src(tt.value), r))
                            elif isinstance(tt, ast.Attribute) and not (isinstance(tt.value, ast.Name) and tt.value.id == "self"):
                                r = self.tainted(f, tt.value)
                                if r:
                                    out.append(Finding(f, n, "attribute store", src(tt.value), r))
                            elif isinstance(n, ast.AugAssign) and isinstance(tt, (ast.Name, ast.Attribute)) and isinstance(n.op, (ast.Add, ast.Mult, ast.BitOr)):
                                r = self.tainted(f, tt)
                                if r and not self._immutable_hint(f, tt, n):
                                    out.append(Finding(f, n, "in-place +=", src(tt), r))
        return out

    def _immutable_hint(self, f: Func, t: ast.AST, n: ast.AugAssign) -> bool:
        """x += <str/bytes/int literal or call> on a value that is evidently a scalar is a rebinding, not a mutation."""
        v = n.value
        if isinstance(v, ast.Constant):
            return True
        if isinstance(v, (ast.JoinedStr, ast.BinOp)):
            return True
        if isinstance(v, (ast.List, ast.ListComp, ast.Tuple)):
            return False
        return True


def _pairs(t: ast.AST, v: ast.AST) -> List[Tuple[ast.AST, ast.AST]]:
    if isinstance(t, (ast.Tuple, ast.List)) and isinstance(v, (ast.Tuple, ast.List)) and len(t.elts) == len(v.elts):
        out = []
        for a, b in zip(t.elts, v.elts):
            out.extend(_pairs(a, b))
        return out
    if isinstance(t, (ast.Tuple, ast.List)):
        # unpacking an iterable: each target gets an element
        return [(a, ast.Subscript(value=v, slice=ast.Constant(value=0), ctx=ast.Load())) for a in t.elts]
    return [(t, v)]
