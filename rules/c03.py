"""C03 - Structured settings decode Cobalt Strike's binary encodings exactly (structural part).

How the rules of this module look at the code.  The parsers of the structured settings (transform / recover programs,
execute lists, the sleep-mask section table, the process-inject transform, the BeaconGate option string) are not matched
against a particular *spelling* (an if/elif chain, a list named ENABLE_STEPS, a `while True` loop ...).  Their paths are
walked by a path-wise value-flow analysis (`_Ev`, below) that builds a symbolic *term* for every value: parameters are
opaque symbols, every read of the stream is a symbolic read of the requested length, an integer decoded from a read is
the term dec(read, byteorder, signed), a test that cannot be decided forks the path.  No input data exists in a run: a
run is specialised by *named assumptions* (`_Assume`) over the code's own finite vocabulary - "the opcode decoded from
the first read is TransformStep.X" (one run per enum member of the C definitions), "the BUILD selector is k" (k a key of
the reference table), "the stream is exhausted", "start / end of the entry is zero / non-zero" - which are propagated
as constants where the code decodes or compares that value.  A loop over the stream is analysed for ONE iteration with
what it carries around unknown (`_Ev._enter_loop`): of the result list only the items appended during the iteration are
looked at, a list the loop modifies has unknown length / content wherever a path inspects it, a scalar re-bound in the
loop is a free unknown, a set / dict modified in the loop stops the analysis (undecided); a read-ahead local stands for
the read at the end of the previous iteration and the back edge checks that it is re-bound to a read of the same length.
A term a path has forked on keeps its truth value on that path (path condition; no solving).  The rules then compare, structurally, the terms every path produced - which reads of which lengths, which value is
appended to the result, how the path ends - with the terms the format prescribes.  An if-chain, a lookup table keyed by
opcode, a data-driven loop over (label, set) pairs, guard clauses with `continue`, De-Morganed conditions,
`for d in iter(partial(p.read, 4), b"")` instead of `while True`, helper functions, conditional expressions and
temporaries all yield the same terms.  Where the analysis meets something it does not model, or a test on an assumed
value that its lemmas do not decide, the obligation is *undecided* (the construct could not be located), never violated.

Technique (numbers = the ALLOWED devices of RULES_GUIDE.md "What counts as static here"; nothing of a-e is used: no
/repo code is imported or run, no sample bytes / programs / lengths are fed to anything, no numeric enumeration)
  R1  1, 6: the enums / struct of CS_DEF (parsed C definitions) compared completely with the reference tables.
  R2  3 (path-wise value flow of parse_transform_binary: per-path terms for reads, decodes and appended values, one loop
      iteration, structural comparison with the prescribed terms), 5 (one run per TransformStep member of CS_DEF; BUILD
      selector per key of _BUILD_SELECTORS), 2 (branches pruned by three-valued evaluation under the run's named
      assumption), 6 (constant folding of the code's literals and local tables); SETTING_TO_PRETTYFUNC entries: 3 (the
      entry applied to a symbolic argument, package calls kept as terms), 1 (argument binding).  Lemmas D1, D2, B1, B2, E0,
      Z0, N0.
  R3  3 (the dec(read, byteorder, signed, whole?) terms and list effects collected on the paths of the R2/R4/R7 runs, the
      source term of the stream), 2 (how every path of the iteration ends), 4 (sign facts about decoded integers decided
      on a path are reused later on it; forks over zero / non-zero of an argument value).  Lemmas Z0, N0.
  R4  as R2, for parse_recover_binary: 3, 5 (per TransformStep member), 2, 6.
  R5  6 (the code's set constants folded), 3 (membership condition of every element kept as a term - a filtered
      comprehension or `if c: S.add(x)` in a loop over a constant; the option set is a symbolic subset of a constant
      universe; every comparison of it with a constant set - issuperset / issubset, >=, <=, >, <, ==, !=, its truth, its
      len() against 0 / the size of the universe - is a recorded set test that forks the path), 4 + 5 (abstract domain
      none / some-but-not-all / all per ATOM, the atoms being the regions into which the code's own constant sets and the
      three reference groups cut the universe; case analysis over the product of these - 18 abstract states for the
      unchanged code, every one standing for at least one flag vector and all vectors of a state taking the same path -
      each set test has a definite value in a state, the path the state selects is compared with what the encoding
      prescribes there), set algebra on constants.  Lemmas S0, S1, S2.
  R6  1 (attribute reads on values typed as cstruct instances; syntax trees of the installed dissect.cstruct sources).
  R7  1, 6 (table keys); 3 (entries applied to a symbolic argument); execute list: 3, 5 (one run per InjectExecutor
      member of CS_DEF), 2, lemmas D1, D2, B1, B2, I0; start-address arguments of the executors that read (offset, module,
      function) - located by that role, not by name: 3 (the leaves of the appended entry's term: every integer it shows must
      be dec(read #2 of the iteration, whole, big-endian, unsigned) - lemma F0 -, the strings it shows are read #4 then read
      #6, stream order; a text whose leaves cannot be found is undecided); process-inject transform: 3 with forks over the symbolic tests
      (a `for` over a constant tuple of the code is followed once per element of that constant); NUL cut: 3 (the returned
      term compared structurally with the finitely many forms of lemma P0); null_terminated_str: 3 (the returned term is
      <cut>.decode(codec), package calls kept symbolic; <cut> is a package function applied to the data that returns a P0
      cut of its parameter - judged by the same comparison - or a P0 form over the parameter written in place, so the
      helper inlined at its call site is the same thing; an r-variant / strip in place is reported, any other term is
      undecided); codec: 6 (constant) against the alias table of lemma C0.
  R8  3 (the SETTING_* constants the returned term / the decisions on the way depend on), 1 (syntax queries), 6;
      domains / uris: 1, 3 (the returned value abstracted to "member m of each pair of self.domain_uri_pairs, first
      occurrences by member k" - `_Proj`: single-definition temporaries substituted, a comprehension, an appending `for`
      loop with a `not in` guard or a seen-set, map + lambda / itemgetter, dict / dict.fromkeys / .keys() / .values() are
      transfer rules of that abstraction; `self.helper(<constants>)` is looked through by argument binding), 2 (dominance:
      the guards of the append / the dict store), 4 (nullness: the padding value of the pairing helper - the fillvalue
      that grouper hands to zip_longest, located through the call's arguments and the helper's default, device 1 - and
      the set of padding FILTERS every element of the selection has passed: `if` clauses of a comprehension, tests that
      dominate the append, filter(); a selection may drop exactly the padding of its own member, `uris` must: every way the
      second member of a pair reaches the result passes a test that excludes the padding value; the opposite test, or a
      test on the other member, is reported; a truth test is undecided for the selection).  Lemmas O0, G0.
      killdate: 3 (the returned text's term per path, package calls kept symbolic: the values formatted into it, in order),
      4 (digit windows [lo, hi) of the decimal value of SETTING_KILLDATE: //, % by powers of ten, divmod, str / f-string +
      slices + int under the named assumption "a well-formed YYYYMMDD has 8 digits" are transfer rules; the three fields
      must be the windows [4, 8), [2, 4), [0, 2) in that order; a term that is not a window is undecided), the split form
      (SETTING_KILLDATE_YEAR / _MONTH / _DAY): the three settings in that order.  Lemma K0.
  R9  3, 4/5 (the four sign cases zero / non-zero of the two integers of an entry, as abstract values keyed by their
      offset; lengths domain for the offsets of the reads), structural comparison of the reported text's term.  Lemma N0.
  R10 3 (path-wise value flow of parse_pivot_frame; the returned term and the term of its length brought to the normal
      form "window (offset, length) of the parameter" with offset / length as linear forms over the decoded integers -
      compared in that polynomial normal form with the prescribed window (2, L - 4), L = u16be at offset 0), 4 (upper
      bound on L read off the linear form of a decided comparison, for an explicit empty-header exit).  Lemmas W0, D2.
  R11 1 (decorators of the decoder functions resolved through the import table; the decoders are the package functions the
      entries of SETTING_TO_PRETTYFUNC refer to plus the package functions whose result they return unchanged; stores into /
      loads from names that are not locals of the function: module-level objects, globals, function attributes, mutable
      default arguments; memoising wrappers applied at module level), 3 (def-use: the defining expressions the returned /
      stored value can come from classify it as mutable - a list / dict / set display or constructor, a concatenation of
      those - or immutable - constants, str / bytes / int / tuple / frozenset constructors, string methods, digests).
      Trusted library fact: functools.lru_cache / functools.cache return the SAME object for equal arguments.
  R12 3 (path-wise value flow of BeaconConfig.settings_map with ONE symbolic record standing for an arbitrary member of
      self.settings_tuple: its bytes are a symbolic complete byte string of the declared width, the loop body is analysed
      once; the term stored in the returned mapping - looked for inside the returned term, a pretty-table entry applied to
      one argument is looked through - is compared structurally with dec(bytes, big, unsigned) over all of the bytes
      / with the bytes themselves), 5 (one run per value-carrying member of the enum SettingsType of CS_DEF and per
      setting of the two boolean view flags parse / pretty), 2, 6 (format strings of struct.unpack / struct.Struct and
      module-level tables folded).  Lemma F0.

  All rules that use the value flow (`_Ev`): 1 (argument binding also for the library callables the model interprets -
      `_EXT_PARAMS` / `_METH_PARAMS`, the documented positional-or-keyword parameters of io.BytesIO, int.from_bytes,
      enumerate, bytes / bytearray, struct.Struct and of split / rsplit / decode / encode / splitlines / to_bytes: a keyword
      argument is moved to its position before a transfer rule looks at it, so `io.BytesIO(initial_bytes=data)`,
      `int.from_bytes(bytes=d, byteorder="big")`, `x.split(sep=s, maxsplit=1)` are the positional calls; package callees
      (u32be = partial(unpack, ..) called with data=..) are bound by their own signature in `call_func`).

Lemmas (each used by a transfer rule below; anything else about an assumed or symbolic value stays undecided)
  D1  a 1-byte string decodes to the same integer in both byte orders (nothing to reorder).
  D2  signed and unsigned decoding of w bytes agree when the unsigned value is < 2**(8w-1) (sign bit clear).
  B1  byte strings of different lengths are different (a read is complete: its length is the requested length).
  B2  fixed-width big-endian unsigned encoding is injective: a whole w-byte read with big-endian value V equals a w-byte
      constant c iff int(c, big-endian) == V.
  E0  the only byte string of length 0 is b"" - the value of a read on an exhausted stream.
  I0  for a 1-byte string b, b[0] and ord(b) are its unsigned value.
  Z0  read(0) returns b"" and leaves the cursor where it is: a read whose length is known to be zero on the path is
      dropped before reads are compared.
  N0  an unsigned decode and a length are >= 0: `x >= k`, `x < k` (k <= 0) are constant, `x > 0` is `x != 0`.
  S0  A >= B for a symbolic subset A of a constant universe and a constant B: false if B has an element outside the
      universe (or already removed), true if every element of B is in A unconditionally, else a boolean unknown; A <= B:
      true if every element that may be in A is in B, false if an unconditional element of A is not, else unknown;
      A == B is both, A > B is (A >= B and not A <= B), A < B likewise; `if A:` is `not A == {}`.
  S1  for a subset A of a finite set U: len(A) == 0 iff A is empty, len(A) == len(U) iff A >= U, len(A) > len(U) never.
  S2  (abstract states) let the atoms be the classes of "no constant set of the code / reference group separates x and y".
      If A holds none (E), some but not all (P, atoms of >= 2 elements) or all (F) of each atom, then for unions of atoms B
      and R:  A \ R >= B iff every atom of B is F and outside R;  A \ R <= B iff every atom outside B is E or inside R.
      Every combination of E / P / F is realised by some subset, so a mismatch in a state is a mismatch for a flag vector.
  P0  for bytes x and separator s: x.partition(s)[0], x.split(s, 1)[0] and x.split(s)[0] are each "x up to the first
      occurrence of s (all of x if there is none)"; the r-variants / strip cut elsewhere.
  W0  byte windows: x[a:b] is the b-a bytes of x at offset a (bounds non-negative and inside x for a well-formed
      encoding), x[a:] reaches to the end, x[:-k] drops the last k bytes, the window (c, n) of the window (a, L) of x is the
      window (a+c, min(L-c, n)) of x (decided only when L-c-n is a constant), a complete read of n bytes from a stream
      over x with the cursor at c is x[c:c+n], bytes()/memoryview() of a window is the same window; two windows of the
      same data with different constant offsets, or lengths that differ by a non-zero constant, differ for some data.
  O0  a dict keeps the position of the first insertion of each distinct key (and the last value assigned to it);
      iterating it / .keys() yields the keys, .values() one value per distinct key; dict.fromkeys(it) / dict(pairs)
      insert in iteration order; `if x not in acc: acc.append(x)` keeps the first occurrence of every distinct x.
  G0  grouper(it, n) = zip_longest(*[iter(it)] * n, fillvalue=f): every group but the last is complete, the last is padded
      with f after its real members, and its first member is never padding (a group is only started by a real element) -
      so with n = 2 only the SECOND member of a pair can be the padding value, and a test of the first member against it
      is vacuous.  Filtering member j by "is not the padding" commutes with de-duplication by member j.
  K0  for an integer K >= 0 and a, b >= 0: K // 10**a drops the a lowest decimal digits, K % 10**b keeps the b lowest,
      (K // 10**a) // 10**b == K // 10**(a+b), divmod(K, c) == (K // c, K % c); so every composition of these is a digit
      window [lo, hi) = K // 10**lo % 10**(hi - lo).  The decimal text of an 8-digit K has its digit i (from the right)
      at character 7 - i, so int(str(K)[a:b]) is the window [8 - b, 8 - a).  The digits of K are independent: two
      windows with different bounds inside the 8 digits differ for some K.
  F0  for w >= 1 bytes: the signed and the unsigned big-endian decoding differ exactly on the values with the top bit set
      (D2 and its converse), for w >= 2 the big- and the little-endian decoding differ on some value, a decode of a proper
      part of the bytes ignores the rest; a decode of MORE bytes than the string has (data[:4] of 2 bytes) is the decode of
      the string.  Values with the top bit set are well-formed (port 50050, watermark 0xDEADBEEF, address 192.168.1.1).
  C0  latin-1 (aliases iso-8859-1, l1, cp819, ...) is the codec that maps every byte 0..255 to exactly one character, so
      decoding never drops or merges bytes; ascii / utf-8 with "ignore" and the Windows code pages do not.
"""

from __future__ import annotations

import ast
import dataclasses
import glob
import itertools
import os

from csverif import tables
from csverif.astutil import (
    arg as _arg, assignments_to, bind_args, body_walk, compare_parts, conjuncts, const_eval, dotted, fn_calls, is_const, kwarg, NotConst, param_annotation,
    param_defaults, params, src,
)


def _c(node):
    try:
        return const_eval(node) if node is not None else None
    except NotConst:
        return None


def run(ctx):
    rep = ctx.rep
    rep.explanation = (
        "Static analysis of beacon.py: opcode/enum tables parsed from CS_DEF compared completely with reference tables. The "
        "paths of the structured-setting parsers are walked by a path-wise value-flow analysis that builds symbolic terms: "
        "every read of the stream is a symbolic, complete read of the requested length, every decoded integer a term "
        "dec(read, byteorder, signed), undecidable tests fork the path, a loop over the stream is analysed for one iteration "
        "with what it carries around unknown. No input data is used: a run is specialised by a named assumption over the "
        "code's own vocabulary (the opcode decoded from the iteration's first read is enum member X of CS_DEF - one run per "
        "member; the BUILD selector is a key of the reference table; the stream is exhausted; start/end of a section entry "
        "is zero/non-zero), propagated as a constant where the code decodes or compares that value. The per-path terms are "
        "compared structurally with what the format prescribes: for every TransformStep opcode the client-program parser must "
        "read and emit exactly what its arity class prescribes (no argument / 32-bit big-endian length prefix / BUILD "
        "selector 0->build target, 1->'output'), the recover parser the prescribed literal with True or the decoded length, "
        "the execute-list parser the prescribed argument reads per InjectExecutor (and the entry text of an executor with a spoofed start address "
        "must be built from the module string, then the function string, and - as its only integer - the offset decoded big-endian unsigned over the "
        "whole 2-byte read that follows the opcode), the section-table parser one entry per "
        "non-zero (start, end) in stream order, and after every well-formed step the loop must go on; every integer decoded "
        "in the program parsers is a 4-byte big-endian unsigned decode of a whole 4-byte read; BeaconGate: the option set is a "
        "symbolic subset of the flag names, every comparison of it with a constant set (issuperset, >=, >, ==, truth, len ...) is a "
        "recorded set test, and the result of the path taken is compared with the prescribed one ('All' alone / labels of the "
        "completely enabled groups in the order Comms, Core, Cleanup / the left-over names) in every abstract state 'none, some or all "
        "of each group enabled' (18 states standing for all 2^23 flag vectors); pretty-function table entries applied to a symbolic "
        "argument ('which decoder is applied to the data'); attributes used on cstruct instances checked against the "
        "installed dissect.cstruct sources; derived properties read the setting their name says; domains / uris are the first / "
        "second member of each pair of domain_uri_pairs, de-duplicated (if at all) by that same member, and filtered at most by a test that "
        "drops the padding value of the pairing helper (the fillvalue grouper hands to zip_longest, None) of that same member; uris (List[str]) "
        "must not contain that padding value: every way the second member of a pair reaches the result passes a test that excludes it (nullness; "
        "a comprehension `if`, a test dominating the append / dict store of a loop, filter(), a helper method called with constants are the same fact); "
        "killdate: the three fields shown for the packed form are the decimal digit windows [4,8), [2,4), [0,2) of SETTING_KILLDATE in that order "
        "(string slices of the 8-digit text, // and % by powers of ten and divmod are brought to one window normal form), the split form shows "
        "SETTING_KILLDATE_YEAR, _MONTH, _DAY in that order; null_terminated_str decodes the data cut at its first NUL (by the helper or by the same cut written in place) "
        "with a total single-byte codec; the pivot frame header "
        "decoder returns exactly the window (offset 2, length L - 4) of the data, L the big-endian unsigned 16-bit prefix at "
        "offset 0 (stream reads and slices brought to one window normal form, lengths compared as linear forms); every decoder a "
        "pretty-function entry refers to returns a value of its own: a mutable result (list of steps) is not kept by a memoising "
        "decorator / wrapper, a module-level object, a global, a function attribute or a mutable default argument and handed out again. "
        "Fixed-size settings: settings_map is walked with one symbolic record standing for an arbitrary member of settings_tuple (one run per "
        "member TYPE_SHORT / TYPE_INT / TYPE_PTR of SettingsType and per setting of the flags parse / pretty); the term stored in the returned "
        "mapping - and handed to the record's pretty function - must be the unsigned big-endian integer over all 2 / 4 bytes of the value "
        "(whatever spells the decode: u16be, int.from_bytes, struct.unpack, a precompiled struct.Struct from a table keyed by the type), for "
        "TYPE_PTR the bytes themselves."
    )
    rep.not_decided = ["decoded byte arguments for all programs", "parse_gargle endianness (no independent reference)", "killdate: format specifications / separators of the text, a field computed by anything but a digit window of the decimal value (undecided), values with fewer than 8 digits (not well-formed)", "IPv4 rendering",
                       "whether domains / uris are de-duplicated at all (only by which member)", "uris / domains filtered by a truth test (also drops empty strings: undecided); a pairing helper whose fill value is not a constant (undecided)",
                       "a signed decode of the frame-header length prefix (undecided)",
                       "execute list: the literal parts of the entry text (separator '!', '+0x', hex formatting, omission of a zero offset) are not compared; an entry text whose reads / integers cannot be found as leaves of its term is undecided (R7 start-address obligations)",
                       "any test on an assumed or symbolic value that the lemmas of the module docstring do not decide (the obligation is then undecided)",
                       "BeaconGate: a test on the option set other than a comparison with a constant set, its truth or its size (R5 undecided)",
                       "R11: retention of a decoded value through channels other than decorators, module-level wrappers, stores into / loads from non-local names (e.g. caches kept inside BeaconConfig instances, which are per object); a retained value whose mutability is not known is undecided",
                       "lists that a loop both modifies and inspects; scalars re-bound in a loop (unknown; obligations depending on them are undecided)",
                       "R12: a fixed-size value computed by anything but a decode of the record's bytes (arithmetic on a decode, a mask, reversed bytes ...) is undecided; "
                       "settings_map walking something other than self.settings_tuple, or filling the mapping through update() / setdefault(), is undecided; "
                       "views with parse and pretty both off are not looked at (raw views: property C02)"]
    rep.trusted_base = ["CPython ast", "C-definition parser", "reference opcode tables in csverif/tables.py and _BUILD_SELECTORS (rules/c03.py)",
                        "installed dissect.cstruct sources under /venv",
                        "the value-flow model of the Python operations used by the parsers (io.BytesIO.read/tell, int.from_bytes, struct.unpack formats, "
                        "list/set/dict operations, str.format / %-format templates) in rules/c03.py::_Ev",
                        "assumption: reads of a well-formed encoding are complete (a read of n bytes returns n bytes)",
                        "library signatures in rules/c03.py::_EXT_PARAMS / _METH_PARAMS (names of the positional-or-keyword parameters of io.BytesIO, int.from_bytes, enumerate, "
                        "bytes / bytearray, struct.Struct, split / rsplit / decode / encode / splitlines / to_bytes): a keyword argument naming one of them is that positional argument",
                        "lemma D1: a 1-byte string decodes to the same integer in both byte orders",
                        "lemma D2: signed and unsigned decoding of w bytes agree when the unsigned value is < 2**(8w-1)",
                        "lemma B1: byte strings of different lengths differ",
                        "lemma B2: fixed-width big-endian unsigned encoding is injective (a whole w-byte read of value V equals a w-byte constant iff the constant's value is V)",
                        "lemma E0: the only byte string of length 0 is b'' (value of a read on an exhausted stream)",
                        "lemma I0: for a 1-byte string b, b[0] and ord(b) are its unsigned value",
                        "lemma Z0: read(0) returns b'' and does not move the cursor",
                        "lemma N0: an unsigned decode and a length are >= 0",
                        "lemma S0: superset / subset / equality / proper-superset tests of a symbolic subset of a constant universe against a constant set",
                        "lemma S1: for a subset A of a finite set U, len(A) == 0 iff A is empty and len(A) == len(U) iff A >= U",
                        "lemma S2: set tests have a definite value when the option set holds none / some / all of each atom of the partition generated by the code's constant sets and the reference groups; every such state is realised by a flag vector (the flags are independent)",
                        "functools.lru_cache / functools.cache hand out the same result object for equal arguments (library semantics)",
                        "classification of expressions as mutable (list / dict / set displays and constructors, their concatenations) or immutable (constants, str / bytes / int / tuple / frozenset constructors, string and digest methods) in rules/c03.py::_mutability",
                        "lemma P0: x.partition(s)[0], x.split(s, 1)[0], x.split(s)[0] are 'x up to the first s'",
                        "lemma C0: latin-1 (and its aliases) maps every byte to exactly one character",
                        "lemma W0: byte windows - slices with non-negative in-range bounds, x[:-k], nested slices and complete stream reads denote (offset, length) windows of the data",
                        "lemma O0: dicts keep first-insertion order of distinct keys; `if x not in acc: acc.append(x)` keeps first occurrences",
                        "lemma G0: itertools.zip_longest over n references to one iterator pads only the last group, after its real members, with fillvalue (default None) - the first member of a group is never padding (library semantics)",
                        "lemma K0: // and % by powers of ten and divmod cut digit windows of a non-negative integer; the decimal text of an 8-digit number has digit i (from the right) at character 7 - i; "
                        "format: SETTING_KILLDATE is the decimal number YYYYMMDD with a four-digit year (property statement / Cobalt Strike)",
                        "execute list format: opcode byte; for the executors with a spoofed start address a big-endian unsigned 16-bit offset, then module and function as u32be-length-prefixed strings, shown as module!function+0xoffset",
                        "frame header format (property statement): u16be L, L - 4 header bytes, 4-byte frame-size placeholder; a well-formed L is >= 4",
                        "settings block format: a TYPE_SHORT / TYPE_INT value is 2 / 4 bytes, network byte order, unsigned (_FIXED_WIDTH in rules/c03.py); a TYPE_PTR value is `length` raw bytes; "
                        "the value of a well-formed fixed-size record has exactly the declared width",
                        "lemma F0: signed / unsigned decodings differ exactly on values with the top bit set, big / little-endian decodings of >= 2 bytes differ, a decode of a proper part ignores the rest",
                        "struct.Struct(fmt).unpack(x) is struct.unpack(fmt, x); collections.OrderedDict is an insertion-ordered dict (library semantics)"]
    rep.exhaustive = True
    r1(ctx)
    r2(ctx)
    r3(ctx)
    r4(ctx)
    r5(ctx)
    r6(ctx)
    r7(ctx)
    r8(ctx)
    r9(ctx)
    r10(ctx)
    r11(ctx)
    r12(ctx)


def r1(ctx):
    cd = ctx.cdefs("beacon")["cs_struct"]
    for en, ref in (("TransformStep", tables.TRANSFORM_STEPS), ("InjectExecutor", tables.INJECT_EXECUTORS), ("BofAllocator", tables.BOF_ALLOCATORS)):
        got = dict(cd.enum(en).members)
        dup = len(cd.enum(en).members) != len(got)
        diff = {k: (got.get(k), ref.get(k)) for k in set(got) | set(ref) if got.get(k) != ref.get(k)}
        ctx.ob("R1", "TABLE", f"beacon.py::CS_DEF::enum {en}", "members", not diff and not dup, f"{len(got)} members; differences (repo, reference): {diff}" if diff else f"{len(got)} members equal the reference")
    ctx.ob("R1", "TABLE", "beacon.py::CS_DEF::enum TransformStep", "width", cd.enum("TransformStep").base == "uint32", f"base type {cd.enum('TransformStep').base}")
    ctx.ob("R1", "TABLE", "beacon.py::CS_DEF::enum InjectExecutor", "width", cd.enum("InjectExecutor").base == "uint8", f"base type {cd.enum('InjectExecutor').base}")
    bgo = cd.struct("BeaconGateOptions")
    names = [f.name for f in bgo.fields]
    ok = names == tables.BEACON_GATE_APIS and all(f.type == "uint8" and f.count is None for f in bgo.fields)
    ctx.ob("R1", "TABLE", "beacon.py::CS_DEF::struct BeaconGateOptions", "fields", ok, f"{len(names)} uint8 flags; order equals the 23 reference APIs={names == tables.BEACON_GATE_APIS}")
    ctx.rep.count("transform_opcodes", len(cd.enum("TransformStep").members), floor=16)
    ctx.rep.count("beacon_gate_fields", len(names), floor=23)


# ======================================================================================================================
# Path-wise value flow (private to this module; candidate for csverif/).
#
# `_Ev` walks the paths of a function of the analysed package and builds a symbolic TERM for every value (policy device 3):
# parameters are opaque symbols, every read of a stream made from a parameter is a symbolic, complete read `_Rd` of the
# requested length, an integer decoded from a read is the term dec(read, byteorder, signed), lists/sets/dicts are heap
# objects, constant expressions and the code's own constant tables are folded (device 6), a test that three-valued
# evaluation cannot decide forks the path (device 2).  There is no input data: a run may carry named assumptions about
# abstract values (`_Assume`: the decoded opcode is enum member X, the stream is exhausted, an integer is zero / non-zero -
# devices 2, 4, 5) which are propagated as constants at the decode / comparison they speak about.  A `while` loop (and
# a `for .. in iter(callable, sentinel)` loop) is analysed for ONE iteration whose loop-carried state is unknown
# (`_enter_loop`): a path that reaches the back edge ends with the signal ('next', loop).  A `for` over a constant
# collection of the code (a tuple of names, the items of a literal dict) is followed once per element of that constant
# (its size is a constant of the analysed code, not an input size).  The
# rules then compare what every path produced (which reads, which terms appended to the result, how the path ended) with
# what the wire format prescribes.  That makes them independent of how the dispatch is spelled (if-chain, lookup table,
# data-driven loop, guard clauses, early continue, helper functions, conditional expressions ...).  MAX_FORKS / MAX_STEPS
# bound the size of the analysis (number of paths / visited nodes), not an input.
# ======================================================================================================================
class _Stop(Exception):
    """The evaluator met something it does not model on the path it follows: the run is undecided."""


class _Fork(Exception):
    def __init__(self, value, node):
        super().__init__("fork")
        self.value, self.node = value, node


class _Raise(Exception):
    def __init__(self, what):
        super().__init__(what)
        self.what = what


@dataclasses.dataclass(frozen=True)
class _Par:  # parameter of the analysed function
    name: str


@dataclasses.dataclass(frozen=True)
class _Rd:  # the bytes returned by the idx-th read of the path; n = requested length (reads are complete)
    idx: int
    n: object
    pos: object = None  # offset in the stream where the read starts, when known


@dataclasses.dataclass(frozen=True)
class _T:  # symbolic term
    op: str
    args: tuple


@dataclasses.dataclass(frozen=True)
class _En:  # member (or nameless value) of a cstruct enum
    tname: str
    name: object
    value: object


@dataclasses.dataclass(frozen=True)
class _EnT:  # cstruct enum type
    tname: str
    mod: str
    var: str


@dataclasses.dataclass(frozen=True)
class _Ref:  # reference to a heap object
    oid: tuple


@dataclasses.dataclass(frozen=True)
class _Fn:  # callable
    kind: str
    a: object = None
    b: object = None
    c: object = None


@dataclasses.dataclass(frozen=True)
class _Unk:  # unknown value; deps name what it was computed from ('lost': from known values by an unmodelled operation)
    deps: frozenset
    why: str = ""


_LOST = frozenset({"lost"})


class _HList:
    def __init__(self, items=None, root=None, opaque=False):
        self.items, self.root, self.opaque = list(items or []), root, opaque

    def copy(self):
        return _HList(self.items, self.root, self.opaque)


class _HSet:
    def __init__(self, items=()):
        self.items = set(items)

    def copy(self):
        return _HSet(self.items)


class _HDict:
    def __init__(self, pairs=()):
        self.pairs = [list(p) for p in pairs]

    def copy(self):
        return _HDict(self.pairs)


class _HStream:
    def __init__(self, src, pos=0):
        self.src, self.pos = src, pos

    def copy(self):
        return _HStream(self.src, self.pos)


class _HSym:
    """A collection selected from a universe by conditions that are not known: {x for x in U if cond(x)}.
    elems: element -> condition value (None when the universe itself is unknown); subs: the sets removed since."""

    def __init__(self, root, kind, elems, subs=(), origin=None, init=None):
        self.root, self.kind, self.elems, self.subs, self.origin = root, kind, (dict(elems) if elems is not None else None), list(subs), origin
        self.init = init if init is not None else (dict(elems) if elems is not None else None)

    def copy(self):
        return _HSym(self.root, self.kind, self.elems, self.subs, self.origin, self.init)


class _Frame:
    def __init__(self, env, mod, func=None, parent=None, locals_=frozenset()):
        self.env, self.mod, self.func, self.parent, self.locals = env, mod, func, parent, locals_


class _St:
    def __init__(self):
        self.frames = []
        self.heap = {}
        self.reads = []  # (idx, n, content|None)
        self.events = []
        self.forks = []  # (test node, value without negations, its truth, truth of the test as written)
        self.imprecise = []
        self.counts = {}
        self.modcache = {}
        self.script = []
        self.depth = 0
        self.site = None
        self.snap = None
        self.in_loop = None
        self.carried = frozenset()  # heap objects that exist when the representative iteration begins
        self.queried, self.mutated = set(), set()  # lineages of carried lists inspected / modified on the path
        self.kept = {}  # read-ahead locals kept at loop entry: name -> requested length of the read they hold
        self.facts = {}  # decoded integer (term) -> is it zero, as decided earlier on this path
        self.decided = {}  # symbolic term -> the truth value this path gave it when it forked on it

    def fork(self):
        s = _St()
        # frames: copy the environments, keep the parent links consistent
        m = {}
        for fr in self.frames:
            nf = _Frame(dict(fr.env), fr.mod, fr.func, m.get(id(fr.parent)) if fr.parent is not None else None, fr.locals)
            m[id(fr)] = nf
            s.frames.append(nf)
        s.heap = {k: v.copy() for k, v in self.heap.items()}
        s.reads = list(self.reads)
        s.events = list(self.events)
        s.forks = list(self.forks)
        s.imprecise = list(self.imprecise)
        s.counts = dict(self.counts)
        s.modcache = dict(self.modcache)
        s.script = list(self.script)
        s.depth = self.depth
        s.site = self.site
        s.snap = dict(self.snap) if self.snap is not None else None
        s.in_loop = self.in_loop
        s.carried = self.carried
        s.kept = dict(self.kept)
        s.queried, s.mutated = set(self.queried), set(self.mutated)
        s.facts = dict(self.facts)
        s.decided = dict(self.decided)
        return s

    def alloc(self, node, obj, tag=""):
        k = (tag, id(node))
        n = self.counts.get(k, 0)
        self.counts[k] = n + 1
        oid = (tag, getattr(node, "lineno", 0), getattr(node, "col_offset", 0), id(node), n)
        if getattr(obj, "root", 0) is None:
            obj.root = oid
        self.heap[oid] = obj
        return _Ref(oid)


def _deps(v) -> frozenset:
    if isinstance(v, _Rd):
        return frozenset({("rd", v.idx)}) | _deps(v.n)
    if isinstance(v, _Par):
        return frozenset({("par", v.name)})
    if isinstance(v, _T):
        out = frozenset()
        for a in v.args:
            out |= _deps(a)
        if v.op in ("settest", "rest"):
            return out | frozenset({("set", v.args[0])})
        if v.op == "list":
            return frozenset({("list", v.args[0])})  # content of a list the loop modifies: a free unknown
        # a term over nothing symbolic has a definite value that the evaluator failed to compute
        return out or _LOST
    if isinstance(v, _En):
        return _deps(v.value)
    if isinstance(v, _Unk):
        return v.deps
    if isinstance(v, (tuple, frozenset)):
        out = frozenset()
        for a in v:
            out |= _deps(a)
        return out
    return frozenset()


def _stable(v, depth=0) -> bool:
    """Is v a term whose truth cannot change along a path?  (no heap object - those are mutable -, no value the
    analysis lost track of - two of those may look alike and be different)"""
    if isinstance(v, (_Ref, _Fn)) or depth > 20:
        return False
    if isinstance(v, _Unk):
        return not (v.deps & {"lost", "unbound"}) and bool(v.deps)
    if isinstance(v, _T):
        if v.op in ("settest", "rest", "tell", "call", "new", "invoke", "list") or v.op.startswith("meth:"):
            return False
        return all(_stable(a, depth + 1) for a in v.args)
    if isinstance(v, _En):
        return _stable(v.name, depth + 1) and _stable(v.value, depth + 1)
    if isinstance(v, (tuple, frozenset)):
        return all(_stable(a, depth + 1) for a in v)
    return True


def _concrete(v) -> bool:
    if isinstance(v, (int, str, bytes, float)) or v is None:
        return True
    if isinstance(v, (tuple, frozenset)):
        return all(_concrete(x) for x in v)
    return False


def _and3(vals):
    vals = list(vals)
    if any(v is False for v in vals):
        return False
    return True if all(v is True for v in vals) else None


def _or3(vals):
    vals = list(vals)
    if any(v is True for v in vals):
        return True
    return False if all(v is False for v in vals) else None


def _not3(v):
    return None if v is None else (not v)


class _Assume:
    """The named assumptions of one run (policy devices 2 and 5).  Every read of the stream stays a symbolic value; an
    assumption is a fact about an *abstract* value of the path, never input data:

    `value[i] = V`  "the unsigned big-endian integer over the whole of the i-th read of the path is V".  V ranges over
                    the analysed code's own vocabulary: one run per member of an enum of the C definitions (the opcode the
                    dispatcher dispatches on), or per key of the reference table `_BUILD_SELECTORS`.  The fact is used
                    where a path decodes that read (constant propagation into the decode, see `_Ev.decode`) or compares
                    it with a bytes literal of the code (`_Ev.rd_eq_bytes`); a decode the fact does not speak about
                    (other byte order, partial read ...) stays a symbolic term.
    `eof`           the reads (by index) that hit the end of the input - the 'stream exhausted' case of the two-valued
                    vocabulary {exhausted, complete} of a read.  Its value is the constant b"" (lemma E0: the only byte
                    string of length 0).
    `zero[k] = b`   sign case: whether the integer decoded from the bytes at offset k (counted from the first read of the
                    path, i.e. from the start of the entry the representative iteration handles) is zero."""

    def __init__(self, value=None, zero=None, eof=()):
        self.value = dict(value or {})
        self.zero = dict(zero or {})
        self.eof = frozenset(eof)
        self.reads = set()  # indices of the reads an assumption talks about

    def constrained(self, deps) -> bool:
        return any(d in ("lost", "unbound") or (isinstance(d, tuple) and d[0] == "rd" and d[1] in self.reads) for d in deps)


_STR_METHODS = {"rstrip", "lstrip", "strip", "lower", "upper", "decode", "encode", "hex", "split", "rsplit", "partition", "rpartition", "startswith",
                "endswith", "replace", "join", "title", "capitalize", "zfill", "ljust", "rjust", "find", "index", "count", "isdigit", "format",
                "removeprefix", "removesuffix", "splitlines", "to_bytes", "bit_length"}
_BUILTIN_NAMES = {"len", "int", "bool", "str", "bytes", "bytearray", "memoryview", "list", "tuple", "set", "frozenset", "dict", "sorted", "reversed",
                  "getattr", "hasattr", "isinstance", "min", "max", "any", "all", "zip", "enumerate", "range", "hex", "repr", "format", "print", "iter",
                  "next", "abs", "sum", "ord", "chr", "type", "callable", "id", "divmod", "map", "filter", "object",
                  "ValueError", "IndexError", "KeyError", "TypeError", "Exception", "RuntimeError", "NotImplementedError", "AttributeError", "EOFError"}
# Library signatures (policy device 1: argument binding): the leading positional-or-keyword parameters of the external
# callables / bytes-str methods that the value-flow model interprets.  A call that passes them by keyword is the same call
# (`io.BytesIO(initial_bytes=x)` is `io.BytesIO(x)`, `x.split(sep=s, maxsplit=1)` is `x.split(s, 1)`); `_bind_lib` moves
# such keywords to their positions before a transfer rule looks at the arguments.  Parameters that CPython accepts only
# positionally (BytesIO.read(size, /), bytes.partition(sep, /), dict.get, struct.unpack ...) are not listed: a keyword
# there is a TypeError at run time, not a spelling of the call.
_EXT_PARAMS = {"io.BytesIO": ("initial_bytes",), "int.from_bytes": ("bytes", "byteorder"), "enumerate": ("iterable", "start"),
               "bytes": ("source", "encoding", "errors"), "bytearray": ("source", "encoding", "errors"), "struct.Struct": ("format",)}
_METH_PARAMS = {"split": ("sep", "maxsplit"), "rsplit": ("sep", "maxsplit"), "decode": ("encoding", "errors"), "encode": ("encoding", "errors"),
                "splitlines": ("keepends",), "to_bytes": ("length", "byteorder")}


def _bind_lib(names, args, kwargs):
    """(args, kwargs) with the keywords that name the next positional parameters moved to their positions"""
    if not kwargs or not names:
        return args, kwargs
    if any(n in kwargs for n in names[: len(args)]):
        raise _Raise("TypeError")  # a parameter given both by position and by keyword
    args, kwargs = list(args), dict(kwargs)
    while len(args) < len(names) and names[len(args)] in kwargs:
        args.append(kwargs.pop(names[len(args)]))
    return args, kwargs


def sys_byteorder():
    import sys

    return sys.byteorder


def _pure_ext():
    import binascii
    import struct

    return {"struct.unpack": struct.unpack, "struct.pack": struct.pack, "struct.calcsize": struct.calcsize, "binascii.hexlify": binascii.hexlify,
            "binascii.unhexlify": binascii.unhexlify, "bytes.fromhex": bytes.fromhex, "struct.unpack_from": struct.unpack_from}


_PURE_EXT = _pure_ext()
_CMP = {ast.Lt: lambda a, b: a < b, ast.LtE: lambda a, b: a <= b, ast.Gt: lambda a, b: a > b, ast.GtE: lambda a, b: a >= b}
_BIN = {ast.Add: lambda a, b: a + b, ast.Sub: lambda a, b: a - b, ast.Mult: lambda a, b: a * b, ast.FloorDiv: lambda a, b: a // b, ast.Mod: lambda a, b: a % b,
        ast.BitOr: lambda a, b: a | b, ast.BitAnd: lambda a, b: a & b, ast.BitXor: lambda a, b: a ^ b, ast.LShift: lambda a, b: a << b,
        ast.RShift: lambda a, b: a >> b, ast.Div: lambda a, b: a / b, ast.Pow: lambda a, b: a ** b}


class _Ev:
    MAX_FORKS = 400
    MAX_STEPS = 60000
    MAX_DEPTH = 5

    def __init__(self, ctx, assume=None):
        self.ctx = ctx
        self.assume = assume or _Assume()
        self.nforks = 0
        self.nsteps = 0
        self.lambdas = {}
        self.intercept = False
        self.unknown_roots = frozenset()  # lineages of the lists that the representative loop modifies (second pass of `_run`)

    # ------------------------------------------------------------------------------------------------ entry point
    def run(self, f, args=None):
        """Walk the paths of package function f with symbolic parameters (or the given abstract values): [(state, signal)] per path."""
        st = _St()
        env = {}
        for p in params(f.node):
            env[p] = (args or {}).get(p, _Par(p))
        st.frames.append(_Frame(env, f.module.name, f, None, self._locals(f.node)))
        st.snap = {}
        return self.block(f.node.body, st)

    @staticmethod
    def _locals(fn):
        out = set(params(fn)) if not isinstance(fn, ast.Lambda) else {a.arg for a in fn.args.args}
        if not isinstance(fn, ast.Lambda):
            for n in body_walk(fn):
                if isinstance(n, ast.Name) and isinstance(n.ctx, ast.Store):
                    out.add(n.id)
        return frozenset(out)

    # ------------------------------------------------------------------------------------------------ statements
    def block(self, stmts, st):
        live = [(st, None)]
        for s in stmts:
            nxt = []
            for st1, sig in live:
                if sig is not None:
                    nxt.append((st1, sig))
                else:
                    nxt.extend(self.stmt(s, st1))
            live = nxt
        return live

    def stmt(self, s, st):
        self.nsteps += 1
        if self.nsteps > self.MAX_STEPS:
            raise _Stop("step budget exceeded")
        if st.depth > 0:
            # inside a callee: deterministic under the script of the statement of the analysed function that called it
            try:
                return self._stmt(s, st)
            except _Raise as r:
                return [(st, ("raise", r.what))]
        out = []
        pending = [[]]
        while pending:
            script = pending.pop()
            work = st.fork()
            work.script = list(script)
            try:
                out.extend(self._stmt(s, work))
            except _Fork:
                self.nforks += 1
                if self.nforks > self.MAX_FORKS:
                    raise _Stop("path budget exceeded")
                pending.append(script + [False])
                pending.append(script + [True])
            except _Raise as r:
                out.append((work, ("raise", r.what)))
        return out

    def decide(self, st, v, node):
        # truth of a symbolic subset is "it is not the empty set": a set test like any other
        flip, core = False, v
        while isinstance(core, _T) and core.op == "not":
            core, flip = core.args[0], not flip
        if self.is_sym(st, core):
            r = self.set_test(st, "eq", core, frozenset(), node)
            if flip:
                v = r
            else:
                v = (not r) if isinstance(r, bool) else _T("not", (r,))
        t = self.truth(st, v)
        if t is not None:
            return t
        # the path condition: a term this path has already decided keeps its truth value
        flip, core = False, v
        while isinstance(core, _T) and core.op == "not":
            core, flip = core.args[0], not flip
        memo = _stable(core)
        if memo and core in st.decided:
            return st.decided[core] != flip
        if st.script:
            d = st.script.pop(0)
            # normalise the record: strip negations
            pol = (not d) if flip else d
            st.forks.append((node, core, pol, d))
            if memo:
                st.decided[core] = pol
            # what the decision says about a decoded integer: later tests of the same value agree with it
            subj, zero = core, not pol
            if isinstance(subj, _T) and subj.op == "eq" and any(isinstance(x, int) and not isinstance(x, bool) and x == 0 for x in subj.args):
                subj, zero = next((x for x in subj.args if not isinstance(x, int)), None), pol
            if isinstance(subj, _Rd):
                subj = subj.n
            elif isinstance(subj, _T) and subj.op == "len" and isinstance(subj.args[0], _Rd):
                subj = subj.args[0].n
            if isinstance(subj, _T) and subj.op == "dec":
                st.facts[subj] = zero
            if self.assume.constrained(_deps(core)):
                st.imprecise.append(f"undecided test {src(node)[:60]}")
            return d
        raise _Fork(v, node)

    def _stmt(self, s, st):
        if isinstance(s, ast.Expr):
            self.ev(s.value, st)
            return [(st, None)]
        if isinstance(s, ast.Assign):
            v = self.ev(s.value, st)
            for t in s.targets:
                self.assign(t, v, st)
            return [(st, None)]
        if isinstance(s, ast.AnnAssign):
            if s.value is not None:
                self.assign(s.target, self.ev(s.value, st), st)
            return [(st, None)]
        if isinstance(s, ast.AugAssign):
            self.augassign(s, st)
            return [(st, None)]
        if isinstance(s, ast.If):
            v = self.ev(s.test, st)
            if not s.orelse and st.depth == 0 and self.truth(st, v) is None and self._conditional_adds(s, v, st):
                return [(st, None)]
            t = self.decide(st, v, s.test)
            return self.block(s.body if t else s.orelse, st)
        if isinstance(s, ast.While):
            return self._while(s, st)
        if isinstance(s, (ast.For, ast.AsyncFor)):
            return self._for(s, st)
        if isinstance(s, ast.Return):
            return [(st, ("return", self.ev(s.value, st) if s.value is not None else None))]
        if isinstance(s, ast.Break):
            return [(st, "break")]
        if isinstance(s, ast.Continue):
            return [(st, "continue")]
        if isinstance(s, ast.Raise):
            return [(st, ("raise", dotted(s.exc.func) if isinstance(s.exc, ast.Call) else (dotted(s.exc) if s.exc is not None else None)))]
        if isinstance(s, (ast.Pass, ast.Global, ast.Nonlocal, ast.Import, ast.ImportFrom, ast.Delete)):
            return [(st, None)]
        if isinstance(s, ast.Assert):
            return [(st, None)]
        if isinstance(s, (ast.FunctionDef, ast.AsyncFunctionDef)):
            self.lambdas[id(s)] = (s, st.frames[-1])
            st.frames[-1].env[s.name] = _Fn("lambda", id(s))
            return [(st, None)]
        if isinstance(s, ast.With):
            for it in s.items:
                v = self.ev(it.context_expr, st)
                if it.optional_vars is not None:
                    self.assign(it.optional_vars, v, st)
            return self.block(s.body, st)
        if isinstance(s, ast.Try):
            # the modelled operations do not raise on well-formed input: the handlers are not entered
            res = self.block(s.body, st)
            out = []
            for st1, sig in res:
                if sig is None and s.orelse:
                    out.extend(self.block(s.orelse, st1))
                else:
                    out.append((st1, sig))
            if s.finalbody:
                out2 = []
                for st1, sig in out:
                    for st2, sig2 in self.block(s.finalbody, st1):
                        out2.append((st2, sig2 if sig2 is not None else sig))
                out = out2
            return out
        raise _Stop(f"statement {type(s).__name__} is not modelled")

    def _conditional_adds(self, s, cond, st):
        """`if c: S.add(x)` with a test that is not known is  S = S | {x if c}:  S becomes a collection selected by
        conditions (like a filtered set comprehension) instead of forking the path.  False when s is not of that form."""
        todo = []
        for b in s.body:
            c = b.value if isinstance(b, ast.Expr) else None
            if not (isinstance(c, ast.Call) and isinstance(c.func, ast.Attribute) and c.func.attr == "add" and len(c.args) == 1 and not c.keywords):
                return False
            if not isinstance(c.func.value, ast.Name) or not isinstance(c.args[0], (ast.Name, ast.Constant)):
                return False
            recv, x = self.ev(c.func.value, st), self.ev(c.args[0], st)
            o = st.heap.get(recv.oid) if isinstance(recv, _Ref) else None
            if not self.hashable_known(x) or not (isinstance(o, _HSet) or (isinstance(o, _HSym) and o.kind == "set" and o.elems is not None and not o.subs and o.root == recv.oid)):
                return False
            todo.append((recv, x))
        for recv, x in todo:
            o = st.heap[recv.oid]
            if isinstance(o, _HSet):
                self.guard_mut(st, recv.oid)
                o = st.heap[recv.oid] = _HSym(recv.oid, "set", {e: True for e in o.items}, (), s)
            for d in (o.elems, o.init):
                d[x] = cond if x not in d else (True if d[x] is True else _T("or", (d[x], cond)))
        return bool(todo)

    def _enter_loop(self, s, st):
        if st.depth == 0 and st.in_loop is None:
            # The body is analysed ONCE, for an arbitrary iteration: what the loop carries around is not known.
            #  - lists that exist now: only the items added from here on are compared (`snap`).  A list that some path of
            #    the run modifies AND some path inspects (length, item by position, absence of a value, enumeration)
            #    has content the analysis does not know: `_run` repeats the analysis with those inspections answered
            #    symbolically (`unknown_roots`).  A list nobody modifies is a loop-invariant table;
            #  - sets, dicts: must not be modified in the loop (`guard_mut`), so they are loop-invariant tables;
            #  - scalars bound now and re-bound in the loop: unknown - except a local that holds a read of the stream
            #    (read-ahead loops): it stands for the read made at the end of the previous iteration, and the back
            #    edge checks that it is re-bound to a read of the same length (`_loop_results`).
            st.in_loop = s
            st.snap = {}
            for o in st.heap.values():
                if isinstance(o, _HList):
                    st.snap[o.root] = max(st.snap.get(o.root, 0), len(o.items))
            st.carried = frozenset(st.heap)
            fr = st.frames[-1]
            for name in sorted({n.id for n in ast.walk(s) if isinstance(n, ast.Name) and isinstance(n.ctx, ast.Store)}):
                v = fr.env.get(name)
                if name not in fr.env or isinstance(v, (_Ref, _Fn, _EnT)):
                    continue
                if isinstance(v, _Rd):
                    st.kept[name] = v.n
                elif not isinstance(v, bytes):
                    fr.env[name] = _Unk(frozenset({("carried", name)}), f"{name} is carried around the loop")

    def carried_list(self, st, o):
        return st is not None and st.in_loop is not None and isinstance(o, _HList) and o.root in (st.snap or {})

    def note_query(self, st, o):
        """The known items of a list are about to be inspected (length, position, absence, enumeration).  True: the
        list is one the loop modifies (`unknown_roots`, found by the first pass of `_run`) - what it holds from
        earlier iterations is not known, the caller must answer symbolically."""
        if self.carried_list(st, o):
            st.queried.add(o.root)
            return o.root in self.unknown_roots
        return False

    def note_mut(self, st, o):
        if self.carried_list(st, o):
            st.mutated.add(o.root)

    def guard_mut(self, st, oid):
        if st.in_loop is not None and st.depth == 0 and oid in st.carried:
            raise _Stop("a set / dict that is carried around the loop is modified in it")

    def _loop_results(self, s, res):
        out = []
        for st1, sig in res:
            if sig == "break":
                if st1.in_loop is s:
                    st1.events.append(("loop-exit", s))
                out.append((st1, None))
            elif sig is None or sig == "continue":
                if st1.in_loop is s and st1.depth == 0:
                    for name, n in st1.kept.items():
                        v = st1.frames[-1].env.get(name)
                        if not (isinstance(v, _Rd) and v.n == n):
                            st1.imprecise.append(f"{name} is not re-bound to a read of the same length at the end of the iteration")
                out.append((st1, ("next", s)))
            else:
                out.append((st1, sig))
        return out

    def _while(self, s, st):
        self._enter_loop(s, st)
        t = self.decide(st, self.ev(s.test, st), s.test)
        if not t:
            if st.in_loop is s:
                st.events.append(("loop-exit", s))
            return self.block(s.orelse, st) if s.orelse else [(st, None)]
        return self._loop_results(s, self.block(s.body, st))

    def _for(self, s, st):
        it = s.iter
        # for x in iter(callable, sentinel): one representative iteration, like `while True`
        if isinstance(it, ast.Call) and len(it.args) == 2 and not it.keywords:
            fv = self.ev(it.func, st)
            if fv == _Fn("ext", "iter"):
                self._enter_loop(s, st)
                fn = self.ev(it.args[0], st)
                sentinel = self.ev(it.args[1], st)
                v = self.call(fn, [], {}, st, it)
                done = self.decide(st, self.cmp_eq(st, v, sentinel), it)
                if done:
                    if st.in_loop is s:
                        st.events.append(("loop-exit", s))
                    return self.block(s.orelse, st) if s.orelse else [(st, None)]
                self.assign(s.target, v, st)
                return self._loop_results(s, self.block(s.body, st))
        seq = self.iterate(self.ev(it, st), st)
        if seq is None:
            raise _Stop(f"loop over a collection that is not known: {src(it)[:60]}")
        live = [(st, None)]
        for x in seq:
            nxt = []
            for st1, sig in live:
                if sig is not None:
                    nxt.append((st1, sig))
                    continue
                self.assign(s.target, x, st1)
                for st2, sig2 in self.block(s.body, st1):
                    if sig2 == "continue":
                        sig2 = None
                    nxt.append((st2, sig2))
            live = nxt
        out = []
        for st1, sig in live:
            if sig == "break":
                out.append((st1, None))
            elif sig is None and s.orelse:
                out.extend(self.block(s.orelse, st1))
            else:
                out.append((st1, sig))
        return out

    def iterate(self, v, st):
        """The elements of a collection value in iteration order, or None when they are not known."""
        if isinstance(v, (tuple, list)):
            return list(v)
        if isinstance(v, frozenset):
            return sorted(v, key=repr)
        if isinstance(v, (str,)):
            return list(v)
        if isinstance(v, bytes):
            return list(v)
        if isinstance(v, _EnT):
            return [_En(v.tname, n, val) for n, val in self.enum_of(v).members]
        if isinstance(v, _Ref):
            o = st.heap.get(v.oid)
            if isinstance(o, _HList) and not o.opaque:
                if self.note_query(st, o):
                    return None
                return list(o.items)
            if isinstance(o, _HSet):
                return sorted(o.items, key=repr)
            if isinstance(o, _HDict):
                return [k for k, _v in o.pairs]
        if isinstance(v, _T) and v.op == "seq":
            return list(v.args)
        return None

    # ------------------------------------------------------------------------------------------------ assignment
    def assign(self, t, v, st):
        if isinstance(t, ast.Name):
            st.frames[-1].env[t.id] = v
            return
        if isinstance(t, (ast.Tuple, ast.List)):
            seq = self.iterate(v, st)
            if seq is None or len(seq) != len(t.elts) or any(isinstance(e, ast.Starred) for e in t.elts):
                for i, e in enumerate(t.elts):
                    if isinstance(e, ast.Starred):
                        e = e.value
                    self.assign(e, _T("item", (v, i)) if not isinstance(v, _Unk) else v, st)
                return
            for e, x in zip(t.elts, seq):
                self.assign(e, x, st)
            return
        if isinstance(t, ast.Subscript):
            base = self.ev(t.value, st)
            key = self.ev(t.slice, st) if not isinstance(t.slice, ast.Slice) else None
            o = st.heap.get(base.oid) if isinstance(base, _Ref) else None
            if isinstance(o, _HDict) and key is not None and self.hashable_known(key):
                self.guard_mut(st, base.oid)
                for p in o.pairs:
                    if self.key_eq(p[0], key) is True:
                        p[1] = v
                        return
                o.pairs.append([key, v])
                return
            if isinstance(o, _HList):
                self.note_mut(st, o)
                o.opaque = True
                st.events.append(("reorder", o.root, "item assignment"))
                return
            return
        if isinstance(t, ast.Attribute):
            return
        raise _Stop(f"assignment target {type(t).__name__} is not modelled")

    def augassign(self, s, st):
        cur = self.ev(s.target, st) if isinstance(s.target, (ast.Name, ast.Attribute, ast.Subscript)) else None
        val = self.ev(s.value, st)
        o = st.heap.get(cur.oid) if isinstance(cur, _Ref) else None
        if isinstance(o, _HList) and isinstance(s.op, ast.Add):
            self.list_extend(o, val, st)
            return
        if isinstance(o, _HSym) and isinstance(s.op, ast.Sub):
            fs = self.as_set(val, st)
            if fs is None:
                raise _Stop("set difference with a set that is not known")
            self.guard_mut(st, cur.oid)
            self.sym_sub(o, fs, st)
            return
        if isinstance(o, _HSet) and isinstance(s.op, (ast.Sub, ast.BitOr, ast.BitAnd)):
            self.guard_mut(st, cur.oid)
            fs = self.as_set(val, st)
            if fs is None:
                raise _Stop("set update with a set that is not known")
            o.items = set(o.items - fs if isinstance(s.op, ast.Sub) else (o.items | fs if isinstance(s.op, ast.BitOr) else o.items & fs))
            return
        self.assign(s.target, self.binop(s.op, cur, val, st, s), st)

    # ------------------------------------------------------------------------------------------------ names
    def lookup(self, name, st):
        fr = st.frames[-1]
        f2 = fr
        while f2 is not None:
            if name in f2.env:
                return f2.env[name]
            if name in f2.locals:
                return _Unk(frozenset({"unbound"}), f"{name} is not bound on this path")
            f2 = f2.parent
        return self.global_name(fr.mod, name, st)

    def enum_of(self, t: _EnT):
        return self.ctx.cdefs(t.mod)[t.var].enums[t.tname]

    def global_name(self, mod, name, st, depth=0):
        key = (mod, name)
        if key in st.modcache:
            return st.modcache[key]
        v = self._global_name(mod, name, st, depth)
        st.modcache[key] = v
        return v

    def _sym_value(self, s, st, depth):
        rs = self.ctx.rs
        if s.kind in ("func", "partial"):
            m = self.ctx.repo.modules.get(s.module)
            f = m.funcs.get(s.name) if m else None
            if f is None:
                return _Unk(_LOST, f"function {s.fq}")
            bound = []
            for k, node in (s.bound or {}).items():
                c = _c(node)
                bound.append((k, c if (c is not None or is_const(node, None)) else _Unk(_LOST, "bound argument")))
            return _Fn("func", f, tuple(bound), ())
        if s.kind == "class":
            return _Fn("class", s.fq)
        if s.kind == "module":
            return _Fn("pkgmod", s.module)
        if s.kind == "struct":
            cd = self.ctx.cdefs(s.module).get(s.cdef_var)
            if cd is not None and s.name in cd.enums:
                return _EnT(s.name, s.module, s.cdef_var)
            return _Fn("struct", s.name, s.module, s.cdef_var)
        if s.kind == "external":
            return _Fn("ext", s.name)
        return None

    def _global_name(self, mod, name, st, depth):
        rs = self.ctx.rs
        s = rs.lookup(mod, name)
        if s is not None and s.kind != "const":
            v = self._sym_value(s, st, depth)
            if v is not None:
                return v
        m = self.ctx.repo.modules.get(s.module if (s is not None and s.kind == "const" and s.module) else mod)
        cname = s.name if (s is not None and s.kind == "const" and s.name) else name
        if m is not None and cname in m.consts and depth < 4:
            saved = st.frames
            st.frames = [_Frame({}, m.name)]
            saved_depth = st.depth
            st.depth += 1
            try:
                return self.ev(m.consts[cname], st)
            except (_Stop, _Raise) as e:
                return _Unk(_LOST, f"module constant {cname}: {e}")
            finally:
                st.frames = saved
                st.depth = saved_depth
        if name in _BUILTIN_NAMES:
            return _Fn("ext", name)
        if name in ("True", "False", "None"):
            return {"True": True, "False": False, "None": None}[name]
        return _Unk(_LOST, f"name {name}")

    # ------------------------------------------------------------------------------------------------ truth / equality
    def nonzero(self, v, st=None):
        """three-valued `v != 0` for an integer-valued value (st: the facts decided earlier on the path)"""
        if isinstance(v, bool) or isinstance(v, int):
            return v != 0
        if isinstance(v, _En):
            return self.nonzero(v.value, st)
        if isinstance(v, _T) and v.op == "dec":
            if st is not None and v in st.facts:
                return not st.facts[v]
            srcv, lo = v.args[0], 0
            if isinstance(srcv, _T) and srcv.op == "slice" and len(srcv.args) == 3:
                srcv, lo = srcv.args[0], srcv.args[1]
            if isinstance(srcv, _Rd) and srcv.pos is not None and (srcv.pos + lo) in self.assume.zero:
                return not self.assume.zero[srcv.pos + lo]
        return None

    def truth(self, st, v):
        if isinstance(v, bool):
            return v
        if _concrete(v):
            return bool(v)
        if isinstance(v, tuple):
            return len(v) > 0
        if isinstance(v, frozenset):
            return len(v) > 0
        if isinstance(v, _Rd):
            return self.nonzero(v.n, st)
        if isinstance(v, _En):
            return self.nonzero(v.value, st)
        if isinstance(v, (_Fn, _EnT)):
            return True
        if isinstance(v, _Ref):
            o = st.heap.get(v.oid)
            if isinstance(o, _HList):
                return True if (o.items and not o.opaque) else None
            if isinstance(o, _HSet):
                return bool(o.items)
            if isinstance(o, _HDict):
                return bool(o.pairs)
            if isinstance(o, _HStream):
                return True
            return None
        if isinstance(v, _T):
            if v.op == "not":
                return _not3(self.truth(st, v.args[0]))
            if v.op == "dec":
                return self.nonzero(v, st)
            if v.op == "eq":
                return self.eq3(st, v.args[0], v.args[1])
            if v.op == "len":
                return self.truth(st, v.args[0])
            if v.op == "seq":
                return len(v.args) > 0
        return None

    def key_eq(self, a, b):
        """Do two values denote the same dict key / set element (hash AND equality)?  A cstruct enum member hashes as
        (class, name, value): it is never found under a plain int key and vice versa."""
        if isinstance(a, _En) or isinstance(b, _En):
            if isinstance(a, _En) and isinstance(b, _En):
                if a.tname != b.tname:
                    return False
                if _concrete(a.value) and _concrete(b.value):
                    return a.value == b.value and a.name == b.name
                return True if a == b else None
            other = b if isinstance(a, _En) else a
            if _concrete(other):
                return False
            return None
        if _concrete(a) and _concrete(b):
            try:
                return a == b and hash(a) == hash(b)
            except TypeError:
                return None
        for x, y in ((a, b), (b, a)):
            if isinstance(x, _Rd) and isinstance(y, bytes):
                return self.rd_eq_bytes(None, x, y)  # equal bytes objects hash alike
        return True if a == b else None

    def hashable_known(self, k):
        return _concrete(k) or (isinstance(k, _En) and _concrete(k.value))

    def eq3(self, st, a, b):
        if isinstance(a, _En) or isinstance(b, _En):
            if isinstance(a, _En) and isinstance(b, _En):
                if a.tname != b.tname:
                    return False
                return self.eq3(st, a.value, b.value)
            e, o = (a, b) if isinstance(a, _En) else (b, a)
            if o is None or isinstance(o, (str, bytes, tuple)):
                return False
            return self.eq3(st, e.value, o)
        if _concrete(a) and _concrete(b):
            return a == b
        if isinstance(a, tuple) and isinstance(b, tuple):
            if len(a) != len(b):
                return False
            return _and3(self.eq3(st, x, y) for x, y in zip(a, b))
        if isinstance(a, tuple) != isinstance(b, tuple) and (isinstance(a, tuple) or isinstance(b, tuple)):
            o = b if isinstance(a, tuple) else a
            if _concrete(o) or isinstance(o, (_Rd, _En)):
                return False
            return None
        if a == b and not isinstance(a, _Unk):
            return True
        # integers against zero
        for x, y in ((a, b), (b, a)):
            if isinstance(y, int) and not isinstance(y, bool) and isinstance(x, _T) and x.op == "dec":
                nz = self.nonzero(x, st)
                if y == 0 and nz is not None:
                    return not nz
                if y != 0 and nz is False:
                    return False
                if y < 0 and x.args[2] is False:
                    return False
                return None
            if isinstance(y, bytes) and isinstance(x, _Rd):
                return self.rd_eq_bytes(st, x, y)
            if y is None and isinstance(x, (_Rd, _Ref, _Fn, _EnT)):
                return False
            if y is None and isinstance(x, _T) and x.op in ("dec", "fstr", "len", "slice"):
                return False
        if isinstance(a, _Ref) and isinstance(b, _Ref):
            oa, ob = st.heap.get(a.oid), st.heap.get(b.oid)
            if isinstance(oa, _HList) and isinstance(ob, _HList) and not oa.opaque and not ob.opaque:
                if self.note_query(st, oa) | self.note_query(st, ob):
                    return None
                if len(oa.items) != len(ob.items):
                    return False
                return _and3(self.eq3(st, x, y) for x, y in zip(oa.items, ob.items))
        fa, fb = self.as_set(a, st), self.as_set(b, st)
        if fa is not None and fb is not None and (isinstance(a, (_Ref, frozenset)) and isinstance(b, (_Ref, frozenset))):
            return fa == fb
        return None

    def cmp_eq(self, st, a, b):
        r = self.eq3(st, a, b)
        return r if r is not None else _T("eq", (a, b))

    def contains(self, st, x, c, node):
        """three-valued / symbolic `x in c`"""
        if isinstance(c, (tuple,)):
            r = _or3(self.eq3(st, x, e) for e in c)
            return r if r is not None else _T("in", (x, c))
        if isinstance(c, frozenset):
            r = _or3(self.key_eq(x, e) for e in c)
            return r if r is not None else _T("in", (x, c))
        if isinstance(c, (str, bytes)) and _concrete(x):
            try:
                return x in c
            except TypeError:
                return False
        if isinstance(c, _EnT):
            en = self.enum_of(c)
            if isinstance(x, _En):
                return x.tname == c.tname
            if isinstance(x, int):
                return any(v == x for _n, v in en.members)
        if isinstance(c, _Ref):
            o = st.heap.get(c.oid)
            if isinstance(o, _HList) and not o.opaque:
                r = _or3(self.eq3(st, x, e) for e in o.items)
                if r is not True and self.note_query(st, o):
                    r = None  # it may be in the part of the list that is not known
                return r if r is not None else _T("in", (x, c))
            if isinstance(o, _HSet):
                r = _or3(self.key_eq(x, e) for e in o.items)
                return r if r is not None else _T("in", (x, c))
            if isinstance(o, _HDict):
                r = _or3(self.key_eq(x, k) for k, _v in o.pairs)
                return r if r is not None else _T("in", (x, c))
            if isinstance(o, _HSym) and o.elems is not None:
                hits = [cond for e, cond in o.elems.items() if self.key_eq(x, e) is True]
                if not hits and all(self.key_eq(x, e) is False for e in o.elems):
                    return False
                if hits and hits[0] is True:
                    return True
        return _T("in", (x, c))

    # ------------------------------------------------------------------------------------------------ sets
    def as_set(self, v, st):
        if isinstance(v, frozenset):
            return v
        if isinstance(v, _Ref):
            o = st.heap.get(v.oid)
            if isinstance(o, _HSet):
                return frozenset(o.items)
        return None

    def sym_sub(self, o, fs, st):
        o.subs.append(fs)
        if o.elems is not None:
            for e in list(o.elems):
                if any(self.key_eq(e, x) is True for x in fs):
                    del o.elems[e]
        st.events.append(("sub", o.root, fs))

    _MIRROR = {"superset": "subset", "subset": "superset", "psuperset": "psubset", "psubset": "psuperset", "eq": "eq"}

    def set_test(self, st, kind, a, b, node):
        """value of a set comparison `a <kind> b`, kind one of superset (>=), subset (<=), psuperset (>), psubset (<), eq.

        A comparison of a symbolic subset A' (the option set minus what has been removed from it) with a constant set B is
        decided where lemma S0 decides it and is a boolean unknown (term `settest`) otherwise; every such test is recorded
        as an event with the sets removed so far, so that a rule can evaluate it in an abstract state of the subset."""
        oa = st.heap.get(a.oid) if isinstance(a, _Ref) else None
        ob = st.heap.get(b.oid) if isinstance(b, _Ref) else None
        if isinstance(ob, _HSym) and not isinstance(oa, _HSym):
            a, b, oa, ob, kind = b, a, ob, oa, self._MIRROR[kind]
        fs_b = self.as_set(b, st)
        if isinstance(oa, _HSym) and fs_b is not None:
            sup = sub = None
            if oa.elems is not None:
                # S0.  A' >= B: false if an element of B is outside the universe / already removed, true if all are in A'
                # unconditionally.  A' <= B: true if every element that may be in A' is in B, false if an unconditional one is not.
                conds = []
                for x in fs_b:
                    hit = [c for e, c in oa.elems.items() if self.key_eq(e, x) is True]
                    if not hit:
                        sup = False
                        break
                    conds.append(hit[0])
                if sup is None and all(c is True for c in conds):
                    sup = True
                outside = [c for e, c in oa.elems.items() if not any(self.key_eq(e, x) is True for x in fs_b)]
                sub = True if not outside else (False if any(c is True for c in outside) else None)
            r = {"superset": sup, "subset": sub, "eq": _and3((sup, sub)), "psuperset": _and3((sup, _not3(sub))), "psubset": _and3((sub, _not3(sup)))}[kind]
            if r is None:
                r = _T("settest", (oa.root, kind, fs_b, len(st.events)))
            st.events.append(("settest", oa.root, kind, fs_b, tuple(oa.subs), r))
            return r
        fs_a = self.as_set(a, st)
        if fs_a is not None and fs_b is not None:
            return {"superset": fs_a >= fs_b, "subset": fs_a <= fs_b, "eq": fs_a == fs_b, "psuperset": fs_a > fs_b, "psubset": fs_a < fs_b}[kind]
        return _T("cmp", (kind, a, b))

    def superset(self, st, big, small, node):
        """value of `big >= small` for set-like values"""
        return self.set_test(st, "superset", big, small, node)

    def is_sym(self, st, v):
        return isinstance(v, _Ref) and isinstance(st.heap.get(v.oid), _HSym)

    def list_extend(self, o, val, st):
        self.note_mut(st, o)
        seq = None
        if isinstance(val, _Ref) and isinstance(st.heap.get(val.oid), _HSym):
            hs = st.heap[val.oid]
            o.items.append(_T("rest", (hs.root, tuple(hs.subs))))
            return
        seq = self.iterate(val, st)
        if seq is None:
            o.items.append(_T("*", (val,)))
        else:
            o.items.extend(seq)

    # ------------------------------------------------------------------------------------------------ expressions
    def ev(self, e, st):
        self.nsteps += 1
        if self.nsteps > self.MAX_STEPS:
            raise _Stop("step budget exceeded")
        m = getattr(self, "ev_" + type(e).__name__, None)
        if m is None:
            raise _Stop(f"expression {type(e).__name__} is not modelled")
        return m(e, st)

    def ev_Constant(self, e, st):
        return e.value

    def ev_Name(self, e, st):
        return self.lookup(e.id, st)

    def ev_Tuple(self, e, st):
        out = []
        for x in e.elts:
            if isinstance(x, ast.Starred):
                seq = self.iterate(self.ev(x.value, st), st)
                if seq is None:
                    return _Unk(_LOST, "starred")
                out.extend(seq)
            else:
                out.append(self.ev(x, st))
        return tuple(out)

    def ev_List(self, e, st):
        items = self.ev_Tuple(e, st)
        if isinstance(items, _Unk):
            return items
        return st.alloc(e, _HList(items), "list")

    def ev_Set(self, e, st):
        items = self.ev_Tuple(e, st)
        if isinstance(items, _Unk):
            return items
        if not all(self.hashable_known(x) for x in items):
            return _Unk(_LOST, "set of values that are not known")
        return st.alloc(e, _HSet(items), "set")

    def ev_Dict(self, e, st):
        pairs = []
        for k, v in zip(e.keys, e.values):
            if k is None:
                return _Unk(_LOST, "dict unpacking")
            pairs.append([self.ev(k, st), self.ev(v, st)])
        return st.alloc(e, _HDict(pairs), "dict")

    def ev_JoinedStr(self, e, st):
        parts = []
        for p in e.values:
            if isinstance(p, ast.Constant):
                parts.append(p.value)
            else:
                v = self.ev(p.value, st)
                spec = self.ev(p.format_spec, st) if p.format_spec is not None else ""
                parts.append(self.fmt_value(v, p.conversion, spec))
        return self.join_parts(parts)

    def fmt_value(self, v, conv, spec):
        if isinstance(v, (int, str)) and not isinstance(v, bool) and isinstance(spec, str) and conv in (-1, None):
            try:
                return format(v, spec)
            except Exception:
                pass
        return _T("fv", (v, conv if conv is not None else -1, spec))

    @staticmethod
    def join_parts(parts):
        out = []
        for p in parts:
            if isinstance(p, str) and out and isinstance(out[-1], str):
                out[-1] += p
            elif p != "":
                out.append(p)
        if not out:
            return ""
        if len(out) == 1 and isinstance(out[0], str):
            return out[0]
        return _T("fstr", tuple(out))

    def ev_FormattedValue(self, e, st):
        return self.fmt_value(self.ev(e.value, st), e.conversion, self.ev(e.format_spec, st) if e.format_spec is not None else "")

    def ev_UnaryOp(self, e, st):
        v = self.ev(e.operand, st)
        if isinstance(e.op, ast.Not):
            t = self.truth(st, v)
            return (not t) if t is not None else _T("not", (v,))
        if _concrete(v) and v is not None:
            try:
                return {ast.USub: lambda x: -x, ast.UAdd: lambda x: +x, ast.Invert: lambda x: ~x}[type(e.op)](v)
            except Exception:
                return _Unk(_LOST, "unary")
        return _T("un" + type(e.op).__name__, (v,))

    def ev_BoolOp(self, e, st):
        v = None
        for i, x in enumerate(e.values):
            v = self.ev(x, st)
            if i == len(e.values) - 1:
                return v
            t = self.decide(st, v, x)
            if isinstance(e.op, ast.And) and not t:
                return v
            if isinstance(e.op, ast.Or) and t:
                return v
        return v

    def ev_IfExp(self, e, st):
        t = self.decide(st, self.ev(e.test, st), e.test)
        return self.ev(e.body if t else e.orelse, st)

    def ev_NamedExpr(self, e, st):
        v = self.ev(e.value, st)
        self.assign(e.target, v, st)
        return v

    def ev_Lambda(self, e, st):
        self.lambdas[id(e)] = (e, st.frames[-1])
        return _Fn("lambda", id(e))

    def ev_Starred(self, e, st):
        return _Unk(_LOST, "starred")

    def ev_Compare(self, e, st):
        left = self.ev(e.left, st)
        res = True
        for op, rn in zip(e.ops, e.comparators):
            right = self.ev(rn, st)
            r = self.compare(op, left, right, st, e)
            if r is False:
                return False
            if r is not True:
                if res is not True:
                    return _T("and", (res, r))
                res = r
            left = right
        return res

    def compare(self, op, a, b, st, node):
        if isinstance(op, (ast.Eq, ast.NotEq)) and (self.is_sym(st, a) or self.is_sym(st, b)) and a != b:
            other = b if self.is_sym(st, a) else a
            if self.as_set(other, st) is not None:
                r = self.set_test(st, "eq", a, b, node)
                if isinstance(op, ast.Eq):
                    return r
                return (not r) if isinstance(r, bool) else _T("not", (r,))
        if isinstance(op, (ast.Eq, ast.NotEq)):
            # S1: the size of a subset of a finite set is 0 iff it is empty, and the size of the whole set iff it is the whole set
            for x, y in ((a, b), (b, a)):
                if isinstance(x, _T) and x.op == "len" and self.is_sym(st, x.args[0]) and isinstance(y, int) and not isinstance(y, bool):
                    hs = st.heap[x.args[0].oid]
                    r = None
                    if y == 0:
                        r = self.set_test(st, "eq", x.args[0], frozenset(), node)
                    elif hs.elems is not None and all(self.hashable_known(e2) for e2 in hs.elems):
                        r = self.set_test(st, "superset", x.args[0], frozenset(hs.elems), node) if y == len(hs.elems) else (False if y > len(hs.elems) else None)
                    if r is not None:
                        if isinstance(op, ast.Eq):
                            return r
                        return (not r) if isinstance(r, bool) else _T("not", (r,))
        if isinstance(op, ast.Eq):
            return self.cmp_eq(st, a, b)
        if isinstance(op, ast.NotEq):
            r = self.eq3(st, a, b)
            return (not r) if r is not None else _T("not", (_T("eq", (a, b)),))
        if isinstance(op, (ast.Is, ast.IsNot)):
            r = None
            if a is None or b is None:
                o = b if a is None else a
                if o is None:
                    r = True
                elif _concrete(o) or isinstance(o, (_Rd, _En, _Ref, _Fn, _EnT, tuple, frozenset)) or (isinstance(o, _T) and o.op in ("dec", "fstr", "len", "slice", "fv")):
                    r = False
            elif isinstance(a, bool) and isinstance(b, bool):
                r = a is b
            elif isinstance(a, _Ref) and isinstance(b, _Ref):
                r = a.oid == b.oid
            elif isinstance(a, _En) and isinstance(b, _En) and _concrete(a.value) and _concrete(b.value):
                r = a == b
            if r is None:
                v = _T("is", (a, b))
                return v if isinstance(op, ast.Is) else _T("not", (v,))
            return r if isinstance(op, ast.Is) else (not r)
        if isinstance(op, (ast.In, ast.NotIn)):
            r = self.contains(st, a, b, node)
            if isinstance(op, ast.In):
                return r
            return (not r) if isinstance(r, bool) else _T("not", (r,))
        if type(op) in _CMP:
            # set comparisons
            sa = isinstance(a, _Ref) and isinstance(st.heap.get(a.oid), (_HSet, _HSym))
            sb = isinstance(b, _Ref) and isinstance(st.heap.get(b.oid), (_HSet, _HSym))
            if (sa or isinstance(a, frozenset)) and (sb or isinstance(b, frozenset)):
                return self.set_test(st, {ast.GtE: "superset", ast.LtE: "subset", ast.Gt: "psuperset", ast.Lt: "psubset"}[type(op)], a, b, node)
            if isinstance(a, _En):
                a = a.value
            if isinstance(b, _En):
                b = b.value
            if _concrete(a) and _concrete(b) and a is not None and b is not None:
                try:
                    return bool(_CMP[type(op)](a, b))
                except Exception:
                    raise _Raise("TypeError")
            # an unsigned decode is never negative
            for x, y, o2 in ((a, b, op), (b, a, {ast.Lt: ast.Gt, ast.Gt: ast.Lt, ast.LtE: ast.GtE, ast.GtE: ast.LtE}[type(op)]())):
                if isinstance(x, _T) and x.op in ("dec", "len") and isinstance(y, int):
                    unsigned = x.op == "len" or x.args[2] is False
                    if unsigned and y <= 0 and isinstance(o2, ast.GtE):
                        return True
                    if unsigned and y <= 0 and isinstance(o2, ast.Lt):
                        return False
                    if unsigned and y == 0 and isinstance(o2, (ast.Gt, ast.LtE)):
                        nz = self.nonzero(x, st) if x.op == "dec" else self.truth(st, x)
                        if nz is not None:
                            return nz if isinstance(o2, ast.Gt) else (not nz)
            return _T("cmp", (type(op).__name__, a, b))
        return _T("cmp", (type(op).__name__, a, b))

    def ev_BinOp(self, e, st):
        return self.binop(e.op, self.ev(e.left, st), self.ev(e.right, st), st, e)

    def binop(self, op, a, b, st, node):
        if isinstance(a, _En) and not isinstance(op, ast.Mod):
            a = a.value
        if isinstance(b, _En) and not isinstance(a, str):
            b = b.value
        # %-formatting and str/bytes concatenation with symbolic parts
        if isinstance(op, ast.Mod) and isinstance(a, str):
            return self.percent_format(a, b, st)
        if _concrete(a) and _concrete(b) and a is not None and b is not None and not isinstance(a, (tuple, frozenset)) and type(op) in _BIN:
            try:
                if isinstance(op, (ast.Mult, ast.LShift, ast.Pow)) and isinstance(b, int) and abs(b) > 1 << 16:
                    return _Unk(_LOST, "large")
                return _BIN[type(op)](a, b)
            except Exception:
                raise _Raise("ArithmeticError")
        if isinstance(a, tuple) and isinstance(b, tuple) and isinstance(op, ast.Add):
            return a + b
        if isinstance(op, ast.Add) and (isinstance(a, (str, _T)) and isinstance(b, (str, _T))) and (isinstance(a, str) or a.op in ("fstr", "fv")) and (isinstance(b, str) or b.op in ("fstr", "fv")):
            pa = list(a.args) if isinstance(a, _T) and a.op == "fstr" else [a]
            pb = list(b.args) if isinstance(b, _T) and b.op == "fstr" else [b]
            return self.join_parts(pa + pb)
        ra = st.heap.get(a.oid) if isinstance(a, _Ref) else None
        rb = st.heap.get(b.oid) if isinstance(b, _Ref) else None
        if isinstance(ra, _HList) and isinstance(op, ast.Add):
            new = _HList(ra.items, ra.root, ra.opaque)
            self.list_extend(new, b, st)
            return st.alloc(node, new, "list")
        # set algebra
        if isinstance(op, (ast.BitOr, ast.BitAnd, ast.Sub, ast.BitXor)):
            fa, fb = self.as_set(a, st), self.as_set(b, st)
            if fa is not None and fb is not None:
                r = {ast.BitOr: fa | fb, ast.BitAnd: fa & fb, ast.Sub: fa - fb, ast.BitXor: fa ^ fb}[type(op)]
                return st.alloc(node, _HSet(r), "set")
            if isinstance(ra, _HSym) and fb is not None and isinstance(op, ast.Sub):
                new = ra.copy()
                self.sym_sub(new, fb, st)
                return st.alloc(node, new, "sym")
        return _T("bin" + type(op).__name__, (a, b))

    def percent_format(self, tmpl, arg, st):
        args = list(arg) if isinstance(arg, tuple) else [arg]
        if all(_concrete(x) for x in args):
            try:
                return tmpl % (tuple(args) if isinstance(arg, tuple) else arg)
            except Exception:
                raise _Raise("TypeError")
        import re

        parts, pos, i = [], 0, 0
        for mm in re.finditer(r"%(?:\((\w+)\))?([#0\- +]*\d*(?:\.\d+)?)([diouxXeEfFgGcrsa%])", tmpl):
            parts.append(tmpl[pos:mm.start()].replace("%%", "%"))
            pos = mm.end()
            if mm.group(3) == "%":
                parts.append("%")
                continue
            if mm.group(1) or i >= len(args):
                return _T("bin%", (tmpl, arg))
            parts.append(_T("fv", (args[i], -1, mm.group(2) + mm.group(3))))
            i += 1
        parts.append(tmpl[pos:])
        return self.join_parts(parts)

    def str_format(self, tmpl, args, kwargs):
        import string

        parts, auto = [], 0
        try:
            fields = list(string.Formatter().parse(tmpl))
        except ValueError:
            return _T("meth:format", (tmpl,) + tuple(args))
        for lit, fname, spec, conv in fields:
            parts.append(lit)
            if fname is None:
                continue
            if fname == "":
                key = auto
                auto += 1
            elif fname.isdigit():
                key = int(fname)
            else:
                key = fname
            if isinstance(key, int):
                if key >= len(args):
                    return _T("meth:format", (tmpl,) + tuple(args))
                v = args[key]
            else:
                if key not in kwargs:
                    return _T("meth:format", (tmpl,) + tuple(args))
                v = kwargs[key]
            if spec and "{" in spec:
                return _T("meth:format", (tmpl,) + tuple(args))
            parts.append(self.fmt_value(v, {"s": 115, "r": 114, "a": 97}.get(conv, -1) if conv else -1, spec or ""))
        return self.join_parts(parts)

    def ev_Subscript(self, e, st):
        base = self.ev(e.value, st)
        if isinstance(e.slice, ast.Slice):
            lo = self.ev(e.slice.lower, st) if e.slice.lower is not None else None
            hi = self.ev(e.slice.upper, st) if e.slice.upper is not None else None
            step = self.ev(e.slice.step, st) if e.slice.step is not None else None
            return self.slice(base, lo, hi, step, st, e)
        key = self.ev(e.slice, st)
        return self.getitem(base, key, st, e)

    def slice(self, base, lo, hi, step, st, node):
        if _concrete(base) and base is not None and all(x is None or isinstance(x, int) for x in (lo, hi, step)):
            try:
                return base[lo:hi:step]
            except Exception:
                raise _Raise("TypeError")
        if isinstance(base, tuple) and all(x is None or isinstance(x, int) for x in (lo, hi, step)):
            return base[lo:hi:step]
        if isinstance(base, _Rd) and step is None and lo in (None, 0):
            if hi is None:
                return base
            if isinstance(hi, int) and isinstance(base.n, int) and hi >= base.n >= 0:
                return base
            if isinstance(hi, int) and hi >= 0:
                return _T("slice", (base, 0, hi))
        if isinstance(base, _Rd) and step is None and isinstance(lo, int) and isinstance(hi, int) and isinstance(base.n, int) and 0 <= lo <= hi <= base.n:
            return _T("slice", (base, lo, hi))
        if isinstance(base, _Ref):
            o = st.heap.get(base.oid)
            if isinstance(o, _HList) and not o.opaque and all(x is None or isinstance(x, int) for x in (lo, hi, step)):
                if not (lo in (None, 0) and hi is None and step is None) and self.note_query(st, o):
                    return _T("slice", (base, lo, hi, step))
                return st.alloc(node, _HList(o.items[lo:hi:step], o.root if (lo in (None, 0) and hi is None and step is None) else None), "list")
        return _T("slice", (base, lo, hi, step))

    def getitem(self, base, key, st, node):
        if isinstance(base, _Rd) and base.n == 1 and key in (0, -1) and not isinstance(key, bool):
            return self.decode(base, "big", False, st)  # lemma I0: for a 1-byte string b, b[0] is its unsigned value
        if isinstance(base, (tuple, str, bytes)) and isinstance(key, int) and not isinstance(key, bool):
            try:
                return base[key]
            except IndexError:
                raise _Raise("IndexError")
        if isinstance(base, _EnT) and isinstance(key, str):
            for n, v in self.enum_of(base).members:
                if n == key:
                    return _En(base.tname, n, v)
            raise _Raise("KeyError")
        if isinstance(base, _Ref):
            o = st.heap.get(base.oid)
            if isinstance(o, _HList) and not o.opaque and isinstance(key, int):
                if not (key < 0 and -key <= len(o.items) - (st.snap or {}).get(o.root, 0)) and self.note_query(st, o):
                    return _T("getitem", (base, key))  # only the items added in this iteration have a known position (from the end)
                try:
                    return o.items[key]
                except IndexError:
                    raise _Raise("IndexError")
            if isinstance(o, _HDict):
                rs = [(self.key_eq(k, key), v) for k, v in o.pairs]
                for r, v in rs:
                    if r is True:
                        return v
                if all(r is False for r, _v in rs):
                    raise _Raise("KeyError")
                return _T("getitem", (base, key))
        if isinstance(base, _Par) and isinstance(key, str):
            return _T("field", (base, key))
        return _T("getitem", (base, key))

    def ev_Attribute(self, e, st):
        base = self.ev(e.value, st)
        return self.getattr(base, e.attr, st, e)

    def getattr(self, base, attr, st, node):
        if isinstance(base, _Fn):
            if base.kind == "ext":
                return _Fn("ext", f"{base.a}.{attr}")
            if base.kind == "pkgmod":
                return self.global_name(base.a, attr, st)
            if base.kind == "class":
                s = self.ctx.rs.lookup_dotted(base.a.split(".")[0], base.a.split(".", 1)[1] + "." + attr)
                v = self._sym_value(s, st, 0) if s is not None else None
                return v if v is not None else _T("attr", (base, attr))
            if base.kind == "structobj":
                if attr == "format":
                    return base.a
                if attr == "size":
                    try:
                        return _PURE_EXT["struct.calcsize"](base.a)  # constant folding of the code's format string
                    except Exception:
                        return _T("attr", (base, attr))
                return _Fn("bmeth", base, attr)
            return _T("attr", (base, attr))
        if isinstance(base, _EnT):
            for n, v in self.enum_of(base).members:
                if n == attr:
                    return _En(base.tname, n, v)
            return _T("attr", (base, attr))
        if isinstance(base, _En):
            if attr == "name":
                return base.name
            if attr == "value":
                return base.value
            return _T("attr", (base, attr))
        if isinstance(base, _Par):
            return _T("field", (base, attr))
        if isinstance(base, _Unk):
            return base
        return _Fn("bmeth", base, attr)

    # ------------------------------------------------------------------------------------------------ comprehensions
    def _comp(self, e, st, kind):
        fr = st.frames[-1]
        inner = _Frame({}, fr.mod, fr.func, fr, frozenset())
        results = []  # (value or (k, v), condition)
        unknown = [False]

        def rec(i):
            if i == len(e.generators):
                if isinstance(e, ast.DictComp):
                    results.append(((self.ev(e.key, st), self.ev(e.value, st)), cond_stack[-1] if cond_stack else True))
                else:
                    results.append((self.ev(e.elt, st), cond_stack[-1] if cond_stack else True))
                return
            g = e.generators[i]
            seq = self.iterate(self.ev(g.iter, st), st)
            if seq is None:
                unknown[0] = True
                return
            for x in seq:
                self.assign(g.target, x, st)
                cond = cond_stack[-1] if cond_stack else True
                skip = False
                for c in g.ifs:
                    v = self.ev(c, st)
                    t = self.truth(st, v)
                    if t is False:
                        skip = True
                        break
                    if t is None:
                        cond = v if cond is True else _T("and", (cond, v))
                if skip:
                    continue
                cond_stack.append(cond)
                rec(i + 1)
                cond_stack.pop()

        cond_stack = []
        st.frames.append(inner)
        try:
            rec(0)
        finally:
            st.frames.pop()
        return results, unknown[0]

    def _comp_value(self, e, st, kind):
        results, unknown = self._comp(e, st, kind)
        if unknown:
            return st.alloc(e, _HSym(None, kind, None, (), e), "sym")
        if all(c is True for _v, c in results):
            vals = [v for v, _c2 in results]
            if kind == "set":
                if all(self.hashable_known(v) for v in vals):
                    return st.alloc(e, _HSet(vals), "set")
                return _Unk(_LOST, "set comprehension")
            if kind == "dict":
                return st.alloc(e, _HDict([[k, v] for k, v in vals]), "dict")
            if kind == "gen":
                return _T("seq", tuple(vals))
            return st.alloc(e, _HList(vals), "list")
        if kind == "dict":
            return _Unk(_LOST, "filtered dict comprehension")
        elems = {}
        for v, c in results:
            if not self.hashable_known(v):
                return st.alloc(e, _HSym(None, kind, None, (), e), "sym")
            if v in elems and elems[v] is not True:
                elems[v] = c if c is True else elems[v]
            else:
                elems.setdefault(v, c)
        return st.alloc(e, _HSym(None, kind, elems, (), e), "sym")

    def ev_SetComp(self, e, st):
        return self._comp_value(e, st, "set")

    def ev_ListComp(self, e, st):
        return self._comp_value(e, st, "list")

    def ev_GeneratorExp(self, e, st):
        return self._comp_value(e, st, "gen")

    def ev_DictComp(self, e, st):
        return self._comp_value(e, st, "dict")

    # ------------------------------------------------------------------------------------------------ calls
    def ev_Call(self, e, st):
        fn = self.ev(e.func, st)
        args, kwargs = [], {}
        for a in e.args:
            if isinstance(a, ast.Starred):
                seq = self.iterate(self.ev(a.value, st), st)
                if seq is None:
                    return _Unk(_LOST, "starred call")
                args.extend(seq)
            else:
                args.append(self.ev(a, st))
        for k in e.keywords:
            if k.arg is None:
                return _Unk(_LOST, "** call")
            kwargs[k.arg] = self.ev(k.value, st)
        top = st.depth == 0
        if top:
            st.site = e
        return self.call(fn, args, kwargs, st, e)

    def escape(self, vals, st):
        for v in vals:
            if isinstance(v, _Ref):
                o = st.heap.get(v.oid)
                if isinstance(o, _HList):
                    self.note_mut(st, o)
                    o.opaque = True
                    st.events.append(("escape", o.root))
                elif isinstance(o, _HStream):
                    raise _Stop("the stream is handed to code that is not modelled")

    def call(self, fn, args, kwargs, st, node):
        if isinstance(fn, _Fn):
            k = fn.kind
            if k == "ext":
                return self.call_ext(fn.a, args, kwargs, st, node)
            if k == "func":
                return self.call_func(fn.a, list(fn.c or ()) + list(args), {**dict(fn.b or ()), **kwargs}, st, node)
            if k == "partial":
                return self.call(fn.a, list(fn.b) + list(args), {**dict(fn.c), **kwargs}, st, node)
            if k == "bmeth":
                return self.call_method(fn.a, fn.b, args, kwargs, st, node)
            if k == "lambda":
                return self.call_lambda(fn, args, kwargs, st, node)
            if k == "class":
                self.escape(list(args) + list(kwargs.values()), st)
                return _T("new", (fn.a,) + tuple(args))
            if k == "struct":
                return _T("new", (fn.a,) + tuple(args))
        if isinstance(fn, _EnT):
            return self.make_enum(fn, args[0] if args else 0, st)
        if isinstance(fn, _T) and fn.op == "field":
            # attribute of an opaque value that is called: a method call on that value
            return self.call_method(fn.args[0], fn.args[1], args, kwargs, st, node)
        self.escape(list(args) + list(kwargs.values()), st)
        if isinstance(fn, _Unk):
            return _Unk(fn.deps | _deps(tuple(args)), "call of a value that is not known")
        return _T("call", (fn,) + tuple(args) + tuple(sorted(kwargs.items(), key=lambda kv: kv[0])))

    def make_enum(self, t, v, st):
        en = self.enum_of(t)
        cd = self.ctx.cdefs(t.mod)[t.var]
        if isinstance(v, _En):
            v = v.value
        if isinstance(v, bytes):
            ts = cd.type_size(en.base) or (4, False)
            if len(v) < ts[0]:
                raise _Raise("EOFError")
            v = int.from_bytes(v[: ts[0]], "big" if cd.endian == ">" else "little", signed=ts[1])
        if isinstance(v, _Rd) or (isinstance(v, _T) and v.op == "slice"):
            ts = cd.type_size(en.base) or (4, False)
            v = self.decode(v, "big" if cd.endian == ">" else "little", ts[1], st, ts[0])
        if isinstance(v, int):
            names = [n for n, x in en.members if x == v]
            return _En(t.tname, names[0] if names else None, v)
        return _En(t.tname, _T("name", (v,)), v)

    def call_func(self, f, args, kwargs, st, node):
        if self.intercept:
            # the call itself is the result: which package function is applied to what
            pos = [x.arg for x in f.node.args.posonlyargs + f.node.args.args]
            return _T("invoke", (f.fq, tuple(sorted(list(zip(pos, args)) + list(kwargs.items()), key=lambda kv: kv[0]))))
        if st.depth >= self.MAX_DEPTH:
            self.escape(list(args) + list(kwargs.values()), st)
            return _Unk(_LOST | _deps(tuple(args)), f"call depth at {f.fq}")
        fn = f.node
        a = fn.args
        if a.vararg or a.kwarg:
            self.escape(list(args) + list(kwargs.values()), st)
            return _T("call", (f.fq,) + tuple(args))
        pos = [x.arg for x in a.posonlyargs + a.args]
        names = pos + [x.arg for x in a.kwonlyargs]
        env = {}
        if len(args) > len(pos):
            raise _Raise("TypeError")
        for p, v in zip(pos, args):
            env[p] = v
        for k, v in kwargs.items():
            if k not in names:
                raise _Raise("TypeError")
            env[k] = v
        dfl = param_defaults(fn)
        for p in names:
            if p not in env:
                if p not in dfl:
                    raise _Raise("TypeError")
                saved = st.frames
                st.frames = [_Frame({}, f.module.name)]
                try:
                    env[p] = self.ev(dfl[p], st)
                finally:
                    st.frames = saved
        if any(isinstance(n, (ast.Yield, ast.YieldFrom)) for n in body_walk(fn)):
            self.escape(list(args) + list(kwargs.values()), st)
            return _T("call", (f.fq,) + tuple(args))
        saved, saved_depth = st.frames, st.depth
        st.frames = [_Frame(env, f.module.name, f, None, self._locals(fn))]
        st.depth += 1
        try:
            res = self.block(fn.body, st)
        finally:
            st.frames, st.depth = saved, saved_depth
        if len(res) != 1:
            raise _Stop(f"callee {f.fq} does not evaluate to a single path")
        _st, sig = res[0]
        if sig is None:
            return None
        if isinstance(sig, tuple) and sig[0] == "return":
            return sig[1]
        if isinstance(sig, tuple) and sig[0] == "raise":
            raise _Raise(sig[1])
        raise _Stop(f"callee {f.fq} ends with {sig}")

    def call_lambda(self, fn, args, kwargs, st, node):
        ent = self.lambdas.get(fn.a)
        if ent is None or st.depth >= self.MAX_DEPTH:
            return _Unk(_LOST, "lambda")
        lam, _frame = ent
        a = lam.args
        pos = [x.arg for x in a.posonlyargs + a.args]
        env = dict(zip(pos, args))
        env.update(kwargs)
        dfl = param_defaults(lam) if not isinstance(lam, ast.Lambda) else {p.arg: d for p, d in zip(a.args[len(a.args) - len(a.defaults):], a.defaults)}
        for p in pos:
            if p not in env:
                if p in dfl:
                    env[p] = self.ev(dfl[p], st)
                else:
                    raise _Raise("TypeError")
        cur = st.frames[-1]
        st.frames.append(_Frame(env, cur.mod, cur.func, cur, frozenset(env) if isinstance(lam, ast.Lambda) else self._locals(lam)))
        st.depth += 1
        try:
            if isinstance(lam, ast.Lambda):
                return self.ev(lam.body, st)
            res = self.block(lam.body, st)
        finally:
            st.depth -= 1
            st.frames.pop()
        if len(res) != 1:
            raise _Stop("nested function does not evaluate to a single path")
        sig = res[0][1]
        if sig is None:
            return None
        if isinstance(sig, tuple) and sig[0] == "return":
            return sig[1]
        if isinstance(sig, tuple) and sig[0] == "raise":
            raise _Raise(sig[1])
        raise _Stop("nested function ends abnormally")

    def assumed_value(self, rd, lo, width, byteorder, signed):
        """Constant propagation of the run's assumption `value[i] = V` ("the unsigned big-endian integer over the whole
        of read #i is V") into a decode of that read: V when the decode is that very integer, else None (the decode
        stays a symbolic term).  Lemmas used, besides the identity for (whole read, 'big', unsigned):
          D1  a 1-byte string decodes to the same integer in both byte orders (there is nothing to reorder);
          D2  the signed and the unsigned decoding of w bytes agree when the unsigned value is < 2**(8w-1) (the sign
              bit is clear)."""
        v = self.assume.value.get(rd.idx)
        if v is None or lo != 0 or not isinstance(width, int) or isinstance(width, bool) or width != rd.n or width <= 0:
            return None
        if not (0 <= v < 1 << (8 * width)):
            return None
        if byteorder != "big" and width != 1:  # D1
            return None
        if signed and v >= 1 << (8 * width - 1):  # D2
            return None
        return v

    def rd_eq_bytes(self, st, x, y):
        """three-valued `x == y` for a read x and a bytes constant y of the analysed code.  Lemmas:
          B1  byte strings of different lengths differ (reads are complete: len(x) is the requested length);
          B2  the fixed-width big-endian unsigned encoding is injective: a whole w-byte read whose big-endian value is
              assumed to be V equals a w-byte constant iff the constant's big-endian value (constant folding) is V."""
        if _concrete(x.n):
            if x.n != len(y):
                return False  # B1
            v = self.assume.value.get(x.idx)
            if v is not None:
                return int.from_bytes(y, "big") == v  # B2
            return None
        if len(y) == 0:
            return _not3(self.nonzero(x.n, st))
        return None

    def decode(self, data, byteorder, signed, st, size=None):
        """int.from_bytes(data[:size], byteorder, signed=signed)"""
        if size is not None:
            data = self.slice(data, None, size, None, st, None)
        if isinstance(data, bytes) and isinstance(byteorder, str):
            try:
                v = int.from_bytes(data, byteorder, signed=bool(signed))
            except Exception:
                raise _Raise("ValueError")
            st.events.append(("dec", st.site, None, len(data), byteorder, bool(signed), True))
            return v
        base = data
        width, lo = None, 0
        if isinstance(base, _T) and base.op == "slice" and len(base.args) == 3:
            lo = base.args[1]
            width = base.args[2] - lo
            base = base.args[0]
        if isinstance(base, _Rd) and isinstance(byteorder, str) and isinstance(signed, (bool, int)):
            if width is None:
                width = base.n
            st.events.append(("dec", st.site, base.idx, width, byteorder, bool(signed), lo == 0 and width == base.n))
            known = self.assumed_value(base, lo, width, byteorder, bool(signed))
            if known is not None:
                return known
            return _T("dec", (data, byteorder, bool(signed)))
        return _T("call", ("int.from_bytes", data, byteorder, signed))

    def struct_unpack(self, fmt, rd, st, exact=True):
        import re
        import struct

        m = re.fullmatch(r"([<>!=])((?:\d*[BHILQbhilqx])+)", fmt.replace(" ", ""))
        if not m:
            return None
        bo = "little" if m.group(1) == "<" else "big" if m.group(1) in (">", "!") else sys_byteorder()
        try:
            total = struct.calcsize(fmt)
        except struct.error:
            return None
        if (exact and total != rd.n) or total > rd.n:
            raise _Raise("struct.error")
        out, pos = [], 0
        for cnt, code in re.findall(r"(\d*)([BHILQbhilqx])", m.group(2)):
            w = struct.calcsize(m.group(1) + code)
            for _ in range(int(cnt) if cnt else 1):
                if code != "x":
                    out.append(self.decode(self.slice(rd, pos, pos + w, None, st, None), bo, code.islower(), st))
                pos += w
        return tuple(out)

    def call_ext(self, name, args, kwargs, st, node):
        args, kwargs = _bind_lib(_EXT_PARAMS.get(name), args, kwargs)
        a0 = args[0] if args else None
        if name == "io.BytesIO":
            return st.alloc(node, _HStream(a0 if args else b""), "stream")
        if name in ("functools.partial", "partial"):
            if not args:
                raise _Raise("TypeError")
            return _Fn("partial", args[0], tuple(args[1:]), tuple(sorted(kwargs.items())))
        if name == "int.from_bytes":
            bo = args[1] if len(args) > 1 else kwargs.get("byteorder", "big")
            return self.decode(a0, bo, kwargs.get("signed", False), st)
        if name in ("bytes", "bytearray", "memoryview") and len(args) == 1 and (isinstance(a0, (_Par, _Rd, bytes)) or (isinstance(a0, _T) and a0.op in ("slice", "cast"))):
            return a0 if not isinstance(a0, _Par) else _T("cast", (a0,))
        if name == "len" and len(args) == 1:
            return self.length(a0, st)
        if name == "bool" and len(args) == 1:
            t = self.truth(st, a0)
            return t if t is not None else _T("not", (_T("not", (a0,)),))
        if name == "isinstance" and len(args) == 2:
            return self.isinstance_(a0, args[1])
        if name == "getattr" and len(args) >= 2 and isinstance(args[1], str):
            return self.getattr(a0, args[1], st, node)
        if name in ("set", "frozenset", "list", "tuple", "sorted", "reversed", "iter"):
            if not args:
                return {"set": lambda: st.alloc(node, _HSet(), "set"), "frozenset": lambda: frozenset(), "list": lambda: st.alloc(node, _HList(), "list"),
                        "tuple": lambda: ()}.get(name, lambda: _Unk(_LOST, name))()
            o = st.heap.get(a0.oid) if isinstance(a0, _Ref) else None
            if name == "list" and len(args) == 1 and isinstance(o, _HList) and not o.opaque:
                return st.alloc(node, _HList(o.items, o.root), "list")  # a copy: same lineage (not an inspection)
            if isinstance(o, _HSym):
                # (the order in which a set is listed is not part of what the rules compare)
                new = o.copy()
                new.kind = "list" if name in ("sorted", "reversed") else name
                return st.alloc(node, new, "sym")
            seq = self.iterate(a0, st)
            if seq is None:
                if isinstance(o, _HList):
                    st.events.append(("reorder", o.root, name)) if name in ("sorted", "reversed") else None
                return _T("call", (name,) + tuple(args))
            if name in ("sorted", "reversed") and isinstance(o, _HList):
                st.events.append(("reorder", o.root, name))
            if name == "sorted":
                if all(_concrete(x) for x in seq) and not kwargs:
                    try:
                        return st.alloc(node, _HList(sorted(seq)), "list")
                    except TypeError:
                        pass
                return _T("call", (name,) + tuple(args))
            if name == "reversed":
                return _T("seq", tuple(reversed(seq)))
            if name in ("set", "frozenset"):
                if not all(self.hashable_known(x) for x in seq):
                    return _T("call", (name,) + tuple(args))
                return st.alloc(node, _HSet(seq), "set") if name == "set" else frozenset(seq)
            if name == "list":
                return st.alloc(node, _HList(seq, o.root if isinstance(o, _HList) else None), "list")
            if name == "tuple":
                return tuple(seq)
            return _T("seq", tuple(seq))
        if name == "struct.Struct" and len(args) == 1 and isinstance(a0, (str, bytes)) and not kwargs:
            # a precompiled format: the object is its (constant) format string, struct.Struct(fmt).unpack == struct.unpack(fmt, .)
            return _Fn("structobj", a0.decode("ascii", "replace") if isinstance(a0, bytes) else a0)
        if name in ("collections.OrderedDict", "OrderedDict"):
            name = "dict"  # an insertion-ordered mapping, like every dict (lemma O0)
        if name == "dict":
            if not args and not kwargs:
                return st.alloc(node, _HDict(), "dict")
            o = st.heap.get(a0.oid) if isinstance(a0, _Ref) else None
            if isinstance(o, _HDict) and not kwargs:
                return st.alloc(node, _HDict(o.pairs), "dict")
            seq = self.iterate(a0, st) if args else []
            if seq is not None and all(isinstance(x, tuple) and len(x) == 2 for x in seq):
                return st.alloc(node, _HDict([list(x) for x in seq] + [[k, v] for k, v in kwargs.items()]), "dict")
            return _T("call", (name,) + tuple(args))
        if name == "dict.fromkeys" and 1 <= len(args) <= 2:
            seq = self.iterate(a0, st)
            if seq is not None and all(self.hashable_known(x) for x in seq):
                return st.alloc(node, _HDict([[x, args[1] if len(args) > 1 else None] for x in seq]), "dict")
        if name in ("zip", "enumerate", "range", "map", "filter"):
            if name == "range" and all(isinstance(x, int) for x in args) and args:
                r = range(*args)
                return tuple(r) if len(r) <= 4096 else _Unk(_LOST, "large range")
            seqs = [self.iterate(x, st) for x in args]
            if name == "zip" and all(s is not None for s in seqs):
                return _T("seq", tuple(tuple(x) for x in zip(*seqs)))
            if name == "enumerate" and seqs and seqs[0] is not None:
                start = args[1] if len(args) > 1 else kwargs.get("start", 0)
                if isinstance(start, int):
                    return _T("seq", tuple((i + start, x) for i, x in enumerate(seqs[0])))
            return _T("call", (name,) + tuple(args))
        if name in ("any", "all") and len(args) == 1:
            o = st.heap.get(a0.oid) if isinstance(a0, _Ref) else None
            seq = self.iterate(a0, st)
            if seq is not None:
                ts = [self.truth(st, x) for x in seq]
                r = _or3(ts) if name == "any" else _and3(ts)
                if r is not None:
                    return r
            return _T("call", (name, a0))
        if name in ("int", "str", "hex", "repr", "abs", "min", "max", "sum", "ord", "chr", "format", "divmod"):
            vals = [x.value if isinstance(x, _En) and name in ("int", "hex") else x for x in args]
            if vals and all(_concrete(x) for x in vals) and not kwargs:
                try:
                    return {"int": int, "str": str, "hex": hex, "repr": repr, "abs": abs, "min": min, "max": max, "sum": sum, "ord": ord, "chr": chr,
                            "format": format, "divmod": divmod}[name](*vals)
                except Exception:
                    raise _Raise("ValueError")
            if name == "int" and len(vals) == 1 and isinstance(vals[0], _T) and vals[0].op == "dec":
                return vals[0]
            if name == "ord" and len(vals) == 1 and isinstance(vals[0], _Rd) and vals[0].n == 1:
                return self.decode(vals[0], "big", False, st)  # lemma I0
            return _T("call", (name,) + tuple(vals))
        if name == "print":
            return None
        if name in _PURE_EXT and all(_concrete(x) for x in list(args) + list(kwargs.values())):
            try:
                r = _PURE_EXT[name](*args, **kwargs)
            except Exception as e:
                raise _Raise(type(e).__name__)
            return r if _concrete(r) else _Unk(_LOST, name)
        if name in ("struct.unpack", "struct.unpack_from") and len(args) == 2 and isinstance(a0, str) and isinstance(args[1], _Rd) and isinstance(args[1].n, int):
            r = self.struct_unpack(a0, args[1], st, exact=name == "struct.unpack")
            if r is not None:
                return r
        if name in ("hasattr", "callable", "id", "type", "next", "object"):
            return _T("call", (name,) + tuple(args))
        if name in ("ValueError", "IndexError", "KeyError", "TypeError", "Exception", "RuntimeError", "NotImplementedError", "AttributeError", "EOFError"):
            return _T("new", (name,) + tuple(args))
        self.escape(list(args) + list(kwargs.values()), st)
        return _T("call", (name,) + tuple(args) + tuple(sorted(kwargs.items(), key=lambda kv: kv[0])))

    def isinstance_(self, v, t):
        names = []
        for x in (t if isinstance(t, tuple) else (t,)):
            if isinstance(x, _Fn) and x.kind == "ext":
                names.append(x.a)
            else:
                return _T("call", ("isinstance", v, t))
        py = None
        if isinstance(v, bool):
            py = {"bool", "int"}
        elif isinstance(v, int):
            py = {"int"}
        elif isinstance(v, str):
            py = {"str"}
        elif isinstance(v, bytes) or isinstance(v, _Rd):
            py = {"bytes"}
        elif isinstance(v, _T) and v.op == "dec":
            py = {"int"}
        elif isinstance(v, _En):
            py = {"int"}
        elif isinstance(v, tuple):
            py = {"tuple"}
        if py is None:
            return _T("call", ("isinstance", v, t))
        return any(n in py for n in names)

    def length(self, v, st):
        if isinstance(v, (str, bytes, tuple, frozenset)):
            return len(v)
        if isinstance(v, _Rd):
            return v.n
        if isinstance(v, _T) and v.op == "slice" and len(v.args) == 3 and isinstance(v.args[0], _Rd) and isinstance(v.args[0].n, int):
            return min(v.args[0].n, v.args[2])
        if isinstance(v, _Ref):
            o = st.heap.get(v.oid)
            if isinstance(o, _HList) and not o.opaque and not any(isinstance(x, _T) and x.op in ("*", "rest") for x in o.items):
                if self.note_query(st, o):
                    return _T("len", (_T("list", (o.root,)),))
                return len(o.items)
            if isinstance(o, _HSet):
                return len(o.items)
            if isinstance(o, _HDict):
                return len(o.pairs)
        return _T("len", (v,))

    def call_method(self, recv, attr, args, kwargs, st, node):
        if not isinstance(recv, (_Ref, _Fn)):
            args, kwargs = _bind_lib(_METH_PARAMS.get(attr), args, kwargs)  # bytes / str / int methods (library signatures)
        a0 = args[0] if args else None
        if isinstance(recv, _Fn) and recv.kind == "structobj" and attr in ("unpack", "unpack_from") and len(args) == 1 and not kwargs \
                and isinstance(a0, _Rd) and isinstance(a0.n, int):
            r = self.struct_unpack(recv.a, a0, st, exact=attr == "unpack")
            if r is not None:
                return r
        if isinstance(recv, _Ref):
            o = st.heap.get(recv.oid)
            if isinstance(o, _HStream):
                if attr == "read" and len(args) == 1 and not kwargs:
                    n = a0
                    if isinstance(n, _En):
                        n = n.value
                    idx = len(st.reads)
                    pos = o.pos
                    if idx in self.assume.eof:
                        # the 'stream exhausted' case: the value is the constant b"" (lemma E0), the cursor stays
                        st.reads.append((idx, n, b"", o.src))
                        return b""
                    # every other read is symbolic and complete (well-formed encoding): n bytes that are not known
                    st.reads.append((idx, n, None, o.src))
                    o.pos = pos + n if (pos is not None and isinstance(n, int) and not isinstance(n, bool) and n >= 0) else None
                    if idx in self.assume.value or (pos is not None and isinstance(n, int) and any(pos <= k < pos + n for k in self.assume.zero)):
                        self.assume.reads.add(idx)
                    return _Rd(idx, n, pos)
                if attr == "tell":
                    return _T("tell", (o.src, len(st.reads)))
                raise _Stop(f"stream operation {attr}({len(args)} arguments) is not modelled")
            if isinstance(o, _HList):
                if attr in ("append", "extend", "insert", "sort", "reverse", "pop", "remove", "clear"):
                    self.note_mut(st, o)
                if attr == "append" and len(args) == 1:
                    o.items.append(a0)
                    st.events.append(("append", o.root, a0))
                    return None
                if attr == "extend" and len(args) == 1:
                    self.list_extend(o, a0, st)
                    return None
                if attr in ("insert", "sort", "reverse", "pop", "remove", "clear"):
                    st.events.append(("reorder", o.root, attr))
                    if attr == "insert" and len(args) == 2 and isinstance(a0, int) and not isinstance(a0, bool):
                        o.items.insert(a0, args[1])
                        return None
                    if attr == "reverse" and not args:
                        o.items.reverse()
                        return None
                    o.opaque = True
                    return _Unk(_LOST, attr)
                if attr == "copy":
                    return st.alloc(node, _HList(o.items, o.root, o.opaque), "list")
                if attr in ("index", "count"):
                    return _T("meth:" + attr, (recv,) + tuple(args))
            if isinstance(o, _HSet):
                if attr in ("issuperset", "issubset") and len(args) == 1:
                    return self.superset(st, recv, a0, node) if attr == "issuperset" else self.superset(st, a0, recv, node)
                fs = self.as_set(a0, st) if args else None
                if attr in ("union", "difference", "intersection", "symmetric_difference") and len(args) == 1 and fs is not None:
                    r = {"union": o.items | fs, "difference": o.items - fs, "intersection": o.items & fs, "symmetric_difference": o.items ^ fs}[attr]
                    return st.alloc(node, _HSet(r), "set")
                if attr == "copy":
                    return st.alloc(node, _HSet(o.items), "set")
                if attr in ("add", "update", "difference_update", "intersection_update", "discard", "remove"):
                    self.guard_mut(st, recv.oid)
                if attr == "add" and len(args) == 1 and self.hashable_known(a0):
                    o.items.add(a0)
                    return None
                if attr in ("update", "difference_update", "intersection_update") and fs is not None:
                    o.items = set({"update": o.items | fs, "difference_update": o.items - fs, "intersection_update": o.items & fs}[attr])
                    return None
                if attr in ("discard", "remove") and len(args) == 1 and self.hashable_known(a0):
                    o.items = {x for x in o.items if self.key_eq(x, a0) is not True}
                    return None
                if attr == "isdisjoint" and fs is not None:
                    return not (o.items & fs)
                raise _Stop(f"set operation {attr} is not modelled")
            if isinstance(o, _HSym):
                if attr in ("issuperset",) and len(args) == 1:
                    return self.superset(st, recv, a0, node)
                if attr == "issubset" and len(args) == 1:
                    return self.superset(st, a0, recv, node)
                fs = self.as_set(a0, st) if args else None
                if attr == "difference" and fs is not None:
                    new = o.copy()
                    self.sym_sub(new, fs, st)
                    return st.alloc(node, new, "sym")
                if attr == "difference_update" and fs is not None:
                    self.guard_mut(st, recv.oid)
                    self.sym_sub(o, fs, st)
                    return None
                if attr == "copy":
                    return st.alloc(node, o.copy(), "sym")
                raise _Stop(f"operation {attr} on a filtered collection is not modelled")
            if isinstance(o, _HDict):
                if attr == "get" and 1 <= len(args) <= 2:
                    dflt = args[1] if len(args) > 1 else None
                    rs = [(self.key_eq(k, a0), v) for k, v in o.pairs]
                    for r, v in rs:
                        if r is True:
                            return v
                    if all(r is False for r, _v in rs):
                        return dflt
                    return _T("get", (recv, a0, dflt))
                if attr == "items":
                    return _T("seq", tuple((k, v) for k, v in o.pairs))
                if attr == "keys":
                    return _T("seq", tuple(k for k, _v in o.pairs))
                if attr == "values":
                    return _T("seq", tuple(v for _k, v in o.pairs))
                if attr == "copy":
                    return st.alloc(node, _HDict(o.pairs), "dict")
                if attr == "update" and len(args) <= 1:
                    self.guard_mut(st, recv.oid)
                    other = st.heap.get(a0.oid) if isinstance(a0, _Ref) else None
                    new = [list(x) for x in other.pairs] if isinstance(other, _HDict) else ([] if not args else None)
                    if new is not None and all(self.hashable_known(k) for k, _v in new):
                        for k, v in new + [[k2, v2] for k2, v2 in kwargs.items()]:
                            for pr in o.pairs:
                                if self.key_eq(pr[0], k) is True:
                                    pr[1] = v
                                    break
                            else:
                                o.pairs.append([k, v])
                        return None
                raise _Stop(f"dict operation {attr} is not modelled")
        if isinstance(recv, (str, bytes, int)) and not isinstance(recv, bool) and attr in _STR_METHODS:
            if attr == "format" and isinstance(recv, str):
                if all(_concrete(x) and not isinstance(x, (tuple, frozenset)) for x in list(args) + list(kwargs.values())):
                    try:
                        return recv.format(*args, **kwargs)
                    except Exception:
                        raise _Raise("ValueError")
                return self.str_format(recv, args, kwargs)
            if attr == "join" and len(args) == 1:
                seq = self.iterate(a0, st)
                if seq is not None and all(isinstance(x, type(recv)) for x in seq):
                    return recv.join(seq)
                return _T("meth:join", (recv, a0))
            if all(_concrete(x) for x in list(args) + list(kwargs.values())):
                try:
                    r = getattr(recv, attr)(*args, **kwargs)
                except Exception:
                    raise _Raise("ValueError")
                if isinstance(r, list):
                    return st.alloc(node, _HList(r), "list")
                return r
        if isinstance(recv, frozenset):
            fs = self.as_set(a0, st) if args else None
            if attr in ("issuperset", "issubset") and len(args) == 1:
                return self.superset(st, recv, a0, node) if attr == "issuperset" else self.superset(st, a0, recv, node)
            if attr in ("union", "difference", "intersection") and fs is not None:
                return {"union": recv | fs, "difference": recv - fs, "intersection": recv & fs}[attr]
        if isinstance(recv, tuple) and attr in ("index", "count") and len(args) == 1:
            rs = [self.eq3(st, x, a0) for x in recv]
            if all(r is not None for r in rs):
                if attr == "count":
                    return sum(1 for r in rs if r)
                if True in rs:
                    return rs.index(True)
                raise _Raise("ValueError")
        if isinstance(recv, _Unk):
            self.escape(list(args) + list(kwargs.values()), st)
            return _Unk(recv.deps | _deps(tuple(args)), "method of a value that is not known")
        self.escape(list(args) + list(kwargs.values()), st)
        return _T("meth:" + attr, (recv,) + tuple(args) + tuple(sorted(kwargs.items(), key=lambda kv: kv[0])))


# ======================================================================================================================
# runs, paths and what a path did
# ======================================================================================================================
class _Path:
    def __init__(self, st, sig):
        self.st, self.sig = st, sig
        self.end = sig[0] if isinstance(sig, tuple) else ("fall" if sig is None else str(sig))
        self.imprecise = list(st.imprecise)

    @property
    def value(self):
        return self.sig[1] if isinstance(self.sig, tuple) and self.sig[0] == "return" else None

    def reads(self):
        return [_d(n) for _i, n, _c2, _s in self.st.reads]

    def items(self, root):
        """(values added to the list lineage `root` since the representative iteration began, opaque?)"""
        best = None
        for o in self.st.heap.values():
            if isinstance(o, _HList) and o.root == root and (best is None or len(o.items) > len(best.items)):
                best = o
        if best is None:
            return [], False
        base = (self.st.snap or {}).get(root, 0)
        return [_d(x) for x in best.items[base:]], best.opaque


def _d(v):
    """canonical, comparable description of a value"""
    if isinstance(v, bool) or v is None or isinstance(v, (int, str, bytes)):
        return (type(v).__name__, v)
    if isinstance(v, _Rd):
        return ("read", v.idx)
    if isinstance(v, _Par):
        return ("param", v.name)
    if isinstance(v, tuple):
        return ("tuple",) + tuple(_d(x) for x in v)
    if isinstance(v, _En):
        return ("enum", v.tname, _d(v.name), _d(v.value))
    if isinstance(v, _T) and v.op == "dec":
        base, width, lo = v.args[0], None, 0
        if isinstance(base, _T) and base.op == "slice" and len(base.args) == 3:
            lo, width, base = base.args[1], base.args[2] - base.args[1], base.args[0]
        if isinstance(base, _Rd) and lo == 0:
            return ("int", base.idx, _d(width if width is not None else base.n), v.args[1], v.args[2])
        if isinstance(base, _Rd):
            return ("int@", base.idx, lo, _d(width), v.args[1], v.args[2])
    if isinstance(v, _T):
        return ("term", v.op) + tuple(_d(x) for x in v.args)
    if isinstance(v, frozenset):
        return ("set",) + tuple(sorted((_d(x) for x in v), key=repr))
    return ("?", type(v).__name__)


def _be32(idx):
    return ("int", idx, ("int", 4), "big", False)


def _show(d, depth=0):
    """short human text of a description"""
    if not isinstance(d, tuple) or not d:
        return repr(d)
    t = d[0]
    if t in ("int", "str", "bytes", "bool", "NoneType") and len(d) == 2:
        return repr(d[1])
    if t == "read":
        return f"<bytes of read #{d[1] + 1}>"
    if t == "param":
        return f"<parameter {d[1]}>"
    if t == "tuple":
        return "(" + ", ".join(_show(x, depth + 1) for x in d[1:]) + ")"
    if t == "int" and len(d) == 5:
        return f"<{_show(d[2])}-byte {d[3]}-endian {'signed' if d[4] else 'unsigned'} int of read #{d[1] + 1}>"
    if t == "enum":
        return f"{d[1]}.{_show(d[2])}"
    if t == "term":
        return f"<{d[1]}(..)>" if depth > 1 else f"<{d[1]}(" + ", ".join(_show(x, depth + 1) for x in d[2:5]) + ")>"
    return "<?>"


def _run(ctx, f, assume=None, args=None, make=None):
    """([paths], None) or ([], reason the evaluation stopped); make: the evaluator class / factory (default `_Ev`)"""
    make = make or _Ev
    ev = make(ctx, assume)
    try:
        res = ev.run(f, args)
        # A list carried around the loop that some path modifies and some path inspects: what it holds from earlier
        # iterations is not known.  Second pass with those lists' inspections answered symbolically.
        mutated = set().union(*(st.mutated for st, _sig in res)) if res else set()
        if any(st.queried & mutated for st, _sig in res):
            ev = make(ctx, assume)
            ev.unknown_roots = frozenset(mutated)
            res = ev.run(f, args)
            more = set().union(*(st.mutated for st, _sig in res)) if res else set()
            for st, _sig in res:
                if st.queried & (more - mutated):
                    st.imprecise.append("a list that the loop modifies is inspected (its content from earlier iterations is not known)")
        return [_Path(st, sig) for st, sig in res], None
    except _Stop as e:
        return [], str(e)
    except RecursionError:
        return [], "evaluation too deep"
    except (AttributeError, TypeError, ValueError, KeyError, IndexError) as e:
        # a shape of code the evaluator was not written for: nothing is claimed about it (recorded as a note)
        ctx.rep.notes.append(f"C03 evaluator gave up on {f.fq}: {type(e).__name__}: {e}")
        return [], f"the evaluator does not handle this code ({type(e).__name__})"


class _Analysis:
    """Evaluation results shared by the rules of this module (one per Ctx)."""

    def __init__(self, ctx):
        self.ctx = ctx
        self.cache = {}
        self.all_runs = {}  # fq -> [(label, paths, stop)]

    @classmethod
    def of(cls, ctx):
        a = getattr(ctx, "_c03_analysis", None)
        if a is None:
            a = cls(ctx)
            ctx._c03_analysis = a
        return a

    def run(self, fq, label, assume=None):
        key = (fq, label)
        if key not in self.cache:
            f = self.ctx.repo.func(fq)
            paths, stop = _run(self.ctx, f, assume)
            self.cache[key] = (paths, stop)
            self.all_runs.setdefault(fq, []).append((label, paths, stop))
        return self.cache[key]

    def root(self, fq):
        """lineage of the list the parser returns (found in the case 'the stream is exhausted at the first read'), or None"""
        key = (fq, "<root>")
        if key not in self.cache:
            paths, stop = _run(self.ctx, self.ctx.repo.func(fq), _Assume(eof={0}))
            roots = set()
            for p in paths:
                v = p.value
                o = p.st.heap.get(v.oid) if isinstance(v, _Ref) else None
                if p.end == "return" and isinstance(o, _HList):
                    roots.add(o.root)
                elif p.end in ("return", "fall"):
                    roots.add(None)
            self.cache[key] = next(iter(roots)) if len(roots) == 1 else None
        return self.cache[key]

    def enum(self, name):
        return self.ctx.cdefs("beacon")["cs_struct"].enum(name)


def _verdict(paths, stop, root, want, opcode_len=None):
    """Compare every path of a run with the prescribed behaviour of one step.

    want(reads, items, path) -> None if the path behaves as prescribed, else a short text.  Returns (status, detail)
    with status 'ok' | 'bad' | 'undecided'.  A path that differs only after a test the evaluator could not decide
    although its operands were fixed by the assumptions is not evidence (undecided)."""
    if stop is not None:
        return "undecided", f"evaluation stopped: {stop}"
    if root is None:
        return "undecided", "the list the parser returns could not be located"
    if not paths:
        return "undecided", "no path"
    bad, unsure = [], []
    stepping = [p for p in paths if p.st.reads] if opcode_len is not None else paths
    if not stepping:
        return "undecided", "no path reads the step"
    for p in stepping:
        items, opaque = p.items(root)
        reads = p.reads()
        why = None
        if opaque:
            why = "the result list is modified by something other than append/extend"
        elif p.end != "next" and opcode_len is not None:
            why = {"return": "the parser returns", "fall": "the parser leaves the loop", "raise": f"the parser raises {p.sig[1] if isinstance(p.sig, tuple) else ''}"}.get(p.end, p.end)
            why += " instead of going on with the next step"
        else:
            if opcode_len is not None and reads and len(reads) >= 2 and reads[-1] == ("int", opcode_len) and want(reads, items, p) is not None and want(reads[:-1], items, p) is None:
                # read-ahead loops fetch the next opcode at the end of the iteration
                reads = reads[:-1]
            why = want(reads, items, p)
        if why is not None:
            (unsure if p.imprecise else bad).append((why, reads, items, p))
    if bad:
        why, reads, items, p = bad[0]
        return "bad", f"{why}: reads of lengths [{', '.join(_show(r) for r in reads)}], emits [{', '.join(_show(i) for i in items)}]"
    if unsure:
        why, reads, items, p = unsure[0]
        return "undecided", f"{why} after {p.imprecise[0]}"
    return "ok", ""


def _ob3(ctx, rule, kind, where, text, status, detail_ok, detail, node=None):
    if status == "undecided":
        ctx.undecided(rule, kind, where, text, detail, node)
    else:
        ctx.ob(rule, kind, where, text, status == "ok", detail_ok if status == "ok" else detail, node)


def _norm(reads, items, zero):
    """Reads of a length that is known to be zero on the path do not happen as far as the stream is concerned, and
    their value is b"": drop them and renumber (so `p.read(n) if n else b""` and `p.read(n)` are the same thing)."""
    drop = {i for i, r in enumerate(reads) if r in zero or r == ("int", 0)}
    if not drop:
        return reads, items
    remap, k = {}, 0
    for i in range(len(reads)):
        if i not in drop:
            remap[i] = k
            k += 1

    def rw(d):
        if isinstance(d, tuple):
            if len(d) == 2 and d[0] == "read":
                return ("bytes", b"") if d[1] in drop else ("read", remap.get(d[1], d[1]))
            if len(d) == 5 and d[0] == "int":
                return ("int", remap.get(d[1], d[1]), rw(d[2]), d[3], d[4])
            return tuple(rw(x) for x in d)
        return d

    return [rw(r) for i, r in enumerate(reads) if i not in drop], [rw(x) for x in items]


def _expect(exp_reads, exp_items):
    def want(reads, items, p, exp_reads=exp_reads, exp_items=exp_items):
        zero = {_d(k) for k, z in p.st.facts.items() if z}
        if zero or ("int", 0) in reads:
            reads, items = _norm(reads, items, zero)
            exp_reads, exp_items = _norm(exp_reads, exp_items, zero)
        if reads != exp_reads:
            return "the step does not read what the encoding prescribes"
        if items != exp_items:
            return "the step does not emit the prescribed value"
        return None

    return want


def _skip(reads, items, p):
    return None if not items else "a step is emitted"


# ----------------------------------------------------------------------------------------------- transform programs
_TB = "beacon.parse_transform_binary"
_RB = "beacon.parse_recover_binary"
_XL = "beacon.parse_execute_list"
_GA = "beacon.parse_gargle"
_PI = "beacon.parse_process_injection_transform_steps"


# reference table (from the property statement / the Malleable C2 wire format): what the selector that follows opcode
# BUILD selects.  Its keys are the finite vocabulary the BUILD runs are specialised over.
_BUILD_SELECTORS = {0: "<the caller's build target>", 1: "output"}


def _transform_classes(ctx):
    """member -> (class, detail) of the client-program parser: 'noarg' | 'lenarg' | 'build' | 'skip' | 'other' | 'undecided'"""
    an = _Analysis.of(ctx)
    key = ("<classes>", _TB)
    if key in an.cache:
        return an.cache[key]
    root = an.root(_TB)
    out = {}
    for name, val in an.enum("TransformStep").members:
        paths, stop = an.run(_TB, f"opcode {name}", _Assume(value={0: val}))
        nm = _d(name)
        tests = [
            ("noarg", _expect([("int", 4)], [("tuple", nm, ("bool", True))])),
            ("lenarg", _expect([("int", 4), ("int", 4), _be32(1)], [("tuple", nm, ("read", 2))])),
            ("build", lambda reads, items, p, nm=nm: None if (reads == [("int", 4), ("int", 4)] and len(items) == 1 and items[0][:2] == ("tuple", nm)) else "not a build step"),
            ("skip", _skip),
        ]
        ref = "noarg" if name in tables.STEPS_NO_ARG else "lenarg" if name in tables.STEPS_LEN_ARG else "build" if name in tables.STEPS_BUILD else "skip"
        going_on = [p for p in paths if p.end == "next"]
        both = []
        # strict: every path of the iteration; loose: what the step decodes to when the loop goes on (an early exit
        # is reported once, by the loop-exit obligation, not as a wrong arity class)
        for ps in (paths, going_on or paths):
            got = None
            for cls, want in tests:
                status, detail = _verdict(ps, stop, root, want, opcode_len=4)
                if status == "ok":
                    got = (cls, "")
                    break
                if status == "undecided" and got is None:
                    got = ("undecided", detail)
            if got is None:
                # describe it against the class the reference prescribes
                _s, detail = _verdict(ps, stop, root, dict(tests)[ref], opcode_len=4)
                got = ("other", detail)
            both.append(got)
        out[name] = (both[0][0], both[0][1], both[1][0])
    an.cache[key] = out
    return out


_CLASS_TEXT = {"noarg": "(name, True) without an argument", "lenarg": "(name, <argument>) with a 32-bit big-endian length prefix",
               "build": "(name, <build target>) selected by a 32-bit big-endian value", "skip": "nothing (not handled)"}


def r2(ctx):
    f = ctx.repo.func(_TB)
    an = _Analysis.of(ctx)
    cls = _transform_classes(ctx)
    ref_of = {}
    for name in tables.TRANSFORM_STEPS:
        ref_of[name] = "noarg" if name in tables.STEPS_NO_ARG else "lenarg" if name in tables.STEPS_LEN_ARG else "build" if name in tables.STEPS_BUILD else None
    und = {n: d for n, (c, d, _l) in cls.items() if c == "undecided"}

    def table(text, klass, ref):
        got = {n for n, (_c2, _d2, loose) in cls.items() if loose == klass}
        if und and got != ref:
            ctx.undecided("R2", "TABLE", f, text, f"the decoding of {sorted(und)} could not be evaluated ({next(iter(und.values()))})", f.node)
            return
        wrong = {n: (cls[n][2], cls[n][1]) for n in (got ^ ref) if n in cls}
        ctx.ob("R2", "TABLE", f, text, got == ref, f"opcodes decoded as {_CLASS_TEXT[klass]}: {sorted(got)}; reference {sorted(ref)}"
               + ("" if got == ref else "; " + "; ".join(f"{n}: {c[1] or _CLASS_TEXT.get(c[0], c[0])}" for n, c in sorted(wrong.items()))[:400]), f.node)

    table("ENABLE_STEPS", "noarg", set(tables.STEPS_NO_ARG))
    table("ARGUMENT_STEPS", "lenarg", set(tables.STEPS_LEN_ARG))
    handled = {n for n, (_c2, _d2, loose) in cls.items() if loose in ("noarg", "lenarg", "build")}
    cover = handled | set(tables.STEPS_EXEMPT)
    if und and cover != set(tables.TRANSFORM_STEPS):
        ctx.undecided("R2", "TABLE", f, "classes complete", f"the decoding of {sorted(und)} could not be evaluated", f.node)
    else:
        ctx.ob("R2", "TABLE", f, "classes complete", cover == set(tables.TRANSFORM_STEPS), f"opcodes that emit no step: {sorted(set(tables.TRANSFORM_STEPS) - cover)} (exempt: {tables.STEPS_EXEMPT})")
    for name in tables.TRANSFORM_STEPS:
        if ref_of[name] is None or name not in cls:
            continue
        c, detail, _loose = cls[name]
        _ob3(ctx, "R2", "AGREE", f, f"opcode {name}", "undecided" if c == "undecided" else ("ok" if c == ref_of[name] else "bad"),
             f"opcode {name} decodes to {_CLASS_TEXT[ref_of[name]]} and the parser goes on with the next step",
             detail if c == "undecided" else f"opcode {name} must decode to {_CLASS_TEXT[ref_of[name]]}; found: {detail or _CLASS_TEXT.get(c, c)}", f.node)
    ctx.rep.count("transform_opcodes_evaluated", len(cls), floor=16)
    # BUILD selector: 0 -> the caller's build target, 1 -> "output"
    root = an.root(_TB)
    bval = tables.TRANSFORM_STEPS["BUILD"]
    sel = {}
    status_all, details = "ok", []
    for k in _BUILD_SELECTORS:
        paths, stop = an.run(_TB, f"opcode BUILD selector {k}", _Assume(value={0: bval, 1: k}))
        vals = set()

        def want(reads, items, p, vals=vals):
            if reads != [("int", 4), ("int", 4)] or len(items) != 1 or items[0][:2] != ("tuple", _d("BUILD")) or len(items[0]) != 3:
                return "not a build step"
            vals.add(items[0][2])
            return None

        status, detail = _verdict(paths, stop, root, want, opcode_len=4)
        if status != "ok":
            status_all = status if status_all != "bad" else "bad"
            details.append(detail)
        sel[k] = vals
    bparam = None
    if status_all == "ok":
        v0 = next(iter(sel[0])) if len(sel[0]) == 1 else None
        if v0 is not None and v0[0] == "param":
            bparam = v0[1]
        good = bparam is not None and bparam != params(f.node)[0] and sel[1] == {("str", _BUILD_SELECTORS[1])}
        ctx.ob("R2", "TABLE", f, "BUILD_MAP", good, f"BUILD selector 0 emits {[_show(x) for x in sel[0]]}, selector 1 emits {[_show(x) for x in sel[1]]}; required the caller's build target and 'output'", f.node)
    else:
        _ob3(ctx, "R2", "TABLE", f, "BUILD_MAP", status_all, "", "; ".join(details), f.node)
    if bparam is None and "build" in params(f.node):
        bparam = "build"
    if bparam is None:
        ctx.undecided("R2", "TABLE", f, "build default", "the parameter that names the build target could not be located", f.node)
    else:
        dflt = param_defaults(f.node).get(bparam)
        ctx.ob("R2", "TABLE", f, "build default", is_const(dflt, "metadata"), f"default build target is {src(dflt)} ('metadata' for the http-get client)")
    # bindings in SETTING_TO_PRETTYFUNC: what the table entry does with the setting's data
    ent = _pretty_table(ctx)
    first = params(f.node)[0]

    def bound(key, fq, need_build):
        e = ent.get(key)
        text = key
        if e is None:
            ctx.ob("R2", "AGREE", "beacon.py::SETTING_TO_PRETTYFUNC", text, False, f"{key} has no entry")
            return
        node, res = e
        inv = _invocation(res)
        if inv is None:
            if isinstance(res, str) or res is None:
                ctx.undecided("R2", "AGREE", "beacon.py::SETTING_TO_PRETTYFUNC", text, f"entry {src(node)[:60]} could not be evaluated ({res})", node)
            else:
                ctx.ob("R2", "AGREE", "beacon.py::SETTING_TO_PRETTYFUNC", text, False, f"bound to {src(node)[:80]}: not an application of {fq.split('.')[-1]} to the setting's data", node)
            return
        gfq, env = inv
        ok = gfq == fq and env.get(params(ctx.repo.func(fq).node)[0]) == ("param", "<data>")
        detail = f"bound to {src(node)[:80]}"
        if ok and need_build is not None:
            if bparam is None:
                ctx.undecided("R2", "AGREE", "beacon.py::SETTING_TO_PRETTYFUNC", text, "the build-target parameter could not be located", node)
                return
            bv = env.get(bparam, _d(_c(param_defaults(f.node).get(bparam))))
            ok = bv == ("str", need_build)
            detail += f": build target {_show(bv)} (required {need_build!r})"
        ctx.ob("R2", "AGREE", "beacon.py::SETTING_TO_PRETTYFUNC", text, ok, detail, node)

    bound("SETTING_C2_REQUEST", _TB, "metadata")
    bound("SETTING_C2_POSTREQ", _TB, "id")
    bound("SETTING_C2_RECOVER", _RB, None)


def _pretty_table(ctx):
    """BeaconSetting member name -> (value node, what the entry does when applied to the setting's data): an
    ('invoke', fq, {param: value}) description, another value description, or a str (reason it is unknown)."""
    an = _Analysis.of(ctx)
    if "<pretty>" in an.cache:
        return an.cache["<pretty>"]
    tbl = ctx.repo.const("beacon.SETTING_TO_PRETTYFUNC")
    out = {}
    if isinstance(tbl, ast.Dict):
        for k, v in zip(tbl.keys, tbl.values):
            d = dotted(k) or src(k)
            name = d.split(".", 1)[-1]
            ev = _Ev(ctx)
            st = _St()
            st.frames.append(_Frame({}, "beacon"))
            try:
                fn = ev.ev(v, st)
                ev.intercept = True
                st.depth = 1
                res = ev.call(fn, [_Par("<data>")], {}, st, v)
                out[name] = (v, res)
            except (_Stop, _Raise, _Fork, RecursionError, AttributeError, TypeError, ValueError, KeyError, IndexError) as e:
                out[name] = (v, f"{type(e).__name__}: {e}")
    an.cache["<pretty>"] = out
    return out


def _invocation(res):
    if isinstance(res, _T) and res.op == "invoke":
        return res.args[0], {k: _d(v) for k, v in res.args[1]}
    return None


# ----------------------------------------------------------------------------------------------- R3
def r3(ctx):
    an = _Analysis.of(ctx)
    # make sure every run exists
    _transform_classes(ctx)
    _recover_outcomes(ctx)
    _execute_outcomes(ctx)
    _gargle_outcomes(ctx)
    _inject_steps(ctx)
    n = 0
    for fq in (_TB, _RB, _PI):
        f = ctx.repo.func(fq)
        runs = an.all_runs.get(fq, [])
        stops = [s for _l, _p, s in runs if s is not None]
        sites = {}
        order_bad, src_bad, src_seen, src_unknown = [], [], False, []
        first = params(f.node)[0]
        root = an.root(fq)
        for _label, paths, _stop in runs:
            for p in paths:
                for e in p.st.events:
                    if e[0] == "dec" and e[1] is not None:
                        sites.setdefault(id(e[1]), (e[1], []))[1].append(e[2:])
                    elif e[0] == "reorder" and (root is None or e[1] == root):
                        order_bad.append(e[2])
                for _i, _n, _c2, s in p.st.reads:
                    src_seen = True
                    if s == _Par(first) or s == _T("cast", (_Par(first),)):
                        continue
                    if isinstance(s, _Unk):
                        src_unknown.append(s.why)
                    else:
                        src_bad.append(_show(_d(s)))
        for k_site, (node, occ) in enumerate(sorted(sites.values(), key=lambda x: (getattr(x[0], "lineno", 0), getattr(x[0], "col_offset", 0))), 1):
            n += 1
            kinds = sorted({(w if not isinstance(w, (_T, _Rd, _Unk, _Par)) else "?", bo, sg, whole) for _idx, w, bo, sg, whole in occ}, key=repr)
            ok = all(k == (4, "big", False, True) for k in kinds)
            ctx.ob("R3", "AGREE", f, f"integer read {k_site}", ok, f"{src(node)[:60]}: integer decoded as (width, byteorder, signed, over the whole read) = {kinds}; required (4, 'big', False, True)", node)
        if not sites:
            if stops:
                ctx.undecided("R3", "AGREE", f, "integer reads", f"evaluation stopped: {stops[0]}", f.node)
            else:
                ctx.ob("R3", "AGREE", f, "integer reads", False, "the parser decodes no integer from its input", f.node)
        ctx.ob("R3", "AGREE", f, "program order", not order_bad, f"steps are appended in program order; reordering operations on the result: {sorted(set(order_bad))}")
        if not src_seen or (src_unknown and not src_bad):
            ctx.undecided("R3", "AGREE", f, "io.BytesIO(program)", "the stream the parser reads from could not be located" if not src_seen else f"stream source not known: {src_unknown[0]}", f.node)
        else:
            ctx.ob("R3", "AGREE", f, "io.BytesIO(program)", not src_bad, "parser reads the whole program from its start" if not src_bad else f"parser stream is built over {sorted(set(src_bad))}, not over the program parameter")
    ctx.rep.count("be32_reads", n, floor=7)
    # loop exits: a program parser may stop only on what it read as the *opcode* of this iteration (short/empty read
    # or opcode 0) - stopping on an argument value (e.g. an empty argument) truncates a well-formed program
    for fq, getter in ((_TB, _transform_steps_runs), (_RB, _recover_steps_runs), (_XL, _execute_steps_runs), (_GA, _gargle_steps_runs)):
        f = ctx.repo.func(fq)
        bad, unsure, stops, total = [], [], [], 0
        for label, paths, stop in getter(ctx):
            if stop is not None:
                stops.append(stop)
            for p in paths:
                if not p.st.reads:
                    continue  # left before reading anything: no step was taken
                total += 1
                if p.end != "next":
                    how = {"return": "returns", "fall": "leaves the loop", "raise": "raises"}.get(p.end, p.end)
                    cond = " and ".join(f"`{src(nd)[:40]}` is {dec}" for nd, _v, _pol, dec in p.st.forks[-2:])
                    (unsure if p.imprecise else bad).append(f"{label}: {how}" + (f" when {cond}" if cond else ""))
        if bad:
            ctx.ob("R3", "LOOP", f, "loop exits", False, f"the parser stops in the middle of a well-formed program ({bad[0]}): the remaining steps are dropped", f.node)
        elif unsure or (stops and not total):
            ctx.undecided("R3", "LOOP", f, "loop exits", (unsure[0] if unsure else f"evaluation stopped: {stops[0]}"), f.node)
        elif not total:
            ctx.undecided("R3", "LOOP", f, "loop exits", "no step could be evaluated", f.node)
        else:
            ctx.ob("R3", "LOOP", f, "loop exits", True, f"after every well-formed step ({total} evaluated paths) the parser goes on with the next one; it stops only on the opcode read (end of input or 0)", f.node)


def _transform_steps_runs(ctx):
    an = _Analysis.of(ctx)
    _transform_classes(ctx)
    keep = {f"opcode {n}" for n in tables.TRANSFORM_STEPS if n not in tables.STEPS_EXEMPT}
    return [(l, p, s) for l, p, s in an.all_runs.get(_TB, []) if l in keep]


def _recover_steps_runs(ctx):
    an = _Analysis.of(ctx)
    _recover_outcomes(ctx)
    keep = {f"opcode {n}" for n in tables.RECOVER_STEPS}
    return [(l, p, s) for l, p, s in an.all_runs.get(_RB, []) if l in keep]


def _execute_steps_runs(ctx):
    an = _Analysis.of(ctx)
    _execute_outcomes(ctx)
    return [(l, p, s) for l, p, s in an.all_runs.get(_XL, []) if l.startswith("executor ")]


def _gargle_steps_runs(ctx):
    an = _Analysis.of(ctx)
    _gargle_outcomes(ctx)
    return [(l, p, s) for l, p, s in an.all_runs.get(_GA, []) if l.startswith("entry ") and l != "entry start=0,end=0"]


# ----------------------------------------------------------------------------------------------- R4
def _recover_outcomes(ctx):
    """member -> (status, detail, emits?) of the recover-program parser for every TransformStep opcode"""
    an = _Analysis.of(ctx)
    key = ("<outcomes>", _RB)
    if key in an.cache:
        return an.cache[key]
    root = an.root(_RB)
    out = {}
    for name, val in an.enum("TransformStep").members:
        paths, stop = an.run(_RB, f"opcode {name}", _Assume(value={0: val}))
        lit = _d(name.lower())
        if tables.RECOVER_STEPS.get(name):
            want = _expect([("int", 4), ("int", 4)], [("tuple", lit, _be32(1))])
            what = f"({name.lower()!r}, <32-bit big-endian length>)"
        elif name in tables.RECOVER_STEPS:
            want = _expect([("int", 4)], [("tuple", lit, ("bool", True))])
            what = f"({name.lower()!r}, True)"
        else:
            want, what = _skip, "nothing"
        status, detail = _verdict(paths, stop, root, want, opcode_len=4 if name in tables.RECOVER_STEPS else None)
        emits = None
        if stop is None and root is not None and paths:
            if any(p.items(root)[0] for p in paths if not p.imprecise):
                emits = True
            elif not any(p.items(root)[0] for p in paths):
                emits = False
        out[name] = (status, detail, what, emits)
    an.cache[key] = out
    return out


def r4(ctx):
    f = ctx.repo.func(_RB)
    out = _recover_outcomes(ctx)
    for name in tables.RECOVER_STEPS:
        if name not in out:
            continue
        status, detail, what, _e = out[name]
        _ob3(ctx, "R4", "AGREE", f, f"branch {name}", status, f"opcode {name} emits {what} and the parser goes on with the next step", f"opcode {name} must emit {what}; {detail}", f.node)
    seen = {n for n, (_s, _d2, _w, e) in out.items() if e}
    unknown = {n for n, (s, _d2, _w, e) in out.items() if e is None}
    if unknown and (seen - unknown) == (set(tables.RECOVER_STEPS) - unknown):
        ctx.undecided("R4", "TABLE", f, "branch set", f"whether opcodes {sorted(unknown)} emit a step could not be evaluated ({out[sorted(unknown)[0]][1]})", f.node)
    else:
        ctx.ob("R4", "TABLE", f, "branch set", seen == set(tables.RECOVER_STEPS), f"recover opcodes that emit a step {sorted(seen)}; reference {sorted(tables.RECOVER_STEPS)}")


# ----------------------------------------------------------------------------------------------- execute list
def _execute_outcomes(ctx):
    an = _Analysis.of(ctx)
    key = ("<outcomes>", _XL)
    if key in an.cache:
        return an.cache[key]
    root = an.root(_XL)
    out = {}
    plain = lambda reads, items, p: None if (reads == [("int", 1)] and len(items) == 1) else "not a plain executor"  # noqa: E731
    args = lambda reads, items, p: None if (reads == [("int", 1), ("int", 2), ("int", 4), _be32(2), ("int", 4), _be32(4)] and len(items) == 1) else "no module!function arguments"  # noqa: E731
    for name, val in an.enum("InjectExecutor").members:
        paths, stop = an.run(_XL, f"executor {name}", _Assume(value={0: val}))
        got = None
        for cls, want in (("plain", plain), ("args", args)):
            status, detail = _verdict(paths, stop, root, want, opcode_len=1)
            if status == "ok":
                got = (cls, "")
                break
            if status == "undecided" and got is None:
                got = ("undecided", detail)
        if got is None:
            _s, detail = _verdict(paths, stop, root, args if name in ("CreateThread_", "CreateRemoteThread_") else plain, opcode_len=1)
            got = ("other", detail)
        out[name] = got
    an.cache[key] = out
    return out


def _arg_leaves(d, out):
    """the reads and decoded integers a value description is built from, in order of appearance"""
    if isinstance(d, tuple) and d:
        if (d[0] == "int" and len(d) == 5) or (d[0] == "int@" and len(d) == 6) or (d[0] == "read" and len(d) == 2):
            out.append(d)
            return out
        for x in d[1:]:
            _arg_leaves(x, out)
    return out


def _show_leaf(d):
    if d[0] == "int@":
        return f"<{_show(d[3])}-byte {d[4]}-endian {'signed' if d[5] else 'unsigned'} int at offset {_show(d[2])} of read #{d[1] + 1}>"
    return _show(d)


def _execute_arguments(ctx, f, out):
    """The arguments of an executor with a spoofed start address (located by role: the InjectExecutor members whose
    iteration reads opcode, 2 bytes, length + string, length + string - class 'args' of `_execute_outcomes`; the reads
    of the iteration are then #1 opcode, #2 offset, #4 module, #6 function).  The entry the iteration appends is a term
    over those reads; its leaves (reads / integers decoded from reads, device 3) say which encoded argument is shown
    where:
      * every integer the entry text is built from is the offset: the unsigned big-endian integer over the whole 2-byte
        read that follows the opcode (lemma F0: the other byte order / a signed decode / another read differ for some
        well-formed offset, e.g. 0x1000 or 0x8000);
      * the strings the text is built from are the module (read #4) and the function (read #6), first shown in that order."""
    an = _Analysis.of(ctx)
    root = an.root(_XL)
    special = sorted(n for n, (c, _x) in out.items() if c == "args")
    t_int, t_ord = "start-address offset", "start-address text = module!function"
    if not special or root is None:
        why = "no executor that reads (offset, module, function) arguments was located" if root is not None else "the list the parser returns could not be located"
        ctx.undecided("R7", "AGREE", f, t_int, why, f.node)
        ctx.undecided("R7", "AGREE", f, t_ord, why, f.node)
        return
    want = ("int", 1, ("int", 2), "big", False)
    ints, orders, entries, unsure = {}, {}, 0, []
    for label, paths, stop in _execute_steps_runs(ctx):
        name = label[len("executor "):]
        if name not in special or stop is not None:
            continue
        for p in paths:
            if not p.st.reads:
                continue
            items, opaque = p.items(root)
            if opaque or len(items) != 1:
                continue
            if p.imprecise:
                unsure.append(p.imprecise[0])
                continue
            entries += 1
            first = []
            for lf in _arg_leaves(items[0], []):
                if lf[0] == "read":
                    if lf[1] not in first:
                        first.append(lf[1])
                else:
                    ints.setdefault(lf, name)
            orders.setdefault(tuple(first), name)
    if not ints:
        ctx.undecided("R7", "AGREE", f, t_int, "no integer decoded from the list was found in the text reported for " + ", ".join(special)
                      + (f" ({unsure[0]})" if unsure else f" ({entries} entries looked at)"), f.node)
    else:
        bad = sorted((lf for lf in ints if lf != want), key=repr)
        ctx.ob("R7", "AGREE", f, t_int, not bad,
               (f"the text reported for {ints[bad[0]]} shows {_show_leaf(bad[0])}" if bad else f"the text reported for {', '.join(special)} shows {_show_leaf(want)}")
               + "; required: the offset = the unsigned big-endian integer over the whole 2-byte read that follows the opcode (every multi-byte integer of the settings block is big-endian)", f.node)
    located = {o for o in orders if set(o) == {3, 5}}
    if not located or located != set(orders):
        odd = sorted(set(orders) - located)
        ctx.undecided("R7", "AGREE", f, t_ord, (f"the reported text is built from reads {[[i + 1 for i in o] for o in odd]} of the iteration, not from the module (read #4) and the function (read #6) alone" if odd
                                                 else "no reported text built from the reads of the iteration was found") + (f" ({unsure[0]})" if unsure else ""), f.node)
    else:
        ctx.ob("R7", "AGREE", f, t_ord, located == {(3, 5)}, f"the reported text shows the strings of reads {sorted([i + 1 for i in o] for o in located)} of the iteration in this order; required [[4, 6]] (module, then function - stream order)", f.node)


# ----------------------------------------------------------------------------------------------- process-inject transform
def _inject_steps(ctx):
    an = _Analysis.of(ctx)
    return an.run(_PI, "both present")


# ----------------------------------------------------------------------------------------------- R9 / gargle
_GARGLE_CASES = (("entry start!=0,end!=0", {0: False, 4: False}), ("entry start!=0,end=0", {0: False, 4: True}), ("entry start=0,end!=0", {0: True, 4: False}),
                 ("entry start=0,end=0", {0: True, 4: True}))


def _gargle_outcomes(ctx):
    an = _Analysis.of(ctx)
    return [(label,) + an.run(_GA, label, _Assume(zero=zero)) for label, zero in _GARGLE_CASES]


def _leaves(d, out):
    """decoded integers of a value description, in order of appearance"""
    if isinstance(d, tuple):
        if d and ((d[0] == "int" and len(d) == 5) or (d[0] == "int@" and len(d) == 6)):
            out.append(d)
            return out
        for x in d[1:]:
            _leaves(x, out)
    return out


def r9(ctx):
    """Sleep-mask section table: every (start, end) pair read is reported, in read order, unless it is the all-zero
    terminator - no well-formed entry (e.g. one starting at offset 0) may be dropped."""
    f = ctx.repo.func(_GA)
    an = _Analysis.of(ctx)
    root = an.root(_GA)
    runs = _gargle_outcomes(ctx)
    kinds, texts, dropped, unsure = set(), set(), [], []
    located = root is not None
    for label, paths, stop in runs:
        if stop is not None:
            unsure.append(f"evaluation stopped: {stop}")
            continue
        for p in paths:
            items, opaque = p.items(root) if root is not None else ([], False)
            reads = p.reads()
            # position in the stream of every read of the iteration (the entry is the first 8 bytes)
            cum, pos = {}, 0
            for i, r in enumerate(reads):
                cum[i] = pos
                pos = pos + r[1] if (pos is not None and r[0] == "int" and len(r) == 2) else None
            if cum.get(len(reads) - 1) is None or pos not in (8, 12):
                kinds.add(("reads", tuple(_show(r) for r in reads)))
            for it in items:
                lv = []
                for x in _leaves(it, []):
                    at = cum.get(x[1])
                    if x[0] == "int":
                        lv.append((at, x[3], x[4], x[2]))
                    else:
                        lv.append((at + x[2] if at is not None else None, x[4], x[5], x[3]))
                texts.add(tuple(lv))
            if label != "entry start=0,end=0" and not items and not opaque:
                (unsure if p.imprecise else dropped).append(label.replace("entry ", ""))
    if not located:
        ctx.undecided("R9", "AGREE", f, "section table loop", "the list of sections the parser returns could not be located" + (f" ({unsure[0]})" if unsure else ""), f.node)
        return
    if not texts and not dropped:
        ctx.undecided("R9", "AGREE", f, "section table loop", unsure[0] if unsure else "no entry is ever reported by a path the evaluator understands", f.node)
        return
    # the two integers of an entry: decoded alike from two 4-byte reads
    decs = sorted({x for t in texts for x in t}, key=repr)
    if not decs:
        why = "the reported text is not built from integers decoded from the reads of the iteration in a way the rule understands" + (f" (reads: {sorted(kinds)})" if kinds else "")
        ctx.undecided("R9", "AGREE", f, "entry = two 32-bit reads", why, f.node)
        ctx.undecided("R9", "AGREE", f, "entry text = start-end", why, f.node)
    else:
        two = not kinds and {x[0] for x in decs} == {0, 4} and len({x[1:] for x in decs}) == 1 and all(x[3] == ("int", 4) and not x[2] for x in decs)
        ctx.ob("R9", "AGREE", f, "entry = two 32-bit reads", two, f"entry integers (offset in the entry, byteorder, signed, width) {[(x[0], x[1], x[2], _show(x[3])) for x in decs]}"
               + (f"; reads {sorted(kinds)}" if kinds else "") + " (two unsigned 4-byte reads decoded alike)", f.node)
        # order of first use in the text
        order = set()
        for t in texts:
            seen = []
            for x in t:
                if x[0] not in seen:
                    seen.append(x[0])
            order.add(tuple(seen))
        ctx.ob("R9", "AGREE", f, "entry text = start-end", order == {(0, 4)}, f"the reported text uses the integers at offsets {sorted(order)} of the entry; required [(0, 4)] (stream order)", f.node)
    if dropped:
        ctx.ob("R9", "DOM", f, "every non-terminator entry reported", False, f"an entry with {sorted(set(dropped))} completes the iteration without being reported", f.node)
    elif unsure:
        ctx.undecided("R9", "DOM", f, "every non-terminator entry reported", unsure[0] if unsure[0].startswith("evaluation") else f"an entry with {unsure[0]} may be dropped after a test that could not be evaluated", f.node)
    else:
        ctx.ob("R9", "DOM", f, "every non-terminator entry reported", True, "for each of start/end non-zero the entry is appended on every path of the iteration", f.node)


# ----------------------------------------------------------------------------------------------- R5
def _flag_condition(c, flag):
    """Is condition value c 'the flag is truthy'?  True / False (it is the flag's negation or something that does not
    read this flag) / None (reads the flag in a way the rule does not understand)."""
    pol = True
    while True:
        if isinstance(c, _T) and c.op == "not":
            c, pol = c.args[0], not pol
        elif isinstance(c, _T) and c.op == "eq" and any(isinstance(x, int) and not isinstance(x, bool) and x == 0 for x in c.args):
            c, pol = next((x for x in c.args if not (isinstance(x, int) and x == 0)), None), not pol
        elif isinstance(c, _T) and c.op == "cmp" and c.args[0] == "Gt" and c.args[2] == 0:
            c = c.args[1]
        elif isinstance(c, _T) and c.op == "cmp" and c.args[0] == "Lt" and c.args[1] == 0:
            c = c.args[2]
        else:
            break
    if c == flag:
        return pol
    return None if flag in _subterms(c) else False


def _subterms(v, depth=0):
    out = {v}
    if depth < 12 and isinstance(v, _T):
        for a in v.args:
            if isinstance(a, (_T, _Par)):
                out |= _subterms(a, depth + 1)
    return out


def _gate_atoms(universe, sets):
    """The regions into which the constant sets (and the universe of the option set) cut everything they mention: two
    elements are in the same atom iff no set separates them.  Every set is a union of atoms."""
    allsets = list(sets) + [frozenset(universe)]
    by_sig = {}
    for x in frozenset().union(*allsets):
        by_sig.setdefault(tuple(x in s for s in allsets), set()).add(x)
    return sorted((frozenset(v) for v in by_sig.values()), key=lambda a: sorted(map(repr, a)))


def _gate_test(kind, fs, removed, atoms, state):
    """Value of `A \\ removed <kind> fs` when A holds none (E) / some (P) / all (F) of each atom (fs, removed: unions of atoms)."""
    cur = ["E" if a <= removed else s for a, s in zip(atoms, state)]
    sup = all(c == "F" for a, c in zip(atoms, cur) if a <= fs)
    sub = all(c == "E" for a, c in zip(atoms, cur) if not a <= fs)
    return {"superset": sup, "subset": sub, "eq": sup and sub, "psuperset": sup and not sub, "psubset": sub and not sup}[kind]


def _gate_atom_name(a, ref_l):
    for lab, g in ref_l:
        if a == g:
            return lab
    el = sorted(map(str, a))
    return "{" + ", ".join(el[:3]) + (", ..." if len(el) > 3 else "") + "}"


def _gate_when(atoms, state, ref_l):
    parts = [("all of " if s == "F" else "some but not all of ") + _gate_atom_name(a, ref_l) for a, s in zip(atoms, state) if s != "E"]
    return "when " + (" and ".join(parts) if parts else "nothing") + " is enabled"


def _gate_paths(ctx):
    an = _Analysis.of(ctx)
    return an.run("beacon.beacon_gate_options_string", "all flag vectors")


def r5(ctx):
    f = ctx.repo.func("beacon.beacon_gate_options_string")
    ref = {"comms": set(tables.BEACON_GATE_COMMS), "core": set(tables.BEACON_GATE_CORE), "cleanup": set(tables.BEACON_GATE_CLEANUP)}
    labels = {"comms": "Comms", "core": "Core", "cleanup": "Cleanup"}
    paths, stop = _gate_paths(ctx)
    cd = ctx.cdefs("beacon")["cs_struct"]
    fields = {x.name for x in cd.struct("BeaconGateOptions").fields}
    every = ("comms", "core", "cleanup", "partition", "group tests", "remaining options", "options = {enabled flags}")

    def give_up(why):
        for t in every:
            ctx.undecided("R5", "TABLE" if t in ref or t == "partition" else "AGREE", f, t, why, f.node)

    if stop is not None or not paths:
        give_up(f"evaluation stopped: {stop}" if stop else "no path")
        return
    # what every path did: the set tests on the option set (in order, with their outcome), what it returns
    summaries = []
    foreign = []
    for p in paths:
        outcome = {}
        for nd, core, pol, _dec in p.st.forks:
            if isinstance(core, _T) and core.op == "settest":
                outcome[core] = pol
            else:
                foreign.append(src(nd)[:60])
        tests = []
        for e in p.st.events:
            if e[0] == "settest":
                r = e[5] if isinstance(e[5], bool) else outcome.get(e[5])
                tests.append((e[1], frozenset(e[3]), r, e[2], frozenset().union(*e[4])))
        v = p.value
        o = p.st.heap.get(v.oid) if isinstance(v, _Ref) else None
        items = list(o.items) if isinstance(o, _HList) and not o.opaque else None
        summaries.append((tests, items, p))
    roots = {t[0] for tests, _i, _p in summaries for t in tests}
    if foreign or len(roots) != 1 or any(items is None or p.end != "return" for _t, items, p in summaries) or any(t[2] is None for tests, _i, _p in summaries for t in tests):
        give_up(f"the function tests {foreign[0]}, which the rule does not understand" if foreign else
                "the set tests on the set of enabled options / the returned list could not be located")
        return
    root = next(iter(roots))
    hs = None
    for o in paths[0].st.heap.values():
        if isinstance(o, _HSym) and o.root == root:
            hs = o
    # label -> group: the set whose successful containment test is followed by appending that label
    group, labelled_bad = {}, []
    for tests, items, p in summaries:
        labs = [x for x in items if isinstance(x, str)]
        true_sets = [t[1] for t in tests if t[2] and t[3] in ("superset", "psuperset", "eq") and t[1]]
        if len(labs) == len(true_sets):
            for lab, s in zip(labs, true_sets):
                if group.setdefault(lab, s) != s:
                    labelled_bad.append(lab)
    groups = {k: (set(group[labels[k]]) if labels[k] in group else None) for k in ref}
    for k in ref:
        g = groups[k]
        if g is None:
            ctx.undecided("R5", "TABLE", f, k, f"the set that is reported as {labels[k]!r} could not be located", f.node)
        else:
            ctx.ob("R5", "TABLE", f, k, g == ref[k], f"group {k} (the set reported as {labels[k]!r}): missing {sorted(ref[k] - g)} extra {sorted(g - ref[k])}")
    if all(g is not None for g in groups.values()):
        union = groups["comms"] | groups["core"] | groups["cleanup"]
        disj = len(union) == sum(len(g) for g in groups.values())
        ctx.ob("R5", "TABLE", f, "partition", disj and union == fields, f"groups are pairwise disjoint={disj} and cover the struct's fields={union == fields}")
    else:
        ctx.undecided("R5", "TABLE", f, "partition", "not all three groups could be located", f.node)
    # What the function reports, compared with what the encoding prescribes, in every ABSTRACT STATE of the option set.
    # The option set A is a free subset of its universe (which flags are enabled is not known).  The constant sets the
    # code compares A with / removes from it, together with the three reference groups, cut the universe into atoms;
    # per atom A holds none (E), some but not all (P; atoms of two or more elements) or all (F) of its elements.  Every
    # test A \ removed  >= / <= / == / > / <  B  (B, removed: unions of atoms) has a definite value in such a state:
    #   A' >= B  iff every atom of B is F and not removed;   A' <= B  iff every atom outside B is E or removed.
    # Every state stands for at least one flag vector, all flag vectors of a state take the same path, and on that path
    # the prescribed result is: 'All' alone if all three groups are F, else the labels of the F groups in the order
    # Comms, Core, Cleanup, followed by A minus those groups.
    universe = frozenset(hs.init) if hs is not None and hs.init is not None else frozenset(fields)
    # S2 needs a FREE subset: no unconditional member, and the membership conditions pairwise different (independent flags)
    try:
        free = hs is None or hs.init is None or (all(c0 is not True for c0 in hs.init.values()) and len(set(hs.init.values())) == len(hs.init))
    except TypeError:
        free = False
    csets = [frozenset(ref[k]) for k in ("comms", "core", "cleanup")]
    for tests, items, p in summaries:
        for t in tests:
            csets.append(t[1])
        for e in p.st.events:
            if e[0] == "sub" and e[1] == root:
                csets.append(frozenset(e[2]))
    csets = list(dict.fromkeys(csets))
    atoms = _gate_atoms(universe, csets)
    choices = [("E",) if not a <= universe else (("E", "P", "F") if len(a) > 1 else ("E", "F")) for a in atoms]
    nstates = 1
    for c in choices:
        nstates *= len(c)
    shapes_ok = all(all(isinstance(x, str) or (isinstance(x, _T) and x.op == "rest" and x.args[0] == root) for x in items) for _t, items, _p in summaries)
    if not free or nstates > 20000 or not shapes_ok:
        why = ("some options are in the option set unconditionally, or under the same condition as another one" if not free else
               f"{len(atoms)} different regions of the option universe are distinguished by the code's sets" if nstates > 20000 else
               "the returned list holds something other than labels and the left-over options")
        ctx.undecided("R5", "AGREE", f, "group tests", why, f.node)
        ctx.undecided("R5", "AGREE", f, "remaining options", why, f.node)
    else:
        ref_l = [("Comms", frozenset(ref["comms"])), ("Core", frozenset(ref["core"])), ("Cleanup", frozenset(ref["cleanup"]))]
        bad, rest_bad, unsure = [], [], []
        for state in itertools.product(*choices):
            feasible = [(tests, items) for tests, items, _p in summaries if all(_gate_test(t[3], t[1], t[4], atoms, state) == t[2] for t in tests)]
            when = _gate_when(atoms, state, ref_l)
            if len(feasible) != 1:
                unsure.append(f"{when}: the outcomes of the set tests single out {len(feasible)} paths")
                continue
            tests, items = feasible[0]
            full = [lab for lab, g in ref_l if all(state[i] == "F" for i, a in enumerate(atoms) if a <= g)]
            exp_labels = ["All"] if len(full) == len(ref_l) else full
            exp_removed = frozenset().union(*[g for lab, g in ref_l if lab in full])
            labs = [x for x in items if isinstance(x, str)]
            rests = [x for x in items if not isinstance(x, str)]
            if labs != exp_labels or items[: len(labs)] != labs:
                bad.append(f"{when}: reports {labs if items[: len(labs)] == labs else '<labels after the left-over options>'}, the encoding prescribes {exp_labels}")
                continue
            removed = [frozenset().union(*x.args[1]) for x in rests]
            for i, a in enumerate(atoms):
                if state[i] == "E":
                    continue
                listed = sum(1 for r in removed if not a <= r)
                want = 0 if a <= exp_removed else 1
                if listed != want:
                    name = _gate_atom_name(a, ref_l)
                    msg = f"{when}: after {labs} the enabled APIs of {name} are listed individually {listed} time(s) instead of {want}"
                    (rest_bad if not rests else bad).append(msg)
                    break
        if unsure and not bad and not rest_bad:
            ctx.undecided("R5", "AGREE", f, "group tests", unsure[0], f.node)
            ctx.undecided("R5", "AGREE", f, "remaining options", unsure[0], f.node)
        else:
            ctx.ob("R5", "AGREE", f, "group tests", not bad and not labelled_bad,
                   f"in all {nstates} abstract states of the option set (none / some / all of each of {len(atoms)} regions enabled) the path taken reports 'All' alone when everything is enabled, else the labels "
                   "of the completely enabled groups in the order Comms, Core, Cleanup, and removes exactly the reported groups" if not bad and not labelled_bad else
                   (bad[0] if bad else f"label {labelled_bad[0]} is reported for different sets"))
            ctx.ob("R5", "AGREE", f, "remaining options", not rest_bad, "left-over individual APIs are listed after the groups (or nothing is left over)" if not rest_bad else rest_bad[0])
    # the option set is built from the truthy flags of the parsed struct
    bgo_p = params(f.node)[0]
    if hs is None:
        ctx.undecided("R5", "AGREE", f, "options = {enabled flags}", "the set of enabled options could not be located", f.node)
    elif hs.init is not None:
        verdicts = {e: _flag_condition(c, _T("field", (_Par(bgo_p), e))) for e, c in hs.init.items()}
        wrong = sorted(str(e) for e, v in verdicts.items() if v is False)
        unknown = sorted(str(e) for e, v in verdicts.items() if v is None)
        names = {e for e in hs.init if isinstance(e, str)}
        ok = not wrong and names == fields
        if unknown and ok:
            ctx.undecided("R5", "AGREE", f, "options = {enabled flags}", f"the condition under which {unknown[:3]} are in the option set is not one the rule understands", hs.origin or f.node)
        else:
            ctx.ob("R5", "AGREE", f, "options = {enabled flags}", ok, f"a flag name is in the option set iff that flag of the parsed struct is truthy={not wrong}; ranges over all {len(fields)} flags={names == fields}"
                   + (f" (missing {sorted(fields - names)[:4]}, extra {sorted(names - fields)[:4]}, not the flag's own value: {wrong[:4]})" if not ok else ""), hs.origin or f.node)
    else:
        # universe not enumerable by the evaluator: (name, value) pairs taken from the struct itself
        comp = hs.origin
        ok = None
        if isinstance(comp, (ast.SetComp, ast.ListComp, ast.GeneratorExp)) and len(comp.generators) == 1 and len(comp.generators[0].ifs) == 1:
            gen = comp.generators[0]
            tn = [n.id for n in ast.walk(gen.target) if isinstance(n, ast.Name)]
            if isinstance(gen.target, ast.Tuple) and len(tn) == 2 and any(isinstance(n, ast.Name) and n.id == bgo_p for n in ast.walk(gen.iter)):
                ok = dotted(comp.elt) == tn[0] and dotted(gen.ifs[0]) == tn[1]
        if ok is None:
            ctx.undecided("R5", "AGREE", f, "options = {enabled flags}", f"the option set is built as {src(comp)[:80]}, which the rule cannot enumerate", comp or f.node)
        else:
            ctx.ob("R5", "AGREE", f, "options = {enabled flags}", ok, f"option set {src(comp)[:80]}: the names of the (name, value) pairs of the parsed struct whose value is truthy={ok}", comp)


def cstruct_api():
    """Attribute names defined by the installed dissect.cstruct Structure / BaseType classes."""
    pats = glob.glob("/venv/lib/python3*/site-packages/dissect/cstruct/types")
    names = set()
    files = []
    for d in pats:
        for fn in ("structure.py", "base.py"):
            p = os.path.join(d, fn)
            if os.path.exists(p):
                files.append(p)
                tree = ast.parse(open(p).read())
                for n in ast.walk(tree):
                    if isinstance(n, (ast.FunctionDef, ast.AsyncFunctionDef)):
                        names.add(n.name)
                    elif isinstance(n, ast.Attribute) and isinstance(n.ctx, ast.Store):
                        names.add(n.attr)
                    elif isinstance(n, (ast.Assign, ast.AnnAssign)):
                        tg = n.targets if isinstance(n, ast.Assign) else [n.target]
                        for t in tg:
                            if isinstance(t, ast.Name):
                                names.add(t.id)
    return names, files


def r6(ctx, rule="R6"):
    api, files = cstruct_api()
    if not files:
        ctx.rep.error("installed dissect.cstruct sources not found under /venv")
        return
    ctx.rep.extra["cstruct_api_files"] = files
    n = 0
    for modname in ("beacon", "c2profile"):
        mod = ctx.repo.module(modname)
        cds = ctx.cdefs("beacon")
        for f in mod.funcs.values():
            typed = {}
            for p in params(f.node):
                ann = param_annotation(f.node, p)
                t = ctx.rs._annot_class(modname, ann)
                if t and t.startswith("struct:"):
                    typed[p] = t
            for name in list(typed):
                pass
            # locals constructed from a struct type
            for node in body_walk(f.node):
                if isinstance(node, ast.Attribute) and isinstance(node.value, ast.Name) and isinstance(node.ctx, ast.Load):
                    base = node.value.id
                    t = typed.get(base)
                    if t is None:
                        et = ctx.rs.expr_type(f, node.value)
                        if et and et.startswith("struct:"):
                            t = et
                    if t is None:
                        continue
                    _m, var, cname = t[len("struct:"):].split(".", 2)
                    cd = ctx.cdefs(_m).get(var)
                    if cd is None or cname not in cd.structs:
                        continue
                    fields = {x.name for x in cd.structs[cname].fields}
                    n += 1
                    ok = node.attr in fields or node.attr in api
                    ctx.ob(rule, "API", f, src(node), ok,
                           f"attribute {node.attr!r} on a {cname} instance " + ("exists" if ok else "does NOT exist") + " (struct fields + attributes defined in the installed dissect.cstruct Structure/BaseType sources)", node)
    ctx.rep.count("struct_attribute_reads", n, floor=1)


def r7(ctx):
    tbl = ctx.repo.const("beacon.SETTING_TO_PRETTYFUNC")
    cd = ctx.cdefs("beacon")["cs_struct"]
    bs = cd.enum("BeaconSetting").by_name()
    names = []
    for k in tbl.keys:
        d = dotted(k) or src(k)
        ok = d.startswith("BeaconSetting.") and d.split(".", 1)[1] in bs
        ctx.ob("R7", "TABLE", "beacon.py::SETTING_TO_PRETTYFUNC", d, ok, "key is a BeaconSetting member" if ok else "key is not a BeaconSetting member", k)
        names.append(d.split(".", 1)[-1])
    # what an entry does with the setting's data (evaluated: a bare function, a partial, a lambda or a wrapper that
    # applies the same decoder to the same data are the same thing)
    pretty = _pretty_table(ctx)

    def what(k):
        e = pretty.get(k)
        if e is None:
            return None
        node, res = e
        inv = _invocation(res)
        if inv is not None:
            return ("invoke", inv[0], tuple(sorted(inv[1].items())))
        if isinstance(res, str):
            return ("text", src(node))
        return _d(res)

    def text(k):
        e = pretty.get(k)
        return src(e[0])[:60] if e is not None else "<no entry>"

    groups = [
        ["SETTING_PROCINJ_TRANSFORM_X86", "SETTING_PROCINJ_TRANSFORM_X64"],
        ["SETTING_TCP_FRAME_HEADER", "SETTING_SMB_FRAME_HEADER"],
        ["SETTING_DNS_BEACON_BEACON", "SETTING_DNS_BEACON_GET_A", "SETTING_DNS_BEACON_GET_AAAA", "SETTING_DNS_BEACON_GET_TXT", "SETTING_DNS_BEACON_PUT_METADATA", "SETTING_DNS_BEACON_PUT_OUTPUT"],
        ["SETTING_SPAWNTO_X86", "SETTING_SPAWNTO_X64"],
        ["SETTING_C2_VERB_GET", "SETTING_C2_VERB_POST"],
    ]
    for g in groups:
        vals = {what(k) for k in g}
        ctx.ob("R7", "AGREE", "beacon.py::SETTING_TO_PRETTYFUNC", "+".join(x.replace("SETTING_", "") for x in g), len(vals) == 1 and None not in vals, f"sibling settings decoded by {sorted({text(k) for k in g})}")
    want = {"SETTING_PROCINJ_EXECUTE": "parse_execute_list", "SETTING_GARGLE_SECTIONS": "parse_gargle", "SETTING_PUBKEY": "sha256sum_pubkey",
            "SETTING_PROCINJ_TRANSFORM_X86": "parse_process_injection_transform_steps", "SETTING_TCP_FRAME_HEADER": "parse_pivot_frame",
            "SETTING_DOMAINS": "null_terminated_str", "SETTING_USERAGENT": "null_terminated_str", "SETTING_SUBMITURI": "null_terminated_str"}
    for k, v in want.items():
        w = what(k)
        if w is not None and w[0] == "text":
            ctx.undecided("R7", "AGREE", "beacon.py::SETTING_TO_PRETTYFUNC", k, f"entry {text(k)} could not be evaluated")
            continue
        ok = w is not None and w[0] == "invoke" and w[1] == f"beacon.{v}" and len(w[2]) == 1 and w[2][0][1] == ("param", "<data>")
        ctx.ob("R7", "AGREE", "beacon.py::SETTING_TO_PRETTYFUNC", k, ok, f"{k} decoded by {text(k)} (required: {v} applied to the setting's data)")
    ctx.rep.count("prettyfunc_entries", len(names), floor=30)
    # parse_execute_list: opcode byte -> InjectExecutor; the two special members read (u16be, len+str, len+str), every
    # other member nothing more; each emits exactly one entry
    f = ctx.repo.func(_XL)
    out = _execute_outcomes(ctx)
    und = {n: d for n, (c, d) in out.items() if c == "undecided"}
    spec = sorted(n for n, (c, _d2) in out.items() if c == "args")
    other = {n: d for n, (c, d) in out.items() if c == "other"}
    if und:
        ctx.undecided("R7", "TABLE", f, "special executors", f"executors {sorted(und)} could not be evaluated: {next(iter(und.values()))}", f.node)
    else:
        ctx.ob("R7", "TABLE", f, "special executors", spec == ["CreateRemoteThread_", "CreateThread_"] and not other,
               f"executors with (offset, module, function) arguments: {spec}" + (f"; neither plain nor with arguments: { {n: d[:160] for n, d in other.items()} }" if other else ""), f.node)
    _execute_arguments(ctx, f, out)
    # process-inject transform: (length, bytes) twice, reported as append then prepend
    g = ctx.repo.func(_PI)
    an = _Analysis.of(ctx)
    paths, stop = _inject_steps(ctx)
    want_f = _expect([("int", 4), _be32(0), ("int", 4), _be32(2)], [("tuple", ("str", "append"), ("read", 1)), ("tuple", ("str", "prepend"), ("read", 3))])
    status, detail = _verdict([p for p in paths], stop, an.root(_PI), lambda r, i, p: want_f(r, i, p) if p.end in ("return", "fall") else "does not return", None)
    _ob3(ctx, "R7", "AGREE", g, "append/prepend pair", status, "two length-prefixed byte strings, reported as ('append', ..) then ('prepend', ..)", f"required two length-prefixed byte strings reported as append then prepend; {detail}", g.node)
    # pivot frame & null-terminated helpers
    g = ctx.repo.func("beacon.null_terminated_bytes")
    cut_ok, cut_detail = _nul_cut(ctx, g)
    if cut_ok is None:
        ctx.undecided("R7", "AGREE", g, "partition(b'\\x00')", cut_detail, g.node)
    else:
        ctx.ob("R7", "AGREE", g, "partition(b'\\x00')", cut_ok, cut_detail)
    # strings: every byte before the NUL becomes exactly one character - only a total single-byte codec does that
    # (latin-1); ascii/utf-8 with "ignore" and the Windows code pages drop or remap high bytes
    h = ctx.repo.func("beacon.null_terminated_str")
    # evaluated with package calls kept symbolic: the value returned is <cut>(data).decode(codec)
    dec_terms, stop = [], None
    ev_int = _Ev(ctx)
    ev_int.intercept = True
    try:
        res = ev_int.run(h)
    except (_Stop, RecursionError, AttributeError, TypeError, ValueError, KeyError, IndexError) as e:
        res, stop = [], f"{type(e).__name__}: {e}"
    for _st, sig in res:
        dec_terms.append(sig[1] if isinstance(sig, tuple) and sig[0] == "return" else None)
    codec, cut, shape = None, False, None
    if dec_terms and all(isinstance(v, _T) and v.op == "meth:decode" for v in dec_terms) and len({_d(v) for v in dec_terms}) == 1:
        v = dec_terms[0]
        inner = v.args[0]
        rest = [a for a in v.args[1:]]
        enc = None
        for a in rest:
            if isinstance(a, tuple) and len(a) == 2 and a[0] == "encoding":
                enc = a[1]
        pos = [a for a in rest if not (isinstance(a, tuple) and len(a) == 2 and isinstance(a[0], str) and a[0] in ("encoding", "errors"))]
        if enc is None:
            enc = pos[0] if pos else "utf-8"
        codec = enc.lower().replace("_", "-") if isinstance(enc, str) else None
        # what is decoded: the data cut at its first NUL - by a package function applied to the data that returns
        # that cut (null_terminated_bytes, judged above; any other helper is judged here the same way), or by the
        # cut written out in place (the helper inlined: one of the forms of lemma P0 over the parameter itself)
        p0 = params(h.node)[0] if params(h.node) else None
        inv = _invocation(inner)
        if inv is not None:
            if list(inv[1].values()) != [("param", p0)]:
                cut, cut_why = False, f"{inv[0]} is not applied to the data alone"
            elif inv[0] == g.fq:
                cut, cut_why = (True if cut_ok is not False else False), f"the cut is {inv[0]}(data)"
            else:
                callee = ctx.repo.func(inv[0]) if ctx.repo.has_func(inv[0]) else None
                cut, cut_why = _nul_cut(ctx, callee) if callee is not None else (None, f"{inv[0]} could not be looked at")
        else:
            cut, cut_why = _nul_cut_terms([inner], _Par(p0))
        shape = True
    text = "null_terminated_bytes(data).decode(<total single-byte codec>)"
    if shape is None:
        ctx.undecided("R7", "AGREE", h, text, "the returned value is not a single .decode(..) of bytes" + (f" ({stop})" if stop else ""), h.node)
    else:
        total = codec in ("latin-1", "latin1", "iso-8859-1", "iso8859-1", "l1", "8859", "cp819", "iso-ir-100")
        if total and cut is None:
            ctx.undecided("R7", "AGREE", h, text, f"what is decoded is not recognised as the data cut at its first NUL: {cut_why}", h.node)
        else:
            ok = total and bool(cut)
            ctx.ob("R7", "AGREE", h, text, ok,
                   f"decodes the NUL-cut bytes={bool(cut)} ({cut_why}) with codec {codec!r}" + ("" if total else " (required latin-1: one character per byte, nothing dropped or remapped)"), h.node)


def _nul_cut(ctx, g):
    """Does null_terminated_bytes return the bytes before the first NUL?  (True/False/None, detail)"""
    paths, stop = _run(ctx, g)
    if stop is not None or not paths:
        return None, f"evaluation stopped: {stop}"
    ps = params(g.node)
    if not ps:
        return None, "the function has no parameter"
    return _nul_cut_terms([p.value for p in paths], _Par(ps[0]))


def _nul_cut_terms(values, data):
    """Are the terms `values` each "`data` up to its first NUL" (lemma P0)?  (True/False/None, detail)"""
    vals = {_d(v) for v in values}
    good = {
        _d(_T("item", (_T("meth:partition", (data, b"\x00")), 0))),
        _d(_T("getitem", (_T("meth:partition", (data, b"\x00")), 0))),
        _d(_T("getitem", (_T("meth:split", (data, b"\x00", 1)), 0))),
        _d(_T("getitem", (_T("meth:split", (data, b"\x00")), 0))),
        _d(_T("item", (_T("meth:split", (data, b"\x00", 1)), 0))),
    }
    if vals and vals <= good:
        return True, "cuts at the first NUL"
    shown = sorted(_show(v) for v in vals)
    # a value cut from the data at the *last* NUL or by stripping: located (it is what the function returns) and wrong
    text = " ".join(repr(v) for v in vals)
    if all(isinstance(v, _T) for v in values) and any(t in text for t in ("meth:rpartition", "meth:rsplit", "meth:rstrip", "meth:strip", "meth:rfind", "meth:rindex")):
        return False, f"NUL cut is {shown}"
    return None, f"the returned value {shown} is not a cut the rule understands"


# ---------------------------------------------------------------------------------------------- pivot frame header (R10)
# Byte windows.  A value cut out of the data of a setting - by a complete read of a stream over it, by slicing, or by
# both - is brought to the normal form "length bytes of <parameter> starting at offset start", start and length being
# LINEAR FORMS over the integer terms of the path (policy device 3: terms compared in polynomial normal form).  Lemma W0
# (Python data model, for a well-formed encoding: bounds non-negative and inside the data):
#   x[a:b] is the b-a bytes of x at offset a;  x[a:] reaches to the end of x;  x[:-k] drops the last k bytes;
#   the window (c, n) of the window (a, L) of x is the window (a+c, min(L-c, n)) of x;
#   a complete read of n bytes from a stream over x whose cursor is at c is x[c:c+n];
#   bytes()/bytearray()/memoryview() of a window is the same window.
# An integer decoded from a window is the atom ("dec", window, byteorder, signed) whatever spelled it (int.from_bytes of a
# read, of a slice, a struct format), so `u16be(p.read(2))` and `u16be(data[:2])` are the same atom.
_W_END = "to-the-end"


def _lin_add(a, b, k=1):
    out = dict(a)
    for t, c in b.items():
        out[t] = out.get(t, 0) + k * c
        if out[t] == 0 and t != 1:
            del out[t]
    out.setdefault(1, 0)
    return out


def _lin(v, st):
    """{atom: coefficient, 1: constant} of an integer term, or None"""
    if isinstance(v, bool) or v is None:
        return None
    if isinstance(v, int):
        return {1: v}
    if isinstance(v, _T) and v.op in ("binAdd", "binSub") and len(v.args) == 2:
        a, b = _lin(v.args[0], st), _lin(v.args[1], st)
        return None if a is None or b is None else _lin_add(a, b, 1 if v.op == "binAdd" else -1)
    if isinstance(v, _T) and v.op == "binMult" and len(v.args) == 2:
        for k, x in (v.args, v.args[::-1]):
            if isinstance(k, int) and not isinstance(k, bool):
                a = _lin(x, st)
                return None if a is None else _lin_add({1: 0}, a, k)
        return None
    data = None
    if isinstance(v, _T) and v.op == "dec" and len(v.args) == 3:
        data, bo, signed = v.args
    elif isinstance(v, _T) and v.op == "call" and len(v.args) == 4 and v.args[0] == "int.from_bytes":
        data, bo, signed = v.args[1:]
    if data is not None and isinstance(bo, str) and isinstance(signed, (bool, int)):
        w = _window(data, st)
        if w is not None and w[2] != _W_END and set(w[1]) == {1} and set(w[2]) == {1}:
            return {("dec", w[0], w[1][1], w[2][1], bo, bool(signed)): 1, 1: 0}
    if isinstance(v, (_T, _Rd, _Par)):
        return {("term", _d(v)): 1, 1: 0}
    return None


def _window(v, st, depth=0):
    """(parameter name, start, length | _W_END) of a value cut out of a parameter (lemma W0), or None"""
    if depth > 12:
        return None
    if isinstance(v, _Par):
        return (v.name, {1: 0}, _W_END)
    if isinstance(v, _T) and v.op == "cast" and len(v.args) == 1:
        return _window(v.args[0], st, depth + 1)
    if isinstance(v, _Rd):
        ent = next((r for r in st.reads if r[0] == v.idx), None)
        if ent is None or v.pos is None:
            return None
        return _sub_window(_window(ent[3], st, depth + 1), _lin(v.pos, st), _lin(v.n, st))
    if isinstance(v, _T) and v.op == "slice" and len(v.args) in (3, 4):
        if len(v.args) == 4 and v.args[3] is not None:
            return None
        base = _window(v.args[0], st, depth + 1)
        lo, hi = v.args[1], v.args[2]
        if base is None:
            return None
        lo_l = {1: 0} if lo is None else _lin(lo, st)
        if lo_l is None or (set(lo_l) == {1} and lo_l[1] < 0):
            return None
        if hi is None:
            return _sub_window(base, lo_l, _W_END)
        hi_l = _lin(hi, st)
        if hi_l is None:
            return None
        if set(hi_l) == {1} and hi_l[1] < 0:
            if base[2] == _W_END:
                return None
            hi_l = _lin_add(base[2], hi_l)  # x[:-k]: the end is k bytes before the end of the window
        return _sub_window(base, lo_l, _lin_add(hi_l, lo_l, -1))
    return None


def _sub_window(base, start, length):
    if base is None or start is None or length is None:
        return None
    name, a, big = base
    rest = _W_END if big == _W_END else _lin_add(big, start, -1)
    if length == _W_END:
        ln = rest
    elif rest == _W_END:
        ln = length
    else:
        diff = _lin_add(rest, length, -1)
        if set(diff) != {1}:
            return None  # which of the two ends comes first is not known
        ln = rest if diff[1] <= 0 else length
    return (name, _lin_add(a, start), ln)


def _show_lin(l, names):
    parts = []
    for t, c in l.items():
        if t == 1:
            continue
        nm = names.get(t, "<an integer>")
        parts.append(nm if c == 1 else f"{c}*{nm}")
    s = " + ".join(parts)
    k = l.get(1, 0)
    if not parts:
        return str(k)
    return s + (f" {'+' if k > 0 else '-'} {abs(k)}" if k else "")


def _prefix_bound(p, par):
    """The largest value of the length prefix L (the u16be integer at offset 0 of parameter `par`) that the decisions of
    path p allow, when one of them bounds it from above: `L + c <= 0`, `L + c < 0`, `L + c == 0`, `not (L + c)`, their
    mirrored and negated spellings - read off the linear form of left - right (no solving); else None."""
    flip = {"Lt": "Gt", "LtE": "GtE", "Gt": "Lt", "GtE": "LtE", "Eq": "Eq", "NotEq": "NotEq"}
    neg = {"Lt": "GtE", "LtE": "Gt", "Gt": "LtE", "GtE": "Lt", "Eq": "NotEq", "NotEq": "Eq"}
    best = None
    for _node, core, truth, _w in p.st.forks:
        if isinstance(core, _T) and core.op == "cmp" and len(core.args) == 3 and core.args[0] in flip:
            a, b = _lin(core.args[1], p.st), _lin(core.args[2], p.st)
            if a is None or b is None:
                continue
            op, d = core.args[0], _lin_add(a, b, -1)
        else:
            op, d = "NotEq", _lin(core, p.st)  # truthiness of an integer: != 0
            if d is None:
                continue
        atoms = [t for t in d if t != 1]
        if len(atoms) != 1 or atoms[0][:4] != ("dec", par, 0, 2) or atoms[0][4:] != ("big", False) or d[atoms[0]] not in (1, -1):
            continue
        if d[atoms[0]] == -1:
            op, d = flip[op], _lin_add({1: 0}, d, -1)
        if not truth:
            op = neg[op]
        ub = {"LtE": -d[1], "Lt": -d[1] - 1, "Eq": -d[1]}.get(op)
        if ub is not None and (best is None or ub < best):
            best = ub
    return best


def _frame_path(p, par):
    """('ok' | 'bad' | 'undecided', detail) for one returning path of the frame-header decoder"""
    if isinstance(p.value, bytes) and p.value == b"":
        # the empty header: right exactly when the path is taken only for L <= 4 (a well-formed L is >= 4: it counts the
        # 4-byte placeholder), i.e. when there is nothing between the prefix and the placeholder
        ub = _prefix_bound(p, par)
        if ub is None:
            return "undecided", "a path returns b'' under a condition that does not bound the length prefix"
        if ub > 4:
            return "bad", f"returns b'' for length prefixes up to {ub} (the header is empty only when L = 4; L counts the header and the 4-byte placeholder)"
        return "ok", "returns b'' when L <= 4 (no header bytes)"
    w = _window(p.value, p.st)
    if w is None:
        return "undecided", "the returned value is not recognised as a contiguous part of the setting's data"
    name, start, length = w
    if name != par:
        return "undecided", "the returned value is not cut out of the setting's data"
    if set(start) != {1}:
        return "undecided", "the offset of the returned bytes is not a constant"
    if length == _W_END:
        return "bad", f"returns everything from offset {start[1]} to the end of the data: not limited by the length prefix (placeholder and padding included)"
    atoms = [t for t in length if t != 1]
    decs = [t for t in atoms if t[0] == "dec"]
    if not atoms:
        return "bad", f"returns a fixed number of bytes ({length[1]}), not the number given by the length prefix"
    if len(atoms) != 1 or len(decs) != 1 or length[decs[0]] != 1:
        return "undecided", "the length of the returned bytes is not <one decoded integer> + constant"
    _k, src_, a, n, bo, signed = decs[0]
    names = {decs[0]: "L"}
    shown = f"returns the {_show_lin(length, names)} bytes at offset {start[1]}, L = the {n}-byte {bo}-endian {'signed' if signed else 'unsigned'} integer at offset {a}"
    if src_ != par:
        return "undecided", "the length is not decoded from the setting's data"
    if (a, n) != (0, 2) or bo != "big":
        return "bad", shown + " (required: L = the 2-byte big-endian unsigned integer at offset 0)"
    if start[1] != 2 or length[1] != -4:
        return "bad", shown + " (required: the L - 4 bytes at offset 2)"
    if signed:
        return "undecided", shown + "; a signed decode agrees with the unsigned one only below 2**15 (lemma D2), which is not known here"
    return "ok", shown


def r10(ctx):
    """parse_pivot_frame: SETTING_{TCP,SMB}_FRAME_HEADER is u16be L, then the frame header of L - 4 bytes (L also counts
    the 4-byte placeholder of the frame size that follows the header), then padding.  The decoded value must be exactly
    the window (offset 2, length L - 4) of the data."""
    f = ctx.repo.func("beacon.parse_pivot_frame")
    text = "header = the (L - 4) bytes that follow the u16be length prefix L"
    ps = params(f.node)
    paths, stop = _run(ctx, f)
    if stop is not None or not paths or not ps:
        ctx.undecided("R10", "CURSOR", f, text, f"evaluation stopped: {stop}" if stop else "no path", f.node)
        ctx.rep.count("frame_header_paths", 1, floor=1)
        return
    res = []
    for p in paths:
        if p.end == "raise":
            continue  # an error exit decodes nothing
        if p.end != "return" or p.imprecise:
            res.append(("undecided", "a path does not return a value" if p.end != "return" else p.imprecise[0]))
        else:
            res.append(_frame_path(p, ps[0]))
    bad = [d for s, d in res if s == "bad"]
    und = [d for s, d in res if s == "undecided"]
    if bad:
        ctx.ob("R10", "CURSOR", f, text, False, bad[0], f.node)
    elif und or not res:
        ctx.undecided("R10", "CURSOR", f, text, und[0] if und else "every path raises", f.node)
    else:
        ctx.ob("R10", "CURSOR", f, text, True, max((d for _s, d in res), key=len), f.node)
    ctx.rep.count("frame_header_paths", len(paths), floor=1)


class _Proj:
    """Which member of the pairs of `self.domain_uri_pairs` a derived property returns, and how it is de-duplicated
    (policy devices 1 and 3: syntax queries, single-definition temporaries substituted, dominance for the guards of an
    accumulating loop; nothing is evaluated).  Abstract values:
      ("pairs",)      the pair list itself (or list / tuple / iter / an identity comprehension of it)
      ("seq", m, k, F)   an ordered collection holding member m (0 | 1) of the pairs; k is None when every pair
                      contributes, else the member by whose first occurrence an element is kept (k == m: the distinct
                      members m in order of first occurrence)
      ("dict", k, v, F)  a dict keyed by member k of the pairs with member v (or None) as value
      None            anything else (not understood -> the obligation is undecided)
    F (nullness, device 4) is the set of FILTERS every element has passed on its way into the collection: (j, kind) says
    "member j of the pair the element comes from was tested to be different from the padding value of the pairing helper"
    - kind "exact": the test fails for the padding value only (`x is not None`, `x != None`, their negations on the
    other branch), kind "more": it fails for other values too (truthiness: also drops ''), kind "inverse": the test is
    the opposite one - only the padding value passes (reported).  A filter is an `if` of a
    comprehension, a test that dominates the append / the store of an accumulating loop (`if u is None: continue` and
    `if u is not None and u not in acc:` are the same dominance fact), or filter() with None / a lambda.  Filtering
    member j by its own padding commutes with de-duplication by member j, so the order of the two does not matter.
    Transfer rules (facts of the Python data model, lemma O0): a dict keeps the position of the FIRST insertion of each
    distinct key; iterating it / .keys() yields the keys, .values() one value per distinct key; dict.fromkeys(it) and
    dict(pairs) insert in iteration order; `if x not in acc: acc.append(x)` (or a seen-set fed with the same x under the
    same guard) keeps the first occurrence of every distinct x; `d = {}; for ..: d[x] = None` is dict.fromkeys.  A
    comprehension, a `for` loop that appends, map() with a lambda / itemgetter, tuple targets and `p[i]` subscripts are
    all the same selection; `self.helper(<constants>)` is the value the helper method returns with its parameters bound
    to those constants (`_method`)."""

    _DICTS = ("dict", "OrderedDict", "collections.OrderedDict")

    def __init__(self, ctx, f, pad=None, bind=None):
        from csverif.q import FuncView

        self.ctx, self.f, self.fn = ctx, f, f.node
        self.pad = pad  # (value,) - the constant the pairing helper pads incomplete groups with; None: not known
        self.bind = bind or {}  # parameter -> constant, when the function is looked at for one call with constant arguments
        self.fv = FuncView.of(f.node)
        ps = params(f.node)
        self.selfname = ps[0] if ps else "self"

    @staticmethod
    def _empty_list(e):
        return (isinstance(e, ast.List) and not e.elts) or (isinstance(e, ast.Call) and dotted(e.func) == "list" and not e.args and not e.keywords)

    def returned(self):
        """[(abstract value | None, node)] for the returns of the property; `return []` (no pairs) says nothing."""
        out = []
        for r in (s for s in body_walk(self.fn) if isinstance(s, ast.Return)):
            if r.value is None:
                out.append((None, r))
            elif not self._empty_list(r.value):
                out.append((self.value(r.value), r.value))
        return out

    def _only_read(self, name):
        """the local is only read through methods that do not modify it (so its single definition is its value)"""
        for n in body_walk(self.fn):
            if isinstance(n, ast.Name) and n.id == name:
                if not isinstance(n.ctx, ast.Load):
                    if isinstance(n.ctx, ast.Del):
                        return False
                    continue
                par = self.fv.parent.get(id(n))
                if isinstance(par, ast.Attribute) and par.value is n and par.attr not in ("keys", "values", "items", "copy"):
                    return False
                if isinstance(par, ast.Subscript) and par.value is n and not isinstance(par.ctx, ast.Load):
                    return False
        return True

    def member(self, x, target):
        """0 | 1: x is that member of the pair bound to `target`; 'whole': the pair itself; None: something else"""
        from csverif.q import inline

        names = frozenset(n.id for n in ast.walk(target) if isinstance(n, ast.Name))
        x = inline(self.fn, x, stop=names)
        if isinstance(target, (ast.Tuple, ast.List)) and len(target.elts) == 2 and all(isinstance(t, ast.Name) for t in target.elts):
            a, b = target.elts[0].id, target.elts[1].id
            if a == b:
                return None
            if isinstance(x, ast.Name):
                return 0 if x.id == a else 1 if x.id == b else None
            if isinstance(x, ast.Tuple) and [dotted(t) for t in x.elts] == [a, b]:
                return "whole"
            return None
        if isinstance(target, ast.Name):
            if isinstance(x, ast.Name) and x.id == target.id:
                return "whole"
            if isinstance(x, ast.Subscript) and isinstance(x.value, ast.Name) and x.value.id == target.id and not isinstance(x.slice, ast.Slice):
                k = _c(x.slice)
                if k is None and isinstance(x.slice, ast.Name) and x.slice.id in self.bind and not assignments_to(self.fn, x.slice.id):
                    k = self.bind[x.slice.id]  # a parameter that this call binds to a constant (argument binding)
                if isinstance(k, int) and not isinstance(k, bool):
                    return {0: 0, -2: 0, 1: 1, -1: 1}.get(k)
        return None

    def _excludes(self, test, pol):
        """(expression, kind) when `test` having the truth value `pol` implies that the expression is not the padding
        value; kind "exact": it has that truth value for every other value, "more": not for all of them.  Else None."""
        if self.pad is None:
            return None
        pad = self.pad[0]
        while isinstance(test, ast.UnaryOp) and isinstance(test.op, ast.Not):
            test, pol = test.operand, not pol
        if isinstance(test, ast.Compare) and len(test.ops) == 1:
            op = test.ops[0]
            for l, r in ((test.left, test.comparators[0]), (test.comparators[0], test.left)):
                if not (isinstance(r, ast.Constant) and type(r.value) is type(pad) and r.value == pad):
                    continue
                if isinstance(op, (ast.Is, ast.IsNot)) and pad is not None:
                    return None  # identity with a constant that is not a singleton says nothing about equality
                if (isinstance(op, (ast.IsNot, ast.NotEq)) and pol) or (isinstance(op, (ast.Is, ast.Eq)) and not pol):
                    return l, "exact"
                if isinstance(op, (ast.IsNot, ast.NotEq, ast.Is, ast.Eq)):
                    return l, "inverse"  # the test lets through the padding value only
            return None
        if pol and isinstance(test, (ast.Name, ast.Subscript)) and (pad is None or (isinstance(pad, (str, bytes, int)) and not pad)):
            return test, "more"  # truthiness: the (falsy) padding value fails it - and so does every other falsy value
        return None

    def _filter(self, test, pol, target):
        """(member, kind) for a test (holding with truth value pol) on a member of the element bound to `target`"""
        r = self._excludes(test, pol)
        if r is None:
            return None
        m = self.member(r[0], target)
        return (m, r[1]) if m in (0, 1, "whole") else None

    def _select(self, source, m, flt=frozenset()):
        """the collection obtained by taking `m` of every element of `source` that passes the filters `flt`"""
        if source is None:
            return None
        if source[0] == "dict":
            source = ("seq", source[1], source[1], source[3])  # iterating a dict yields its keys (lemma O0)
        if source == ("pairs",):
            if any(j not in (0, 1) for j, _k in flt):
                return None
            return ("seq", m, None, frozenset(flt)) if m in (0, 1) else ("pairs",) if m == "whole" and not flt else None
        if source[0] == "seq" and m == "whole":
            if any(j != "whole" for j, _k in flt):
                return None
            return source[:3] + (source[3] | frozenset((source[1], k) for _j, k in flt),)
        return None

    def value(self, e, depth=0):
        if depth > 10 or e is None:
            return None
        if isinstance(e, ast.Name):
            if e.id in params(self.fn):
                return None
            acc = self.accumulator(e.id, depth)
            if acc is not NotImplemented:
                return acc
            acc = self.dict_accumulator(e.id, depth)
            if acc is not NotImplemented:
                return acc
            defs = assignments_to(self.fn, e.id)
            if len(defs) == 1 and defs[0][1] is not None and self._only_read(e.id):
                return self.value(defs[0][1], depth + 1)
            return None
        if dotted(e) == f"{self.selfname}.domain_uri_pairs":
            return ("pairs",)
        if isinstance(e, (ast.ListComp, ast.GeneratorExp, ast.DictComp)):
            if len(e.generators) != 1:
                return None
            g = e.generators[0]
            if g.is_async:
                return None
            flt = set()
            for t in g.ifs:
                for c in conjuncts(t):
                    fl = self._filter(c, True, g.target)
                    if fl is None:
                        return None
                    flt.add(fl)
            source = self.value(g.iter, depth + 1)
            if isinstance(e, ast.DictComp):
                if source != ("pairs",) or any(j not in (0, 1) for j, _k in flt):
                    return None
                mk = self.member(e.key, g.target)
                mv = None if is_const(e.value, None) else self.member(e.value, g.target)
                if mk in (0, 1) and (mv in (0, 1) or is_const(e.value, None)):
                    return ("dict", mk, mv, frozenset(flt))
                return None
            return self._select(source, self.member(e.elt, g.target), frozenset(flt))
        if isinstance(e, ast.Call):
            fd = dotted(e.func)
            if fd is not None and fd.startswith(self.selfname + ".") and fd.count(".") == 1:
                return self._method(e, fd.split(".")[1], depth)
            if e.keywords or any(isinstance(a, ast.Starred) for a in e.args):
                return None
            if fd in ("list", "tuple", "iter") and len(e.args) == 1:
                v = self.value(e.args[0], depth + 1)
                if v is not None and v[0] == "dict":
                    return ("seq", v[1], v[1], v[3])
                return v
            if fd in self._DICTS and len(e.args) == 1:
                v = self.value(e.args[0], depth + 1)
                if v == ("pairs",):
                    return ("dict", 0, 1, frozenset())
                return v if v is not None and v[0] == "dict" else None
            if isinstance(e.func, ast.Attribute) and e.func.attr == "fromkeys" and dotted(e.func.value) in self._DICTS and 1 <= len(e.args) <= 2:
                v = self.value(e.args[0], depth + 1)
                if v is not None and v[0] == "seq" and v[2] in (None, v[1]):
                    return ("dict", v[1], None, v[3])
                return None
            if isinstance(e.func, ast.Attribute) and not e.args and e.func.attr in ("keys", "values", "copy"):
                v = self.value(e.func.value, depth + 1)
                if v is not None and v[0] == "dict":
                    if e.func.attr == "copy":
                        return v
                    if e.func.attr == "keys":
                        return ("seq", v[1], v[1], v[3])
                    return ("seq", v[2], v[1], v[3]) if v[2] is not None else None
                return v if v is not None and e.func.attr == "copy" else None
            if fd == "filter" and len(e.args) == 2:
                source = self.value(e.args[1], depth + 1)
                fn = e.args[0]
                if is_const(fn, None) and self.pad is not None:
                    t = ast.Name(id="<element>", ctx=ast.Load())
                    fl = self._filter(t, True, ast.Name(id="<element>", ctx=ast.Store()))
                    return self._select(source, "whole", frozenset([fl])) if fl is not None and source != ("pairs",) else None
                if isinstance(fn, ast.Lambda) and len(fn.args.args) == 1 and not (fn.args.vararg or fn.args.kwarg or fn.args.kwonlyargs or fn.args.defaults):
                    flt = set()
                    for c in conjuncts(fn.body):
                        fl = self._filter(c, True, ast.Name(id=fn.args.args[0].arg, ctx=ast.Store()))
                        if fl is None:
                            return None
                        flt.add(fl)
                    return self._select(source, "whole", frozenset(flt)) if source != ("pairs",) else None
                return None
            if fd == "map" and len(e.args) == 2:
                source = self.value(e.args[1], depth + 1)
                fn = e.args[0]
                if isinstance(fn, ast.Lambda) and len(fn.args.args) == 1 and not (fn.args.vararg or fn.args.kwarg or fn.args.kwonlyargs or fn.args.defaults):
                    return self._select(source, self.member(fn.body, ast.Name(id=fn.args.args[0].arg, ctx=ast.Store())))
                if isinstance(fn, ast.Call) and (dotted(fn.func) or "").split(".")[-1] == "itemgetter" and len(fn.args) == 1 and not fn.keywords:
                    k = _c(fn.args[0])
                    if isinstance(k, int) and not isinstance(k, bool) and k in (0, 1, -1, -2):
                        return self._select(source, k % 2)
                return None
        return None

    def _method(self, call, name, depth):
        """`self.helper(<constants>)`: what the helper method of the same class returns for these arguments (argument
        binding, the parameters replaced by the constants where a pair is subscripted)"""
        fq = self.f.fq.rsplit(".", 1)[0] + "." + name
        if depth > 4 or not self.ctx.repo.has_func(fq):
            return None
        g = self.ctx.repo.func(fq)
        if g.node.decorator_list or not isinstance(g.node, ast.FunctionDef) or g.node.args.vararg or g.node.args.kwarg:
            return None
        bound = bind_args(call, g.node, skip_self=True)
        bind = {}
        for k, v in bound.items():
            if not isinstance(v, ast.Constant):
                return None
            bind[k] = v.value
        sub = _Proj(self.ctx, g, self.pad, bind)
        vals = {v for v, _n in sub.returned()}
        return next(iter(vals)) if len(vals) == 1 else None

    def accumulator(self, name, depth=0):
        """The list built by `name = []; for <pair> in <pairs>: [if x not in ...:] name.append(x)`.  NotImplemented when
        `name` is not a local that starts as an empty list; None when it is one but is used in a way not understood."""
        defs = assignments_to(self.fn, name)
        if len(defs) != 1 or defs[0][1] is None or not self._empty_list(defs[0][1]):
            return NotImplemented
        appends = []
        for u in body_walk(self.fn):
            if not (isinstance(u, ast.Name) and u.id == name and isinstance(u.ctx, ast.Load)):
                continue
            par = self.fv.parent.get(id(u))
            gp = self.fv.parent.get(id(par)) if par is not None else None
            if isinstance(par, ast.Attribute) and par.attr == "append" and isinstance(gp, ast.Call) and gp.func is par and len(gp.args) == 1 and not gp.keywords \
                    and not isinstance(gp.args[0], ast.Starred) and isinstance(self.fv.parent.get(id(gp)), ast.Expr):
                appends.append(gp)
            elif isinstance(par, ast.Compare) and len(par.ops) == 1 and isinstance(par.ops[0], (ast.In, ast.NotIn)) and par.comparators[0] is u:
                pass
            elif isinstance(par, ast.Return):
                pass
            else:
                return None
        if not appends:
            return None
        loop = self._loop_of(appends)
        if loop is None:
            return None
        source = self.value(loop.iter, depth + 1)
        if source is None:
            return None
        guards = self._loop_guards(loop)
        ms, keys, flts = set(), set(), set()
        for a in appends:
            ms.add(self.member(a.args[0], loop.target))
            gs = guards(a)
            if gs is None:
                return None
            for my, cont in gs[0]:
                if my not in (0, 1, "whole"):
                    return None
                if cont != name and not self._seen_set(cont, loop, my, gs, guards):
                    return None
                keys.add(my)
            if not gs[0]:
                keys.add(None)
            flts.add(gs[1])
        if len(ms) != 1 or len(keys) != 1 or len(flts) != 1:
            return None
        m, key = next(iter(ms)), next(iter(keys))
        sel = self._select(source, m, next(iter(flts)))
        if sel is None or sel[0] != "seq":
            return None
        if key is None:
            return sel
        if source == ("pairs",) and key in (0, 1):
            return ("seq", sel[1], key, sel[3])
        if source[0] == "seq" and key == "whole" and sel[2] in (None, sel[1]):
            return ("seq", sel[1], sel[1], sel[3])
        return None

    def _loop_guards(self, loop):
        from csverif.q import dominating_conditions

        inside = {id(n) for n in ast.walk(loop)}

        def guards(node):
            """(sorted [(member tested, container name)] of the `not in` guards, frozenset of the padding filters) that
            dominate a statement of the loop; None if it has a guard of another kind"""
            out, flt = [], set()
            for _t, pol, tn in dominating_conditions(self.ctx, self.f, node):
                if id(tn) not in inside:
                    continue
                if isinstance(tn, ast.Compare) and len(tn.ops) == 1 and isinstance(tn.ops[0], (ast.In, ast.NotIn)) and isinstance(tn.comparators[0], ast.Name):
                    if isinstance(tn.ops[0], ast.NotIn) != pol:
                        return None  # appended only when already present
                    out.append((self.member(tn.left, loop.target), tn.comparators[0].id))
                else:
                    fl = self._filter(tn, pol, loop.target)
                    if fl is None:
                        return None
                    flt.add(fl)
            return sorted(out, key=repr), frozenset(flt)

        return guards

    def _loop_of(self, nodes):
        """the single `for` loop (not nested in another loop, no else / break / return, loop variables bound only by it)
        that holds all of `nodes`; None otherwise"""
        loops = {id(self.fv.enclosing(a, (ast.For, ast.AsyncFor, ast.While))): self.fv.enclosing(a, (ast.For, ast.AsyncFor, ast.While)) for a in nodes}
        if len(loops) != 1:
            return None
        loop = next(iter(loops.values()))
        if not isinstance(loop, ast.For) or loop.orelse or self.fv.enclosing(loop, (ast.For, ast.AsyncFor, ast.While)) is not None:
            return None
        if any(isinstance(n, (ast.Break, ast.Return)) for n in ast.walk(loop)):
            return None
        tnames = [n.id for n in ast.walk(loop.target) if isinstance(n, ast.Name)]
        if any(len(assignments_to(self.fn, t)) != 1 for t in tnames):
            return None  # the loop variable is re-bound: it is not the member of the pair any more
        return loop

    def dict_accumulator(self, name, depth=0):
        """The dict built by `name = {}; for <pair> in <pairs>: [if <filter>:] name[x] = y` (y None or a member).
        NotImplemented when `name` is not a local that starts as an empty dict; None when it is but is not understood."""
        defs = assignments_to(self.fn, name)
        e0 = defs[0][1] if len(defs) == 1 else None
        if e0 is None or not ((isinstance(e0, ast.Dict) and not e0.keys) or (isinstance(e0, ast.Call) and dotted(e0.func) in self._DICTS and not e0.args and not e0.keywords)):
            return NotImplemented
        stores = []
        for u in body_walk(self.fn):
            if not (isinstance(u, ast.Name) and u.id == name and isinstance(u.ctx, ast.Load)):
                continue
            par = self.fv.parent.get(id(u))
            gp = self.fv.parent.get(id(par)) if par is not None else None
            if isinstance(par, ast.Subscript) and par.value is u and isinstance(par.ctx, ast.Store) and isinstance(gp, ast.Assign) and gp.targets == [par]:
                stores.append(gp)
            elif isinstance(par, ast.Subscript) and par.value is u:
                return None
            elif isinstance(par, ast.Attribute) and par.attr not in ("keys", "values", "copy"):
                return None
            elif isinstance(par, ast.Compare) and not (len(par.ops) == 1 and isinstance(par.ops[0], (ast.In, ast.NotIn)) and par.comparators[0] is u):
                return None
        if not stores:
            return None
        loop = self._loop_of(stores)
        if loop is None or self.value(loop.iter, depth + 1) != ("pairs",):
            return None
        guards = self._loop_guards(loop)
        out = set()
        for a in stores:
            mk = self.member(a.targets[0].slice, loop.target)
            mv = None if is_const(a.value, None) else self.member(a.value, loop.target)
            gs = guards(a)
            if gs is None or mk not in (0, 1) or not (mv in (0, 1) or is_const(a.value, None)) or any(j not in (0, 1) for j, _k in gs[1]):
                return None
            # `if x not in d: d[x] = ..` inserts where the plain store does (first occurrence); with a member as value
            # it would keep the FIRST value instead of the last (lemma O0) - not modelled
            if any(cont != name or my != mk for my, cont in gs[0]) or (gs[0] and mv is not None):
                return None
            out.add(("dict", mk, mv, gs[1]))
        return next(iter(out)) if len(out) == 1 else None

    def _seen_set(self, cont, loop, my, gs, guards):
        """`cont` is a set that starts empty and receives, under the same guards as the append, the same member that the
        guard tests - so `x not in cont` is 'x has not occurred before'."""
        defs = assignments_to(self.fn, cont)
        if len(defs) != 1 or not (isinstance(defs[0][1], ast.Call) and dotted(defs[0][1].func) == "set" and not defs[0][1].args and not defs[0][1].keywords):
            return False
        adds = []
        for u in body_walk(self.fn):
            if not (isinstance(u, ast.Name) and u.id == cont and isinstance(u.ctx, ast.Load)):
                continue
            par = self.fv.parent.get(id(u))
            gp = self.fv.parent.get(id(par)) if par is not None else None
            if isinstance(par, ast.Attribute) and par.attr == "add" and isinstance(gp, ast.Call) and gp.func is par and len(gp.args) == 1 and not gp.keywords \
                    and isinstance(self.fv.parent.get(id(gp)), ast.Expr):
                adds.append(gp)
            elif isinstance(par, ast.Compare) and len(par.ops) == 1 and isinstance(par.ops[0], (ast.In, ast.NotIn)) and par.comparators[0] is u:
                pass
            else:
                return False
        if not adds:
            return False
        for a in adds:
            if self.fv.enclosing(a, (ast.For, ast.AsyncFor, ast.While)) is not loop or self.member(a.args[0], loop.target) != my:
                return False
            g2 = guards(a)
            # the same `not in` guards; of the padding filters the add may have passed fewer than the append (the set
            # then also remembers dropped elements: de-duplicating before filtering - the same result when the filter
            # tests the de-duplication key itself or is vacuous, a reported mismatch otherwise)
            if g2 is None or g2[0] != gs[0] or not g2[1] <= gs[1]:
                return False
        return True


def r8(ctx):
    want = {"port": "SETTING_PORT", "watermark": "SETTING_WATERMARK", "sleeptime": "SETTING_SLEEPTIME", "jitter": "SETTING_JITTER",
            "protocol": "SETTING_PROTOCOL", "is_trial": "SETTING_CRYPTO_SCHEME", "public_key": "SETTING_PUBKEY", "submit_uri": "SETTING_SUBMITURI"}
    for prop, key in want.items():
        f = ctx.repo.func(f"beacon.BeaconConfig.{prop}")
        keys = _setting_keys(ctx, f)
        if keys is None:
            # fall back to the text of the function: the keys of every .get(..) / [..] on a settings mapping
            ks = [_c(c.args[0]) for c in fn_calls(f.node) if isinstance(c.func, ast.Attribute) and c.func.attr == "get" and c.args]
            ks += [_c(n.slice) for n in body_walk(f.node) if isinstance(n, ast.Subscript) and isinstance(n.slice, ast.Constant)]
            keys = {k for k in ks if isinstance(k, str)}
        ctx.ob("R8", "AGREE", f, prop, keys == {key}, f"reads {sorted(keys)} (required [{key!r}])")
    f = ctx.repo.func("beacon.BeaconConfig.is_trial")
    ok = any(isinstance(op, (ast.Eq, ast.NotEq)) and "CryptoScheme.CRYPTO_TRIAL_PRODUCT" in (dotted(l), dotted(r)) for n in body_walk(f.node) if isinstance(n, ast.Compare) for l, op, r in compare_parts(n))
    ctx.ob("R8", "AGREE", f, "== CRYPTO_TRIAL_PRODUCT", ok, "trial flag compares with CRYPTO_TRIAL_PRODUCT" if ok else "trial flag does not compare with CRYPTO_TRIAL_PRODUCT")
    cd = ctx.cdefs("beacon")["cs_struct"]
    ctx.ob("R8", "TABLE", "beacon.py::CS_DEF::enum CryptoScheme", "members", cd.enum("CryptoScheme").by_name() == {"CRYPTO_LICENSED_PRODUCT": 0, "CRYPTO_TRIAL_PRODUCT": 1}, str(cd.enum("CryptoScheme").by_name()))
    ctx.ob("R8", "TABLE", "beacon.py::CS_DEF::flag BeaconProtocol", "members", cd.enum("BeaconProtocol").by_name() == {"http": 0, "dns": 1, "smb": 2, "tcp": 4, "https": 8, "bind": 16}, str(cd.enum("BeaconProtocol").by_name()))
    f = ctx.repo.func("beacon.BeaconConfig.protocol")
    ok = any(isinstance(c, ast.Call) and dotted(c.func) == "BeaconProtocol" for c in fn_calls(f.node))
    ctx.ob("R8", "AGREE", f, "BeaconProtocol(...).name", ok, "protocol name via the BeaconProtocol flag")
    f = ctx.repo.func("beacon.BeaconConfig.public_key")
    ok = any(isinstance(c.func, ast.Attribute) and c.func.attr == "rstrip" and c.args and is_const(c.args[0], b"\x00") for c in fn_calls(f.node))
    ctx.ob("R8", "AGREE", f, "rstrip(b'\\x00')", ok, "public key is right-stripped of NUL padding" if ok else "public key is not right-stripped of NULs")
    # domains / uris: even and odd members of grouper(..., 2)
    pairs = ctx.repo.func("beacon.BeaconConfig.domain_uri_pairs")
    g = [c for c in fn_calls(pairs.node) if ctx.rs.resolve_call(pairs, c).fq == "utils.grouper"]
    gf = ctx.repo.func("utils.grouper") if ctx.repo.has_func("utils.grouper") else None
    nval = None
    if len(g) == 1:
        nval = _c(bind_args(g[0], gf.node).get(params(gf.node)[1])) if gf is not None and len(params(gf.node)) > 1 else _c(g[0].args[1] if len(g[0].args) > 1 else kwarg(g[0], "n"))
    ok = len(g) == 1 and nval == 2
    sp = [c for c in fn_calls(pairs.node) if isinstance(c.func, ast.Attribute) and c.func.attr == "split" and is_const(_arg(c, 0, "sep"), ",")]
    ctx.ob("R8", "AGREE", pairs, "grouper(split(','), 2)", ok and len(sp) == 1, "pairs are consecutive members of the comma-separated list" if ok else "pairing is not grouper(..., 2)")
    # domains / uris: the distinct first / second members of the pairs, in order of first occurrence.  The value the
    # property returns is abstracted to (which member of each pair, by which member it is de-duplicated) - see _Proj.
    # The pairing helper pads the last, incomplete group (a lone domain, an all-NUL value, an odd number of fields) with
    # its fill value - the PADDING value, located here from the grouper call and the helper's zip_longest call.  Lemma G0:
    # only positions after the first of the last group are ever padded.  A projection may drop exactly the padding (a
    # test on the projected member itself; a test on the first member is vacuous by G0); `uris` - declared List[str],
    # joined and .encode()d by its callers - has to: every way the second member of a pair reaches its result passes a
    # test that excludes the padding value (nullness of the elements, device 4; the tests are the filters of `_Proj`).
    pad = _padding(g[0], gf) if ok and gf is not None else None
    nth = ["first", "second"]
    for prop, idx in (("domains", 0), ("uris", 1)):
        f = ctx.repo.func(f"beacon.BeaconConfig.{prop}")
        pj = _Proj(ctx, f, pad)
        vals = pj.returned()
        seqs = [(v, n) for v, n in vals if v is not None and v[0] == "seq"]
        bad = [(v, n) for v, n in seqs if v[1] != idx or v[2] not in (None, idx) or any(j not in (idx, 0) or k == "inverse" for j, k in v[3])]
        more = [(v, n) for v, n in seqs if any(k != "exact" for _j, k in v[3])]
        located = bool(seqs) and len(seqs) == len(vals)
        if bad:
            v, n = bad[0]
            why = f"takes the {nth[v[1]]} member of each pair (required: the {nth[idx]})" if v[1] != idx else \
                f"keeps one {nth[idx]} member per distinct {nth[v[2]]} member (required: the distinct {nth[idx]} members)" if v[2] not in (None, idx) else \
                f"keeps only the pairs whose {nth[[j for j, k in v[3] if k == 'inverse'][0]]} member IS the padding value {pad[0]!r} (required: every {nth[idx]} member but the padding)" \
                if any(k == "inverse" for _j, k in v[3]) else \
                f"drops {nth[idx]} members by a test on the {nth[1 - idx]} member of their pair (required: every {nth[idx]} member; only the padding value {pad[0]!r} may be dropped)"
            ctx.ob("R8", "AGREE", f, prop, False, f"{why}: {src(n)[:100]}", n)
        elif not located:
            n = next((n for v, n in vals if v is None or v[0] != "seq"), f.node)
            ctx.undecided("R8", "AGREE", f, prop, "the returned value is not recognised as a selection of one member of each pair of self.domain_uri_pairs"
                          + (f" ({src(n)[:80]})" if n is not f.node else ""), n)
        elif more:
            ctx.undecided("R8", "AGREE", f, prop, f"the selection is filtered by a truth test, which drops more than the padding value {pad[0]!r} (empty strings): not known to be "
                          f"every {nth[idx]} member ({src(more[0][1])[:80]})", more[0][1])
        else:
            ctx.ob("R8", "AGREE", f, prop, True, f"the {nth[idx]} member of each pair of self.domain_uri_pairs" + (", first occurrences" if seqs[0][0][2] is not None else "")
                   + (f", without the padding value {pad[0]!r}" if seqs[0][0][3] else ""), seqs[0][1])
        if idx == 0:
            continue  # G0: the first member of a group is never padding
        text = f"{prop}: no padding value of the pairing"
        if pad is None:
            ctx.undecided("R8", "ABS", f, text, "the value the pairing helper pads an incomplete group with could not be located (grouper call / zip_longest fillvalue)", f.node)
        elif not located:
            ctx.undecided("R8", "ABS", f, text, "the returned value is not recognised as a selection of one member of each pair of self.domain_uri_pairs", f.node)
        else:
            leak = [(v, n) for v, n in seqs if v[1] == idx and not any(j == idx and k != "inverse" for j, k in v[3])]
            ctx.ob("R8", "ABS", f, text, not leak,
                   f"every {nth[idx]} member passes a test that excludes the padding value {pad[0]!r} before it reaches the result" if not leak else
                   f"the {nth[idx]} member of a pair reaches the result without a test that excludes the padding value {pad[0]!r} - a domain without URI (a lone domain, an all-NUL "
                   f"value, an odd number of fields) puts {pad[0]!r} into the List[str]: {src(leak[0][1])[:100]}", (leak[0][1] if leak else seqs[0][1]))
    _killdate(ctx)
    f = ctx.repo.func("beacon.BeaconConfig.max_setting_enum")
    ok = any(isinstance(c, ast.Call) and dotted(c.func) == "max" and c.args and dotted(c.args[0]) == "self.setting_enums" for c in fn_calls(f.node))
    ctx.ob("R8", "AGREE", f, "max(self.setting_enums)", ok, "highest setting index" if ok else "not max(self.setting_enums)")


# Kill date.  SETTING_KILLDATE carries the date packed as the DECIMAL number YYYYMMDD; the derived property shows the
# fields year / month / day, in that order.  Abstract domain (policy device 4, modular facts; lemma K0): a DIGIT WINDOW
# [lo, hi) of a non-negative integer K is K // 10**lo % 10**(hi - lo) (hi None: no upper cut).  Transfer rules:
#   K is the window [0, None);  w // 10**a is [lo + a, hi);  w % 10**b is [lo, min(hi, lo + b));
#   divmod(w, c) is (w // c, w % c);  str(K) / f"{K}" of an 8-digit K (named assumption: a well-formed YYYYMMDD has a
#   four-digit year) is the character window [0, 8), slicing [a:b] cuts character windows, int() of the characters [a, b)
#   is the digit window [8 - b, 8 - a).
# Two windows with different bounds inside the 8 digits differ for some K (the digits are independent), so a field whose
# window is not the prescribed one is wrong for some kill date - however the window was spelled (string slices, // and %,
# divmod).  Anything else (a multiplication, a date object, a division by a non-power of ten) is not a window: undecided.
_KD_WIDTH = 8
_KD_FIELDS = (("year", 4, 8), ("month", 2, 4), ("day", 0, 2))


def _pow10(c):
    if isinstance(c, bool) or not isinstance(c, int) or c < 1:
        return None
    k = 0
    while c % 10 == 0:
        c, k = c // 10, k + 1
    return k if c == 1 else None


def _setting_read(v):
    """the SETTING_* name when the term is a lookup of that setting in a settings mapping (get / subscript), else None"""
    if isinstance(v, _T) and v.op in ("meth:get", "getitem") and len(v.args) >= 2:
        k = v.args[1]
        if isinstance(k, _En) and isinstance(k.name, str):
            k = k.name
        if isinstance(k, str) and k.startswith("SETTING_"):
            return k
    return None


def _digit_window(v, key, depth=0):
    """("int", lo, hi) / ("chars", a, b) for a term that is a digit / character window of the setting `key`; None else"""
    if depth > 30 or not isinstance(v, _T):
        return None
    if _setting_read(v) == key:
        return ("int", 0, None)
    sub = lambda x: _digit_window(x, key, depth + 1)
    if v.op in ("binFloorDiv", "binMod") and len(v.args) == 2:
        w, k = sub(v.args[0]), _pow10(v.args[1])
        if w is None or w[0] != "int" or k is None:
            return None
        _t, lo, hi = w
        if v.op == "binFloorDiv":
            return ("int", lo + k, hi) if hi is None or lo + k < hi else ("int", hi, hi)
        return ("int", lo, lo + k if hi is None else min(hi, lo + k))
    if v.op in ("item", "getitem") and len(v.args) == 2 and isinstance(v.args[0], _T) and v.args[0].op == "call" and v.args[0].args[:1] == ("divmod",) \
            and len(v.args[0].args) == 3 and v.args[1] in (0, 1) and not isinstance(v.args[1], bool):
        return sub(_T("binFloorDiv" if v.args[1] == 0 else "binMod", v.args[0].args[1:]))
    if v.op == "call" and len(v.args) == 2 and v.args[0] == "int":
        w = sub(v.args[1])
        if w is None:
            return None
        return w if w[0] == "int" else ("int", _KD_WIDTH - w[2], _KD_WIDTH - w[1])
    if v.op == "call" and len(v.args) == 2 and v.args[0] == "str":
        return ("chars", 0, _KD_WIDTH) if sub(v.args[1]) == ("int", 0, None) else None
    if v.op == "fstr" and len(v.args) == 1 and isinstance(v.args[0], _T) and v.args[0].op == "fv" and v.args[0].args[1:] in ((-1, None), (-1, ""), (-1, "d"), (-1, "08d"), (-1, "08")):
        return ("chars", 0, _KD_WIDTH) if sub(v.args[0].args[0]) == ("int", 0, None) else None
    if v.op == "slice" and len(v.args) == 4 and v.args[3] in (None, 1):
        w = sub(v.args[0])
        if w is None or w[0] != "chars":
            return None
        n = w[2] - w[1]
        bounds = []
        for b, dflt in ((v.args[1], 0), (v.args[2], n)):
            if b is None:
                b = dflt
            if isinstance(b, bool) or not isinstance(b, int):
                return None
            bounds.append(max(0, min(n, b + n if b < 0 else b)))
        a, b = bounds
        return ("chars", w[1] + a, w[1] + max(a, b))
    return None


def _killdate(ctx):
    f = ctx.repo.func("beacon.BeaconConfig.killdate")
    ev = _Ev(ctx)
    ev.intercept = True
    try:
        res = ev.run(f)
        stop = None
    except (_Stop, RecursionError, AttributeError, TypeError, ValueError, KeyError, IndexError) as e:
        res, stop = [], f"{type(e).__name__}: {e}"
    packed, split, unknown = [], [], []
    for _st, sig in res:
        v = sig[1] if isinstance(sig, tuple) and sig[0] == "return" else None
        if v is None:
            continue  # no kill date
        # the fields shown, in the order in which they appear in the text
        fields = [a.args[0] for a in v.args if isinstance(a, _T) and a.op == "fv"] if isinstance(v, _T) and v.op == "fstr" else None
        if fields is None or any(isinstance(a, _T) and a.op != "fv" for a in v.args):
            unknown.append(_show(_d(v)))
            continue
        ws = [_digit_window(x, "SETTING_KILLDATE") for x in fields]
        # the characters [a, b) of the 8-digit text shown as they are: the digits [8 - b, 8 - a), leading zeros kept
        ws = [("int", _KD_WIDTH - w[2], _KD_WIDTH - w[1]) if w is not None and w[0] == "chars" else w for w in ws]
        ks = [_setting_read(x) for x in fields]
        if all(w is not None and w[0] == "int" for w in ws) and ws:
            packed.append(ws)
        elif all(k is not None and k != "SETTING_KILLDATE" for k in ks) and ks:
            split.append(ks)
        else:
            unknown.append(", ".join(_show(_d(x)) for x in fields))
    text = "YYYYMMDD: year, month, day are the decimal digits 1-4, 5-6, 7-8 of SETTING_KILLDATE"

    def show(w):
        return f"digits [{w[1]}, {'..' if w[2] is None else w[2]}) from the right"

    if stop is not None or (not packed and not unknown):
        ctx.undecided("R8", "ABS", f, text, f"the property could not be evaluated ({stop})" if stop else "no returned text shows fields computed from SETTING_KILLDATE", f.node)
    else:
        wrong = []
        for ws in packed:
            if len(ws) != len(_KD_FIELDS):
                wrong.append(f"{len(ws)} fields of SETTING_KILLDATE are shown (required: year, month, day)")
                continue
            for (name, lo, hi), w in zip(_KD_FIELDS, ws):
                if not (w[1] == lo and (w[2] == hi or (w[2] is None and hi == _KD_WIDTH))):
                    wrong.append(f"the {name} field is {show(w)} of the decimal value (required [{lo}, {hi}): YYYYMMDD)")
        if wrong:
            ctx.ob("R8", "ABS", f, text, False, "; ".join(sorted(set(wrong))), f.node)
        elif unknown:
            ctx.undecided("R8", "ABS", f, text, f"a returned text is not recognised as fields of SETTING_KILLDATE: {unknown[0][:160]}", f.node)
        else:
            ctx.ob("R8", "ABS", f, text, True, "the three fields shown are the digit windows [4, 8), [2, 4), [0, 2) of the decimal value, in that order (lemma K0)", f.node)
    text = "split kill date: SETTING_KILLDATE_YEAR, _MONTH, _DAY shown in that order"
    want = ["SETTING_KILLDATE_YEAR", "SETTING_KILLDATE_MONTH", "SETTING_KILLDATE_DAY"]
    if stop is not None or not split:
        ctx.undecided("R8", "AGREE", f, text, f"the property could not be evaluated ({stop})" if stop else "no returned text shows the three settings", f.node)
    else:
        bad = [ks for ks in split if ks != want]
        ctx.ob("R8", "AGREE", f, text, not bad, f"shows {bad[0]} (required {want})" if bad else "year, month, day settings in that order", f.node)


def _padding(call, gf):
    """(value,): the constant with which the pairing helper `gf`, called by `call`, fills an incomplete group - the
    fillvalue it hands to itertools.zip_longest (library default: None), bound through the call's arguments and the
    helper's own default.  None when it cannot be located."""
    zl = [c for c in fn_calls(gf.node) if (dotted(c.func) or "").split(".")[-1] == "zip_longest"]
    if len(zl) != 1:
        return None
    if any(k.arg is None for k in zl[0].keywords):
        return None
    fv = kwarg(zl[0], "fillvalue")
    if fv is None:
        return (None,)
    if isinstance(fv, ast.Name) and fv.id in params(gf.node) and len(assignments_to(gf.node, fv.id)) == 0:
        try:
            fv = bind_args(call, gf.node).get(fv.id)
        except Exception:
            return None
    if isinstance(fv, ast.Constant):
        return (fv.value,)
    return None


def _setting_keys(ctx, f):
    """The SETTING_* keys that the value returned by a derived property (or a decision on the way) depends on, found
    by evaluating the property; None when it cannot be evaluated."""
    ev = _Ev(ctx)
    ev.intercept = True
    try:
        res = ev.run(f)
    except (_Stop, RecursionError, AttributeError, TypeError, ValueError, KeyError, IndexError):
        return None
    keys = set()

    def walk(v, depth=0):
        if depth > 40:
            return
        if isinstance(v, str):
            if v.startswith("SETTING_"):
                keys.add(v)
        elif isinstance(v, _T):
            for a in v.args:
                walk(a, depth + 1)
        elif isinstance(v, (tuple, frozenset)):
            for a in v:
                walk(a, depth + 1)
        elif isinstance(v, _En):
            walk(v.value, depth + 1)

    for st, sig in res:
        if isinstance(sig, tuple) and sig[0] == "return":
            walk(sig[1])
            if isinstance(sig[1], _Ref):
                o = st.heap.get(sig[1].oid)
                for x in getattr(o, "items", []) or []:
                    walk(x)
        for _nd, core, _pol, _dec in st.forks:
            walk(core)
    return keys


# ----------------------------------------------------------------------------------------------- R11
# Every decode hands out a value of its own.  "For every well-formed encoding the decoded value is precisely the
# sequence of steps that was encoded" has to hold for every decode, also the second one of the same encoding: a decoder
# whose result object is kept somewhere that outlives the call (a memoising decorator, a module-level table, a mutable
# default argument, a function attribute) and handed out again returns whatever an earlier caller left in it.  That is
# harmless exactly when the object cannot be modified.  The rule locates the places where a decoder's result is retained
# (device 1: decorators resolved through the import table, stores into / loads from names that are not locals of the
# function) and classifies the retained value by the defining expressions it can come from (device 3: def-use chains).
_MEMOISERS = {"functools.lru_cache", "functools.cache", "lru_cache", "cache"}
_TRANSPARENT_DECORATORS = {"staticmethod", "classmethod", "functools.wraps", "wraps"}
_MUTABLE_CALLS = {"list", "dict", "set", "bytearray", "sorted", "OrderedDict", "collections.OrderedDict", "defaultdict", "collections.defaultdict",
                  "deque", "collections.deque", "Counter", "collections.Counter"}
_IMMUTABLE_CALLS = {"bytes", "str", "int", "bool", "float", "len", "tuple", "frozenset", "hex", "repr", "format", "sum", "min", "max", "abs", "ord", "chr",
                    "hash", "any", "all", "MappingProxyType", "types.MappingProxyType"}
_IMMUTABLE_METHODS = {"decode", "encode", "hex", "hexdigest", "digest", "format", "join", "strip", "rstrip", "lstrip", "lower", "upper", "replace", "title",
                      "zfill", "to_bytes", "removeprefix", "removesuffix", "tobytes", "read", "getvalue", "ljust", "rjust", "capitalize"}
_STORING_METHODS = {"append", "add", "insert", "setdefault", "update", "extend", "__setitem__", "appendleft", "put"}
_LOADING_METHODS = {"get", "setdefault", "__getitem__"}


def _join_mut(vals):
    vals = list(vals)
    if any(v == "mutable" for v in vals):
        return "mutable"
    return "immutable" if vals and all(v == "immutable" for v in vals) else None


def _mutability(ctx, f, e, depth=0, seen=None):
    """Can the object that expression e of function f (None: module level) denotes be modified in place?
    'mutable' / 'immutable' / None (not known), from the expressions that may define it."""
    from csverif.q import all_origins

    seen = set() if seen is None else seen
    if e is None or depth > 8 or id(e) in seen:
        return None
    seen.add(id(e))
    origins = all_origins(f.node, e) if f is not None else [e]
    out = []
    for o in origins:
        if o is not e and id(o) in seen:
            continue  # the accumulator pattern x = x + [..]: the other definitions decide
        sub = lambda x: _mutability(ctx, f, x, depth + 1, seen)  # noqa: E731
        if isinstance(o, (ast.List, ast.ListComp, ast.Dict, ast.DictComp, ast.Set, ast.SetComp)):
            out.append("mutable")
        elif isinstance(o, (ast.Constant, ast.JoinedStr, ast.Compare, ast.Lambda)) or (isinstance(o, ast.UnaryOp) and isinstance(o.op, ast.Not)):
            out.append("immutable")
        elif isinstance(o, ast.Tuple):
            out.append(_join_mut([sub(x) for x in o.elts]) if o.elts else "immutable")
        elif isinstance(o, ast.IfExp):
            out.append(_join_mut([sub(o.body), sub(o.orelse)]))
        elif isinstance(o, ast.BoolOp):
            out.append(_join_mut([sub(x) for x in o.values]))
        elif isinstance(o, ast.BinOp):
            if isinstance(o.op, ast.Mod) and isinstance(o.left, ast.Constant):
                out.append("immutable")
            else:
                out.append(_join_mut([sub(o.left), sub(o.right)]))
        elif isinstance(o, ast.Subscript):
            base = sub(o.value)
            out.append("mutable" if base == "mutable" and isinstance(o.slice, ast.Slice) else ("immutable" if base == "immutable" else None))
        elif isinstance(o, ast.Call):
            d = dotted(o.func)
            if d in _MUTABLE_CALLS:
                out.append("mutable")
            elif d in _IMMUTABLE_CALLS:
                out.append("immutable")
            elif isinstance(o.func, ast.Attribute) and o.func.attr in _IMMUTABLE_METHODS:
                out.append("immutable")
            elif isinstance(o.func, ast.Attribute) and o.func.attr == "copy":
                out.append(sub(o.func.value))
            else:
                cal = ctx.rs.resolve_call(f, o) if f is not None else None
                if cal is not None and cal.kind == "func" and cal.func is not None and not isinstance(cal.func.node, ast.Lambda):
                    from csverif.q import returns_of
                    out.append(_join_mut([_mutability(ctx, cal.func, r.value, depth + 1, seen) if r.value is not None else "immutable" for r in returns_of(cal.func)]))
                else:
                    out.append(None)
        else:
            out.append(None)
    return _join_mut(out)


def _persistent_roots(ctx, f):
    """predicate: is the name `n`, used in f, a place that outlives a call of f?  (not a local of f - a module-level
    object, a function object, a `global` - or a parameter whose default value is a mutable object)"""
    fn = f.node
    declared = {n for s in ast.walk(fn) if isinstance(s, (ast.Global, ast.Nonlocal)) for n in s.names}
    local = set(_Ev._locals(fn)) - declared
    defaults = param_defaults(fn)
    builtin = set(_BUILTIN_NAMES)

    def persistent(name):
        if name in local:
            return name in defaults and defaults[name] is not None and _mutability(ctx, None, defaults[name]) == "mutable"
        return name not in builtin

    return persistent, declared


def _root_name(e):
    while isinstance(e, (ast.Attribute, ast.Subscript)):
        e = e.value
    return e.id if isinstance(e, ast.Name) else None


def _result_aliases(fn, rets):
    """local names that may denote the object a `return` hands out (closure over plain copies a = b)"""
    names = {r.value.id for r in rets if isinstance(r.value, ast.Name)}
    copies = [(t.id, s.value.id) for s in body_walk(fn) if isinstance(s, ast.Assign) and isinstance(s.value, ast.Name) for t in s.targets if isinstance(t, ast.Name)]
    changed = True
    while changed:
        changed = False
        for a, b in copies:
            if (a in names) != (b in names):
                names |= {a, b}
                changed = True
    return names


def _holds(e, names):
    """does expression e denote one of `names`, or a display that holds one of them?"""
    if isinstance(e, ast.Name):
        return e.id in names
    if isinstance(e, (ast.Tuple, ast.List, ast.Set)):
        return any(_holds(x, names) for x in e.elts)
    if isinstance(e, ast.Dict):
        return any(_holds(x, names) for x in e.values if x is not None)
    return False


def _retained(ctx, f):
    """Where the object returned by f is kept beyond the call: [(node, text, expression whose object is kept | None)]"""
    from csverif.q import all_origins, returns_of

    fn = f.node
    out = []
    rets = [r for r in returns_of(f) if r.value is not None]
    for d in getattr(fn, "decorator_list", []):
        name = dotted(d.func if isinstance(d, ast.Call) else d)
        s = ctx.rs.lookup_dotted(f.module.name, name) if name else None
        full = (s.name if s is not None and s.kind == "external" else name) or src(d)
        if full in _MEMOISERS:
            for r in rets:
                out.append((d, f"the memoising decorator @{src(d)[:50]}", r.value))
        elif full not in _TRANSPARENT_DECORATORS:
            out.append((d, f"the decorator @{src(d)[:50]}, which the rule does not know", None))
    persistent, declared = _persistent_roots(ctx, f)
    aliases = _result_aliases(fn, rets)
    for s in body_walk(fn):
        if isinstance(s, (ast.Assign, ast.AnnAssign)) and s.value is not None and _holds(s.value, aliases):
            for t in (s.targets if isinstance(s, ast.Assign) else [s.target]):
                root = _root_name(t)
                if isinstance(t, (ast.Subscript, ast.Attribute)) and root is not None and persistent(root):
                    out.append((s, f"the store {src(s)[:60]} into {root}, which outlives the call,", s.value))
                elif isinstance(t, ast.Name) and t.id in declared:
                    out.append((s, f"the store into the global {t.id}", s.value))
        elif isinstance(s, ast.Call) and isinstance(s.func, ast.Attribute) and s.func.attr in _STORING_METHODS:
            root = _root_name(s.func.value)
            vals = list(s.args) + [k.value for k in s.keywords]
            if root is not None and persistent(root) and root not in aliases and any(_holds(v, aliases) for v in vals):
                out.append((s, f"the call {src(s)[:60]} on {root}, which outlives the call,", next(v for v in vals if _holds(v, aliases))))
    for r in rets:
        for o in all_origins(fn, r.value):
            root = None
            if isinstance(o, ast.Subscript) and not isinstance(o.slice, ast.Slice):
                root = _root_name(o)
            elif isinstance(o, ast.Call) and isinstance(o.func, ast.Attribute) and o.func.attr in _LOADING_METHODS:
                root = _root_name(o.func.value)
            elif isinstance(o, ast.Name) and o.id in f.module.consts:
                root = o.id
            if root is None or not persistent(root) or root not in f.module.consts and root not in declared and root not in _Ev._locals(fn) and not ctx.repo.has_func(f"{f.module.name}.{root}"):
                continue
            if isinstance(o, ast.Name):
                kept = f.module.consts[o.id]
                out.append((r, f"the module-level name {o.id} (it is the returned object itself)", ("module", kept)))
            else:
                out.append((r, f"{root}, which outlives the call and out of which the result is taken ({src(o)[:50]}),", ("stored-in", root)))
    return out


def _stored_values(ctx, f, root):
    """the mutability of what the functions of f's module (and the module-level definition) put into container `root`"""
    vals = []
    const = f.module.consts.get(root)
    if isinstance(const, ast.Dict):
        vals.extend(_mutability(ctx, None, v) for v in const.values)
    elif isinstance(const, (ast.List, ast.Tuple, ast.Set)):
        vals.extend(_mutability(ctx, None, v) for v in const.elts)
    for g in f.module.funcs.values():
        if isinstance(g.node, ast.Lambda):
            continue
        for s in body_walk(g.node):
            if isinstance(s, ast.Assign):
                for t in s.targets:
                    if isinstance(t, ast.Subscript) and _root_name(t) == root:
                        vals.append(_mutability(ctx, g, s.value))
            elif isinstance(s, ast.Call) and isinstance(s.func, ast.Attribute) and s.func.attr in _STORING_METHODS and _root_name(s.func.value) == root:
                vals.extend(_mutability(ctx, g, a) for a in (s.args[-1:] if s.func.attr in ("setdefault", "insert", "__setitem__") else s.args))
    return _join_mut(vals) if vals else None


def _decoders(ctx):
    """The package functions that decode a structured setting: those the entries of SETTING_TO_PRETTYFUNC refer to, and
    the package functions whose result these return as it is.  {fq: Func}, plus memoising wrappers applied at module level:
    {fq: node}."""
    from csverif.q import all_origins, returns_of

    mod = ctx.repo.module("beacon")
    tbl = ctx.repo.const("beacon.SETTING_TO_PRETTYFUNC")
    found = {}

    def func_of(node):
        d = dotted(node)
        s = ctx.rs.lookup_dotted("beacon", d) if d else None
        if s is not None and s.kind in ("func", "partial") and s.module in ctx.repo.modules:
            return ctx.repo.modules[s.module].funcs.get(s.name)
        return None

    for n in ast.walk(tbl):
        if isinstance(n, (ast.Name, ast.Attribute)):
            g = func_of(n)
            if g is not None and not isinstance(g.node, ast.Lambda):
                found[g.fq] = g
    work = list(found.values())
    while work:
        f = work.pop()
        for r in returns_of(f):
            for o in (all_origins(f.node, r.value) if r.value is not None else []):
                if isinstance(o, ast.Call):
                    cal = ctx.rs.resolve_call(f, o)
                    if cal.kind == "func" and cal.func is not None and not isinstance(cal.func.node, ast.Lambda) and cal.func.fq not in found:
                        found[cal.func.fq] = cal.func
                        work.append(cal.func)
    wrapped = {}
    for value in mod.consts.values():
        for c in ast.walk(value):
            if not isinstance(c, ast.Call):
                continue
            maker = c.func.func if isinstance(c.func, ast.Call) else c.func
            d = dotted(maker)
            s = ctx.rs.lookup_dotted("beacon", d) if d else None
            full = (s.name if s is not None and s.kind == "external" else d) or ""
            if full in _MEMOISERS:
                for a in c.args:
                    g = func_of(a)
                    if g is not None and g.fq in found:
                        wrapped[g.fq] = c
    return found, wrapped


def r11(ctx):
    from csverif.q import returns_of

    found, wrapped = _decoders(ctx)
    ctx.rep.count("setting_decoders", len(found), floor=8)
    text = "every decode returns a value of its own"
    for fq in sorted(found):
        f = found[fq]
        kept = _retained(ctx, f)
        if fq in wrapped:
            kept.extend((wrapped[fq], f"the memoising wrapper {src(wrapped[fq])[:60]} applied to it at module level", r.value) for r in returns_of(f) if r.value is not None)
        if not kept:
            ctx.ob("R11", "ALIAS", f, text, True, "the returned object is built by the call and kept nowhere that outlives it (no memoising decorator, no store into / load from "
                   "a module-level object, a global, a function attribute or a mutable default argument)", f.node)
            continue
        verdicts = []
        for node, how, what in kept:
            if what is None:
                m = None
            elif isinstance(what, tuple) and what[0] == "module":
                m = _mutability(ctx, None, what[1])
            elif isinstance(what, tuple) and what[0] == "stored-in":
                m = _stored_values(ctx, f, what[1])
            else:
                m = _mutability(ctx, f, what)
            verdicts.append((m, node, how))
        bad = [v for v in verdicts if v[0] == "mutable"]
        unknown = [v for v in verdicts if v[0] is None]
        if bad:
            _m, node, how = bad[0]
            ctx.ob("R11", "ALIAS", f, text, False, f"the decoded value is a mutable object and {how} keeps it and hands the same object to later decodes: what one caller "
                   "does to its result (reverse, append, del ...) is what the next decode of that encoding returns instead of the encoded steps", node)
        elif unknown:
            _m, node, how = unknown[0]
            ctx.undecided("R11", "ALIAS", f, text, f"{how} may keep the decoded value; whether that value can be modified in place is not known", node)
        else:
            ctx.ob("R11", "ALIAS", f, text, True, f"the decoded value is kept beyond the call ({verdicts[0][2]}) but cannot be modified in place", f.node)


# ----------------------------------------------------------------------------------------------- R12
# Fixed-size settings.  A TYPE_SHORT / TYPE_INT record carries its value as 2 / 4 bytes in network byte order, unsigned
# (port 0..65535, watermark / sleep time / kill date 0..2**32-1, the DNS idle address as an IPv4 number): the value that
# BeaconConfig.settings_map stores for such a record - and hands to the record's pretty function - must be exactly that
# integer, and the value of a TYPE_PTR record the record's bytes (what the decoders of R2-R10 are applied to).  The
# method is walked by the path-wise value flow with ONE symbolic record standing for an arbitrary member of
# self.settings_tuple (device 3: the record's bytes are a symbolic, complete byte string of the declared width, the
# loop body is analysed once); one run per value-carrying member of the enum SettingsType of CS_DEF and per setting of
# the two boolean view flags (device 5).  What is compared is the TERM stored in the returned mapping: dec(bytes,
# byteorder, signed) whatever spelled the decode (u16be, int.from_bytes, struct.unpack, a precompiled struct.Struct
# looked up in a table keyed by the record type ...).  Lemma D2 read backwards: the signed and the unsigned decoding of w
# bytes differ exactly when the top bit is set, which a well-formed value may have.
_SM = "beacon.BeaconConfig.settings_map"
_FIXED_WIDTH = {"TYPE_SHORT": 2, "TYPE_INT": 4, "TYPE_PTR": None}  # reference (Beacon settings block): width in bytes of the integer; None: raw bytes


class _EvRecord(_Ev):
    """`_Ev` for a method of BeaconConfig that walks self.settings_tuple: the tuple is represented by one symbolic record
    (an arbitrary member) whose `type` is the enum member of the run, whose `value` is a symbolic complete byte string of
    `width` bytes (of `length` bytes when the width is not fixed) and whose other fields are opaque.  A store into a
    mapping under a key that is not known (the record's index / name) is kept as a pair of that mapping."""

    def __init__(self, ctx, assume, f, rtype, width):
        super().__init__(ctx, assume)
        self.owner = f
        self.me = _Par(params(f.node)[0])
        self.record = _Par("<setting>")
        self.rtype = rtype
        self.value = _Rd(0, width if width is not None else _T("field", (self.record, "length")), 0)

    def getattr(self, base, attr, st, node):
        if base == self.me and attr == "settings_tuple":
            return (self.record,)
        if base == self.record and attr in ("type", "value", "length"):
            return {"type": self.rtype, "value": self.value, "length": self.value.n}[attr]
        return super().getattr(base, attr, st, node)

    def assign(self, t, v, st):
        if isinstance(t, ast.Subscript) and not isinstance(t.slice, ast.Slice) and isinstance(t.value, ast.Name):
            base = self.lookup(t.value.id, st)
            o = st.heap.get(base.oid) if isinstance(base, _Ref) else None
            if isinstance(o, _HDict):
                key = self.ev(t.slice, st)
                if not self.hashable_known(key):
                    self.guard_mut(st, base.oid)
                    o.pairs.append([key, v])
                    return
                for p in o.pairs:
                    if self.key_eq(p[0], key) is True:
                        p[1] = v
                        return
                o.pairs.append([key, v])
                return
        super().assign(t, v, st)

    def call_method(self, recv, attr, args, kwargs, st, node):
        if recv == self.me and self.owner.cls is not None:
            fq = f"{self.owner.module.name}.{self.owner.cls}.{attr}"
            if self.ctx.repo.has_func(fq):
                return self.call_func(self.ctx.repo.func(fq), [recv] + list(args), kwargs, st, node)
        return super().call_method(recv, attr, args, kwargs, st, node)


def _stored_values_of(p):
    """The values of the mapping(s) a path of settings_map returns (looked for inside the returned term: the mapping
    itself, or a read-only / ordered wrapper around it); None when no mapping is found there."""
    found, seen = [], set()

    def walk(v, depth=0):
        if depth > 12:
            return
        if isinstance(v, _Ref):
            o = p.st.heap.get(v.oid)
            if isinstance(o, _HDict) and v.oid not in seen:
                seen.add(v.oid)
                found.append(o)
        elif isinstance(v, _T):
            for a in v.args:
                walk(a, depth + 1)
        elif isinstance(v, tuple):
            for a in v:
                walk(a, depth + 1)

    walk(p.value)
    if not found:
        return None
    return [val for o in found for _k, val in o.pairs]


def _fixed_value(v, rd):
    """What a stored value is, as a function of the record's bytes `rd`: ('int', byteorder, signed, over all of the
    bytes?) | ('raw',) | None (something the rule does not understand).  An entry of a lookup table applied to one
    argument (the record's pretty function: TABLE.get(k)(x) / TABLE[k](x)) is looked through: the argument is judged."""
    while isinstance(v, _T) and v.op == "call" and len(v.args) == 2 and isinstance(v.args[0], _T) and v.args[0].op in ("get", "getitem"):
        v = v.args[1]
    if v == rd:
        return ("raw",)
    if isinstance(v, _T) and v.op == "dec" and len(v.args) == 3:
        base, lo, hi = v.args[0], 0, None
        if isinstance(base, _T) and base.op == "slice" and len(base.args) == 3:
            base, lo, hi = base.args
        if base == rd and isinstance(v.args[1], str):
            whole = lo == 0 and (hi is None or (isinstance(rd.n, int) and isinstance(hi, int) and hi >= rd.n))
            return ("int", v.args[1], bool(v.args[2]), whole)
    return None


def r12(ctx):
    f = ctx.repo.func(_SM)
    members = dict(ctx.cdefs("beacon")["cs_struct"].enum("SettingsType").members)
    flags = ("parse", "pretty")
    n_paths = 0
    for name, width in _FIXED_WIDTH.items():
        text = f"{name} value: " + (f"unsigned {8 * width}-bit big-endian integer of the record's bytes" if width else "the record's bytes")
        if name not in members or any(p not in params(f.node) for p in flags):
            ctx.undecided("R12", "AGREE", f, text, f"SettingsType.{name} / the view flags {flags} of settings_map could not be located", f.node)
            continue
        rtype = _En("SettingsType", name, members[name])
        bad, unsure, good = [], [], 0
        for parse, pretty in ((True, False), (False, True), (True, True)):
            case = f"parse={parse}, pretty={pretty}"
            holder = []

            def make(c, a, rtype=rtype, width=width, holder=holder):
                ev = _EvRecord(c, a, f, rtype, width)
                holder.append(ev)
                return ev

            paths, stop = _run(ctx, f, None, {"parse": parse, "pretty": pretty}, make=make)
            if stop is not None:
                unsure.append(f"{case}: evaluation stopped: {stop}")
                continue
            rd, rec = holder[-1].value, holder[-1].record
            known = {("par", rec.name), ("par", "index_type"), ("rd", 0)}
            for p in paths:
                if p.end != "return":
                    continue
                vals = _stored_values_of(p)
                if not vals:
                    unsure.append(f"{case}: the mapping that settings_map returns, or the value stored in it for a record, could not be located")
                    continue
                # a decision of the path about anything but the record and the kind of key: the case is not the one asked about
                foreign = p.imprecise or any(not (_deps(core) <= known) for _n, core, _pol, _d2 in p.st.forks)
                for v in vals:
                    n_paths += 1
                    got = _fixed_value(v, rd)
                    if got is None:
                        unsure.append(f"{case}: the stored value {_show(_d(v))} is not a decode of the record's bytes that the rule understands")
                    elif width is None:
                        if got == ("raw",):
                            good += 1
                        else:
                            (unsure if foreign else bad).append(f"{case}: the bytes of a {name} record are converted to an integer ({got[1]}-endian) instead of being kept / handed to the pretty function")
                    elif got == ("raw",):
                        (unsure if foreign else bad).append(f"{case}: the bytes of a {name} record are stored / handed to the pretty function unconverted")
                    elif got == ("int", "big", False, True):
                        good += 1
                    else:
                        _i, bo, sg, whole = got
                        why = "signed: every value with the top bit set (port >= 32768, watermark >= 2**31, an IPv4 number >= 128.0.0.0) comes out negative" if sg else \
                            "wrong byte order" if bo != "big" else f"not over all {width} bytes of the value"
                        (unsure if p.imprecise else bad).append(f"{case}: decoded as a {'signed' if sg else 'unsigned'} {bo}-endian integer{'' if whole else ' of a part of the bytes'} ({why})")
        if bad:
            ctx.ob("R12", "AGREE", f, text, False, bad[0], f.node)
        elif unsure or not good:
            ctx.undecided("R12", "AGREE", f, text, unsure[0] if unsure else "no path that stores a value for the record was found", f.node)
        else:
            ctx.ob("R12", "AGREE", f, text, True, f"holds for the value stored / handed to the pretty function on all {good} evaluated paths (parse and / or pretty on)", f.node)
    # (never vacuous: without a located stored value the obligations above are undecided, so no floor error when nothing was found)
    ctx.rep.count("settings_map_values", n_paths, floor=6 if n_paths else None)
