"""C03 - Structured settings decode Cobalt Strike's binary encodings exactly (structural part)."""

from __future__ import annotations

import ast
import glob
import os

from csverif import tables
from csverif.astutil import (
    assignments_to, body_walk, compare_parts, const_eval, dotted, fn_calls, is_const, kwarg, NotConst, param_annotation,
    param_defaults, params, src, statements,
)
from csverif.q import FuncView, calls_to, guarded_by, origin, reaching_origins  # noqa: F401


def _c(node):
    try:
        return const_eval(node) if node is not None else None
    except NotConst:
        return None


def _members(node):
    """['X', ...] for a list/tuple/set literal of TransformStep.X attributes."""
    out = []
    if isinstance(node, (ast.List, ast.Tuple, ast.Set)):
        for e in node.elts:
            d = dotted(e) or ""
            if d.startswith("TransformStep."):
                out.append(d.split(".", 1)[1])
            else:
                out.append("?" + src(e))
    return out


def _is_be32(ctx, f, call):
    cal = ctx.rs.resolve_call(f, call)
    if cal.kind != "func" or cal.func.fq != "utils.unpack":
        return None
    size = _c(cal.bound.get("size")) if "size" in cal.bound else _c(kwarg(call, "size"))
    bo = _c(cal.bound.get("byteorder")) if "byteorder" in cal.bound else (_c(kwarg(call, "byteorder")) or "little")
    sg = _c(cal.bound.get("signed")) if "signed" in cal.bound else (_c(kwarg(call, "signed")) or False)
    return (size, bo, bool(sg))


def run(ctx):
    rep = ctx.rep
    rep.explanation = (
        "Static analysis of beacon.py: opcode/enum tables parsed from CS_DEF compared completely with reference tables; "
        "arity classes of the transform parser (disjoint, complete, equal to the reference); every integer read in the "
        "program parsers resolved to a 4-byte big-endian unsigned unpack with def-use of the decoded length; per-branch "
        "literal agreement in the recover parser; BeaconGate group partition; attributes used on cstruct instances "
        "checked against the installed dissect.cstruct sources; pretty-function table keys and sibling agreement; "
        "derived properties read the setting their name says."
    )
    rep.not_decided = ["decoded byte arguments for all programs", "parse_gargle endianness (no independent reference)", "killdate formatting, IPv4 rendering"]
    rep.trusted_base = ["CPython ast", "C-definition parser", "reference opcode tables in csverif/tables.py", "installed dissect.cstruct sources under /venv"]
    rep.exhaustive = True
    r1(ctx)
    r2(ctx)
    r3(ctx)
    r4(ctx)
    r5(ctx)
    r6(ctx)
    r7(ctx)
    r8(ctx)
    r9(ctx)


def r9(ctx):
    """Sleep-mask section table: every (start, end) pair read is reported, in read order, unless it is the all-zero
    terminator - no well-formed entry (e.g. one starting at offset 0) may be dropped."""
    from csverif.q import specialise

    f = ctx.repo.func("beacon.parse_gargle")
    cfg = ctx.cfg(f)
    fv = FuncView.of(f.node)
    loops = [s for s in statements(f.node) if isinstance(s, ast.While)]
    rets = [r for r in statements(f.node) if isinstance(r, ast.Return) and r.value is not None]
    out = dotted(rets[0].value) if len(rets) == 1 else None
    apps = [c for c in fn_calls(f.node) if isinstance(c.func, ast.Attribute) and c.func.attr == "append" and dotted(c.func.value) == out and len(c.args) == 1]
    if len(loops) != 1 or out is None or len(apps) != 1:
        ctx.ob("R9", "AGREE", f, "section table loop", False, f"expected one while loop, one returned list and one append to it; found {len(loops)}/{out}/{len(apps)}", f.node)
        return
    w, app = loops[0], apps[0]
    # the two integers of an entry: locals defined in the loop from an unpack of a 4-byte read, in statement order
    ints = []
    for s in statements(w):
        if isinstance(s, ast.Assign) and len(s.targets) == 1 and isinstance(s.targets[0], ast.Name) and isinstance(s.value, ast.Call) and _is_be32(ctx, f, s.value) is not None:
            ints.append((s.targets[0].id, s, _is_be32(ctx, f, s.value)))
    names = [n for n, _s, _k in ints]
    ctx.ob("R9", "AGREE", f, "entry = two 32-bit reads", len(ints) == 2 and ints[0][2] == ints[1][2] and ints[0][2][0] == 4 and not ints[0][2][2],
           f"entry integers {[(n, k) for n, _s, k in ints]} (two unsigned 4-byte reads decoded alike)", w)
    if len(ints) != 2:
        return
    from csverif.q import inline

    val = inline(f.node, app.args[0], stop=frozenset(names))
    used_sorted = [n.id for n in sorted((n for n in ast.walk(val) if isinstance(n, ast.Name) and n.id in names), key=lambda n: (n.lineno, n.col_offset))]
    ctx.ob("R9", "AGREE", f, "entry text = start-end", used_sorted == names, f"appended value {src(val)[:60]} uses {used_sorted}; required {names} (read order)", app)
    app_st = fv.stmt_of(app)
    last = cfg.node(ints[1][1])
    head = cfg.node(w)
    bad = []
    for a, b in ((True, True), (True, False), (False, True)):
        c2 = specialise(cfg, {names[0]: a, names[1]: b}, ints=frozenset(names))
        if c2.reaches(last, head, avoiding=[cfg.node(app_st)]):
            bad.append(f"{names[0]}{'!=' if a else '=='}0,{names[1]}{'!=' if b else '=='}0")
    ctx.ob("R9", "DOM", f, "every non-terminator entry reported", not bad,
           "for each of start/end non-zero the append lies on every path of the iteration" if not bad else f"an entry with {bad} can complete the iteration without being appended", app)


def r1(ctx):
    cd = ctx.cdefs("beacon")["cs_struct"]
    for en, ref in (("TransformStep", tables.TRANSFORM_STEPS), ("InjectExecutor", tables.INJECT_EXECUTORS), ("BofAllocator", tables.BOF_ALLOCATORS)):
        got = dict(cd.enum(en).members)
        dup = len(cd.enum(en).members) != len(got)
        diff = {k: (got.get(k), ref.get(k)) for k in set(got) | set(ref) if got.get(k) != ref.get(k)}
        ctx.ob("R1", "TABLE", f"beacon.py::CS_DEF::enum {en}", "members", not diff and not dup, f"{len(got)} members; differences (repo, reference): {diff}" if diff else f"{len(got)} members equal the reference")
    ctx.ob("R1", "TABLE", "beacon.py::CS_DEF::enum TransformStep", "width", cd.enum("TransformStep").base == "uint32", f"base type {cd.enum('TransformStep').base}")
    ctx.ob("R1", "TABLE", "beacon.py::CS_DEF::enum InjectExecutor", "width", cd.enum("InjectExecutor").base == "uint8", f"base type {cd.enum('InjectExecutor').base}")
    bgo = cd.struct("BeaconGateOptions")
    names = [f.name for f in bgo.fields]
    ok = names == tables.BEACON_GATE_APIS and all(f.type == "uint8" and f.count is None for f in bgo.fields)
    ctx.ob("R1", "TABLE", "beacon.py::CS_DEF::struct BeaconGateOptions", "fields", ok, f"{len(names)} uint8 flags; order equals the 23 reference APIs={names == tables.BEACON_GATE_APIS}")
    ctx.rep.count("transform_opcodes", len(cd.enum("TransformStep").members), floor=16)
    ctx.rep.count("beacon_gate_fields", len(names), floor=23)


def r2(ctx):
    f = ctx.repo.func("beacon.parse_transform_binary")
    # roles are discovered from the dispatch, not from variable names: the list tested by the branch that appends
    # (name, True) is the no-argument class, the one tested by the branch that reads an argument the length-prefixed
    # class; the dict whose .get() maps the build selector is the build map
    loc = {"ENABLE_STEPS": None, "ARGUMENT_STEPS": None, "BUILD_MAP": None}
    role_name = {}
    for st in statements(f.node):
        if isinstance(st, ast.If) and isinstance(st.test, ast.Compare) and len(st.test.ops) == 1 and isinstance(st.test.ops[0], ast.In) and isinstance(st.test.comparators[0], ast.Name):
            lname = st.test.comparators[0].id
            d = assignments_to(f.node, lname)
            if len(d) != 1 or not isinstance(d[0][1], (ast.List, ast.Tuple, ast.Set)):
                continue
            reads = any(isinstance(c, ast.Call) and isinstance(c.func, ast.Attribute) and c.func.attr == "read" for s2 in st.body for c in ast.walk(s2))
            role = "ARGUMENT_STEPS" if reads else "ENABLE_STEPS"
            loc[role] = d[0][1]
            role_name[lname] = role
    for n in body_walk(f.node):
        if isinstance(n, ast.Call) and isinstance(n.func, ast.Attribute) and n.func.attr == "get" and isinstance(n.func.value, ast.Name):
            d = assignments_to(f.node, n.func.value.id)
            if len(d) == 1 and isinstance(d[0][1], ast.Dict):
                loc["BUILD_MAP"] = d[0][1]
                role_name[n.func.value.id] = "BUILD_MAP"
    en, ar = set(_members(loc["ENABLE_STEPS"])), set(_members(loc["ARGUMENT_STEPS"]))
    ctx.ob("R2", "TABLE", f, "ENABLE_STEPS", en == tables.STEPS_NO_ARG, f"no-argument opcodes {sorted(en)}; reference {sorted(tables.STEPS_NO_ARG)}", loc["ENABLE_STEPS"] or f.node)
    ctx.ob("R2", "TABLE", f, "ARGUMENT_STEPS", ar == tables.STEPS_LEN_ARG, f"length-prefixed opcodes {sorted(ar)}; reference {sorted(tables.STEPS_LEN_ARG)}", loc["ARGUMENT_STEPS"] or f.node)
    ctx.ob("R2", "TABLE", f, "classes disjoint", not (en & ar) and "BUILD" not in en | ar, f"overlap={sorted(en & ar)}")
    cover = en | ar | tables.STEPS_BUILD | set(tables.STEPS_EXEMPT)
    ctx.ob("R2", "TABLE", f, "classes complete", cover == set(tables.TRANSFORM_STEPS), f"opcodes without a class: {sorted(set(tables.TRANSFORM_STEPS) - cover)} (exempt: {tables.STEPS_EXEMPT})")
    bm = loc["BUILD_MAP"]
    bm_ok = isinstance(bm, ast.Dict) and len(bm.keys) == 2 and {_c(k) for k in bm.keys} == {0, 1}
    if bm_ok:
        m = {_c(k): v for k, v in zip(bm.keys, bm.values)}
        bm_ok = dotted(m[0]) == "build" and is_const(m[1], "output")
    ctx.ob("R2", "TABLE", f, "BUILD_MAP", bm_ok, f"BUILD selector map is {src(bm)}; required {{0: <build parameter>, 1: 'output'}}", bm or f.node)
    d = param_defaults(f.node).get("build")
    ctx.ob("R2", "TABLE", f, "build default", is_const(d, "metadata"), f"default build is {src(d)} ('metadata' for http-get client)")
    # dispatch of the three classes
    fv = FuncView.of(f.node)
    for st in statements(f.node):
        if not isinstance(st, ast.If):
            continue
        t = st.test
        cls = None
        if isinstance(t, ast.Compare) and len(t.ops) == 1 and isinstance(t.ops[0], ast.In) and role_name.get(dotted(t.comparators[0])) in ("ENABLE_STEPS", "ARGUMENT_STEPS"):
            cls = role_name[dotted(t.comparators[0])]
        elif any(isinstance(op, ast.Eq) and "TransformStep.BUILD" in (dotted(l), dotted(r)) for l, op, r in compare_parts(t)):
            cls = "BUILD"
        if cls is None:
            continue
        apps = [c for s in st.body for c in ast.walk(s) if isinstance(c, ast.Call) and isinstance(c.func, ast.Attribute) and c.func.attr == "append"]
        ok = False
        detail = "branch does not append exactly one (name, value) step"
        if len(apps) == 1 and apps[0].args and isinstance(apps[0].args[0], ast.Tuple) and len(apps[0].args[0].elts) == 2:
            nm, val = apps[0].args[0].elts
            nmo = origin(f.node, nm)
            # the emitted name is <enum member>.name of the opcode decoded in this iteration
            nm_ok = isinstance(nmo, ast.Attribute) and nmo.attr == "name" and isinstance(origin(f.node, nmo.value), ast.Call) and dotted(origin(f.node, nmo.value).func) == "TransformStep"
            if cls == "ENABLE_STEPS":
                ok = nm_ok and is_const(val, True)
                detail = f"appends ({src(nm)}, {src(val)}); required (opcode name, True)"
            elif cls == "ARGUMENT_STEPS":
                vo = [o for o in reaching_origins(ctx, f, val, apps[0])]
                rd = vo[0] if len(vo) == 1 else None
                ln = rd.args[0] if isinstance(rd, ast.Call) and isinstance(rd.func, ast.Attribute) and rd.func.attr == "read" and rd.args else None
                lo = reaching_origins(ctx, f, ln, rd) if ln is not None else []
                len_ok = len(lo) == 1 and isinstance(lo[0], ast.Call) and _is_be32(ctx, f, lo[0]) == (4, "big", False)
                ok = nm_ok and len_ok
                detail = f"appends ({src(nm)}, {src(rd)}); argument length {src(ln)} is a 4-byte big-endian read={len_ok}"
            else:
                vo = origin(f.node, val)
                sel = vo.args[0] if isinstance(vo, ast.Call) and isinstance(vo.func, ast.Attribute) and vo.func.attr == "get" and role_name.get(dotted(vo.func.value)) == "BUILD_MAP" and vo.args else None
                so = origin(f.node, sel) if sel is not None else None
                ok = nm_ok and isinstance(so, ast.Call) and _is_be32(ctx, f, so) == (4, "big", False)
                detail = f"appends ({src(nm)}, {src(vo)}); selector is a 4-byte big-endian read={ok}"
        ctx.ob("R2", "AGREE", f, f"branch {cls}", ok, detail, st)
    # bindings in SETTING_TO_PRETTYFUNC
    tbl = ctx.repo.const("beacon.SETTING_TO_PRETTYFUNC")
    ent = {dotted(k): v for k, v in zip(tbl.keys, tbl.values)} if isinstance(tbl, ast.Dict) else {}
    req = ent.get("BeaconSetting.SETTING_C2_REQUEST")
    post = ent.get("BeaconSetting.SETTING_C2_POSTREQ")
    ctx.ob("R2", "AGREE", "beacon.py::SETTING_TO_PRETTYFUNC", "SETTING_C2_REQUEST", dotted(req) == "parse_transform_binary", f"bound to {src(req)} (default build 'metadata')", req)
    p_ok = isinstance(post, ast.Call) and dotted(post.func) in ("functools.partial", "partial") and post.args and dotted(post.args[0]) == "parse_transform_binary" and is_const(kwarg(post, "build"), "id")
    ctx.ob("R2", "AGREE", "beacon.py::SETTING_TO_PRETTYFUNC", "SETTING_C2_POSTREQ", bool(p_ok), f"bound to {src(post)} (must select build 'id')", post)
    rec = ent.get("BeaconSetting.SETTING_C2_RECOVER")
    ctx.ob("R2", "AGREE", "beacon.py::SETTING_TO_PRETTYFUNC", "SETTING_C2_RECOVER", dotted(rec) == "parse_recover_binary", f"bound to {src(rec)}", rec)


def r3(ctx):
    n = 0
    for fq in ("beacon.parse_transform_binary", "beacon.parse_recover_binary", "beacon.parse_process_injection_transform_steps"):
        f = ctx.repo.func(fq)
        for c in fn_calls(f.node):
            w = _is_be32(ctx, f, c)
            if w is None:
                continue
            n += 1
            a = origin(f.node, c.args[0]) if c.args else None
            rd_ok = isinstance(a, ast.Call) and isinstance(a.func, ast.Attribute) and a.func.attr == "read" and a.args and _c(a.args[0]) == 4
            if not rd_ok and isinstance(c.args[0], ast.Name):
                # multi-definition local (d = p.read(4) twice): every reaching definition must be a 4-byte read
                ro = reaching_origins(ctx, f, c.args[0], c)
                rd_ok = bool(ro) and all(isinstance(o, ast.Call) and isinstance(o.func, ast.Attribute) and o.func.attr == "read" and o.args and _c(o.args[0]) == 4 for o in ro)
            ctx.ob("R3", "AGREE", f, src(c), w == (4, "big", False) and rd_ok, f"integer read resolves to unpack(size,byteorder,signed)={w} over a 4-byte read={rd_ok}; required (4,'big',False)", c)
        bad = [src(c) for c in fn_calls(f.node) if (isinstance(c.func, ast.Attribute) and c.func.attr in ("insert", "sort", "reverse", "pop", "remove")) or dotted(c.func) in ("sorted", "reversed")]
        ctx.ob("R3", "AGREE", f, "program order", not bad, f"steps are appended in program order; reordering calls: {bad}")
        # the stream is built over the whole program
        mk = [c for c in fn_calls(f.node) if dotted(c.func) == "io.BytesIO"]
        ok = len(mk) == 1 and mk[0].args and dotted(mk[0].args[0]) == params(f.node)[0]
        ctx.ob("R3", "AGREE", f, "io.BytesIO(program)", ok, "parser reads the whole program from its start" if ok else "parser stream is not io.BytesIO(<program parameter>)")
    ctx.rep.count("be32_reads", n, floor=7)
    # loop exits: a program parser may stop only on what it read as the *opcode* of this iteration (short/empty read
    # or opcode 0) - stopping on an argument value (e.g. an empty argument) truncates a well-formed program
    for fq in ("beacon.parse_transform_binary", "beacon.parse_recover_binary", "beacon.parse_execute_list", "beacon.parse_gargle"):
        f = ctx.repo.func(fq)
        fv = FuncView.of(f.node)
        for w in [s2 for s2 in statements(f.node) if isinstance(s2, ast.While)]:
            first = w.body[0] if w.body else None
            op = dotted(first.targets[0]) if isinstance(first, ast.Assign) and isinstance(first.value, ast.Call) and isinstance(first.value.func, ast.Attribute) and first.value.func.attr == "read" else None
            derived = {op} if op else set()
            changed = True
            while changed:
                changed = False
                for s2 in ast.walk(w):
                    if isinstance(s2, ast.Assign) and dotted(s2.targets[0]) and dotted(s2.targets[0]) not in derived:
                        names = {x.id for x in ast.walk(s2.value) if isinstance(x, ast.Name)}
                        locals_used = {x for x in names if assignments_to(f.node, x)}
                        reads = any(isinstance(c, ast.Call) and isinstance(c.func, ast.Attribute) and c.func.attr == "read" for c in ast.walk(s2.value))
                        if locals_used and locals_used <= derived and not reads:
                            derived.add(dotted(s2.targets[0]))
                            changed = True
            for b in [s2 for s2 in ast.walk(w) if isinstance(s2, (ast.Break, ast.Return)) and fv.enclosing(s2, (ast.While, ast.For)) is w]:
                test = fv.enclosing(b, (ast.If,))
                names = {x.id for x in ast.walk(test.test) if isinstance(x, ast.Name) and assignments_to(f.node, x.id)} if test is not None else {"<unconditional>"}
                ok = op is not None and bool(names) and names <= derived
                ctx.ob("R3", "LOOP", f, f"loop exit under {sorted(names)}", ok,
                       f"parser stops on the opcode read of the iteration ({op} and values derived from it: {sorted(derived)})" if ok else
                       f"parser can stop on {sorted(names - derived)} - not the opcode read {op}: a well-formed program is truncated", b)


def r4(ctx):
    f = ctx.repo.func("beacon.parse_recover_binary")
    seen = {}
    for st in statements(f.node):
        if not isinstance(st, ast.If):
            continue
        member = None
        for l, op, r in compare_parts(st.test):
            if isinstance(op, ast.Eq):
                for a in (l, r):
                    d = dotted(a) or ""
                    if d.startswith("TransformStep."):
                        member = d.split(".", 1)[1]
        if member is None:
            continue
        apps = [c for s in st.body for c in ast.walk(s) if isinstance(c, ast.Call) and isinstance(c.func, ast.Attribute) and c.func.attr == "append"]
        if len(apps) != 1 or not apps[0].args or not isinstance(apps[0].args[0], ast.Tuple) or len(apps[0].args[0].elts) != 2:
            ctx.ob("R4", "AGREE", f, f"branch {member}", False, "branch does not append exactly one (name, value) step", st)
            continue
        nm, val = apps[0].args[0].elts
        lit = _c(nm)
        seen[member] = lit
        carries = tables.RECOVER_STEPS.get(member)
        if carries:
            vo = reaching_origins(ctx, f, val, apps[0])
            v_ok = len(vo) == 1 and isinstance(vo[0], ast.Call) and _is_be32(ctx, f, vo[0]) == (4, "big", False)
            vd = f"value {src(val)} is the decoded 4-byte big-endian length={v_ok}"
        else:
            v_ok = is_const(val, True)
            vd = f"value {src(val)} (True required)"
        ctx.ob("R4", "AGREE", f, f"branch {member}", lit == member.lower() and v_ok and member in tables.RECOVER_STEPS,
               f"under step == TransformStep.{member} emits {lit!r} (required {member.lower()!r}); {vd}", st)
    ctx.ob("R4", "TABLE", f, "branch set", set(seen) == set(tables.RECOVER_STEPS), f"recover opcodes handled {sorted(seen)}; reference {sorted(tables.RECOVER_STEPS)}")


def r5(ctx):
    f = ctx.repo.func("beacon.beacon_gate_options_string")
    ref = {"comms": set(tables.BEACON_GATE_COMMS), "core": set(tables.BEACON_GATE_CORE), "cleanup": set(tables.BEACON_GATE_CLEANUP)}
    # the three group sets are found by what they are (set literals of API names), their role by which label the
    # branch testing them reports
    lits = {}
    for st in statements(f.node):
        if isinstance(st, ast.Assign) and isinstance(st.targets[0], ast.Name) and isinstance(st.value, (ast.Set, ast.List, ast.Tuple)):
            try:
                v = set(const_eval(st.value))
            except (NotConst, TypeError):
                continue
            if v and all(isinstance(x, str) for x in v):
                lits[st.targets[0].id] = v
    order = []
    opt_var = None
    for st in statements(f.node):
        if isinstance(st, ast.If) and isinstance(st.test, ast.Call) and isinstance(st.test.func, ast.Attribute) and st.test.func.attr == "issuperset":
            opt_var = dotted(st.test.func.value)
            arg = st.test.args[0] if st.test.args else None
            names = sorted({n.id for n in ast.walk(arg) if isinstance(n, ast.Name)}) if arg is not None else []
            lab = [c for s2 in st.body for c in ast.walk(s2) if isinstance(c, ast.Call) and isinstance(c.func, ast.Attribute) and c.func.attr == "append"]
            sub = [s2 for s2 in st.body if isinstance(s2, ast.AugAssign) and isinstance(s2.op, ast.Sub) and dotted(s2.target) == opt_var]
            sub_names = sorted({n.id for n in ast.walk(sub[0].value) if isinstance(n, ast.Name)}) if sub else None
            label = _c(lab[0].args[0]) if len(lab) == 1 and lab[0].args else None
            order.append((label, names, sub_names))
    role = {}
    for label, names, _sub in order:
        if label in ("Comms", "Core", "Cleanup") and len(names) == 1:
            role[label.lower()] = names[0]
    groups = {k: lits.get(role.get(k)) for k in ref}
    for k in ref:
        ctx.ob("R5", "TABLE", f, k, groups[k] == ref[k], f"group {k} (variable {role.get(k)}): missing {sorted(ref[k] - (groups[k] or set()))} extra {sorted((groups[k] or set()) - ref[k])}")
    cd = ctx.cdefs("beacon")["cs_struct"]
    fields = {x.name for x in cd.struct("BeaconGateOptions").fields}
    if all(groups.values()):
        union = groups["comms"] | groups["core"] | groups["cleanup"]
        disj = len(union) == sum(len(g) for g in groups.values())
        ctx.ob("R5", "TABLE", f, "partition", disj and union == fields, f"groups are pairwise disjoint={disj} and cover the struct's fields={union == fields}")
    allnames = sorted(role.values())
    want = [("All", allnames, allnames)] + [(lab, [role.get(lab.lower())], [role.get(lab.lower())]) for lab in ("Comms", "Core", "Cleanup")]
    ctx.ob("R5", "AGREE", f, "group tests", order == want and len(role) == 3, f"(label, tested, subtracted) in order: {order}; required All over all three groups first, then Comms, Core, Cleanup each subtracting what it reported")
    ext = [c for c in fn_calls(f.node) if isinstance(c.func, ast.Attribute) and c.func.attr == "extend"]
    ctx.ob("R5", "AGREE", f, "remaining options", len(ext) == 1 and dotted(ext[0].args[0]) == opt_var, "left-over individual APIs are appended after the groups" if len(ext) == 1 else "left-over APIs are not reported")
    # the option set is built from the truthy flags
    od = [v for st, v in assignments_to(f.node, opt_var) if v is not None] if opt_var else []
    first = od[0] if od else None
    comp = first
    if isinstance(first, ast.Call) and dotted(first.func) == "set" and first.args:
        comp = first.args[0]
    o_ok = False
    detail = f"option set built as {src(first)}: not a comprehension over the flag names filtered by the flag's truthiness"
    bgo_p = params(f.node)[0]
    if isinstance(comp, (ast.SetComp, ast.ListComp, ast.GeneratorExp)) and len(comp.generators) == 1 and len(comp.generators[0].ifs) == 1:
        gen = comp.generators[0]
        cond = gen.ifs[0]
        tnames = [n.id for n in ast.walk(gen.target) if isinstance(n, ast.Name)]
        elt_is_name = dotted(comp.elt) in tnames
        pairs = isinstance(gen.target, ast.Tuple) and len(tnames) == 2 and dotted(comp.elt) == tnames[0] and dotted(cond) == tnames[1] and bgo_p in src(gen.iter)
        reads = isinstance(cond, ast.Call) and dotted(cond.func) == "getattr" and len(cond.args) == 2 and dotted(cond.args[0]) == bgo_p and dotted(cond.args[1]) == dotted(comp.elt)
        reads = reads or (isinstance(cond, ast.Subscript) and dotted(cond.value) == bgo_p and dotted(cond.slice) == dotted(comp.elt))
        names_src = {n.id for n in ast.walk(gen.iter) if isinstance(n, ast.Name)}
        all_names = reads and (set(role.values()) <= names_src or bgo_p in names_src or "BeaconGateOptions" in names_src)
        o_ok = elt_is_name and (pairs or all_names)
        detail = f"option set {src(first)}: element is the flag name={elt_is_name}; kept iff the flag on the parsed struct is truthy={bool(pairs or reads)}; ranges over all flags={bool(pairs or all_names)}"
    ctx.ob("R5", "AGREE", f, "options = {enabled flags}", bool(o_ok), detail, first or f.node)


def cstruct_api():
    """Attribute names defined by the installed dissect.cstruct Structure / BaseType classes."""
    pats = glob.glob("/venv/lib/python3*/site-packages/dissect/cstruct/types")
    names = set()
    files = []
    for d in pats:
        for fn in ("structure.py", "base.py"):
            p = os.path.join(d, fn)
            if os.path.exists(p):
                files.append(p)
                tree = ast.parse(open(p).read())
                for n in ast.walk(tree):
                    if isinstance(n, (ast.FunctionDef, ast.AsyncFunctionDef)):
                        names.add(n.name)
                    elif isinstance(n, ast.Attribute) and isinstance(n.ctx, ast.Store):
                        names.add(n.attr)
                    elif isinstance(n, (ast.Assign, ast.AnnAssign)):
                        tg = n.targets if isinstance(n, ast.Assign) else [n.target]
                        for t in tg:
                            if isinstance(t, ast.Name):
                                names.add(t.id)
    return names, files


def r6(ctx, rule="R6"):
    api, files = cstruct_api()
    if not files:
        ctx.rep.error("installed dissect.cstruct sources not found under /venv")
        return
    ctx.rep.extra["cstruct_api_files"] = files
    n = 0
    for modname in ("beacon", "c2profile"):
        mod = ctx.repo.module(modname)
        cds = ctx.cdefs("beacon")
        for f in mod.funcs.values():
            typed = {}
            for p in params(f.node):
                ann = param_annotation(f.node, p)
                t = ctx.rs._annot_class(modname, ann)
                if t and t.startswith("struct:"):
                    typed[p] = t
            for name in list(typed):
                pass
            # locals constructed from a struct type
            for node in body_walk(f.node):
                if isinstance(node, ast.Attribute) and isinstance(node.value, ast.Name) and isinstance(node.ctx, ast.Load):
                    base = node.value.id
                    t = typed.get(base)
                    if t is None:
                        et = ctx.rs.expr_type(f, node.value)
                        if et and et.startswith("struct:"):
                            t = et
                    if t is None:
                        continue
                    _m, var, cname = t[len("struct:"):].split(".", 2)
                    cd = ctx.cdefs(_m).get(var)
                    if cd is None or cname not in cd.structs:
                        continue
                    fields = {x.name for x in cd.structs[cname].fields}
                    n += 1
                    ok = node.attr in fields or node.attr in api
                    ctx.ob(rule, "API", f, src(node), ok,
                           f"attribute {node.attr!r} on a {cname} instance " + ("exists" if ok else "does NOT exist") + " (struct fields + attributes defined in the installed dissect.cstruct Structure/BaseType sources)", node)
    ctx.rep.count("struct_attribute_reads", n, floor=1)


def r7(ctx):
    tbl = ctx.repo.const("beacon.SETTING_TO_PRETTYFUNC")
    cd = ctx.cdefs("beacon")["cs_struct"]
    bs = cd.enum("BeaconSetting").by_name()
    ent = {}
    for k, v in zip(tbl.keys, tbl.values):
        d = dotted(k) or src(k)
        ok = d.startswith("BeaconSetting.") and d.split(".", 1)[1] in bs
        ctx.ob("R7", "TABLE", "beacon.py::SETTING_TO_PRETTYFUNC", d, ok, "key is a BeaconSetting member" if ok else "key is not a BeaconSetting member", k)
        ent[d.split(".", 1)[-1]] = src(v)
    groups = [
        ["SETTING_PROCINJ_TRANSFORM_X86", "SETTING_PROCINJ_TRANSFORM_X64"],
        ["SETTING_TCP_FRAME_HEADER", "SETTING_SMB_FRAME_HEADER"],
        ["SETTING_DNS_BEACON_BEACON", "SETTING_DNS_BEACON_GET_A", "SETTING_DNS_BEACON_GET_AAAA", "SETTING_DNS_BEACON_GET_TXT", "SETTING_DNS_BEACON_PUT_METADATA", "SETTING_DNS_BEACON_PUT_OUTPUT"],
        ["SETTING_SPAWNTO_X86", "SETTING_SPAWNTO_X64"],
        ["SETTING_C2_VERB_GET", "SETTING_C2_VERB_POST"],
    ]
    for g in groups:
        vals = {ent.get(k) for k in g}
        ctx.ob("R7", "AGREE", "beacon.py::SETTING_TO_PRETTYFUNC", "+".join(x.replace("SETTING_", "") for x in g), len(vals) == 1 and None not in vals, f"sibling settings decoded by {sorted(map(str, vals))}")
    want = {"SETTING_PROCINJ_EXECUTE": "parse_execute_list", "SETTING_GARGLE_SECTIONS": "parse_gargle", "SETTING_PUBKEY": "sha256sum_pubkey",
            "SETTING_PROCINJ_TRANSFORM_X86": "parse_process_injection_transform_steps", "SETTING_TCP_FRAME_HEADER": "parse_pivot_frame",
            "SETTING_DOMAINS": "null_terminated_str", "SETTING_USERAGENT": "null_terminated_str", "SETTING_SUBMITURI": "null_terminated_str"}
    for k, v in want.items():
        ctx.ob("R7", "AGREE", "beacon.py::SETTING_TO_PRETTYFUNC", k, ent.get(k) == v, f"{k} decoded by {ent.get(k)} (required {v})")
    ctx.rep.count("prettyfunc_entries", len(ent), floor=30)
    # parse_execute_list: opcode byte -> InjectExecutor; the two special members read (u16be, len+str, len+str)
    f = ctx.repo.func("beacon.parse_execute_list")
    spec = None
    for st in statements(f.node):
        if isinstance(st, ast.If) and isinstance(st.test, ast.Compare) and isinstance(st.test.ops[0], ast.In):
            spec = sorted((dotted(e) or "").split(".")[-1] for e in getattr(st.test.comparators[0], "elts", []))
    ctx.ob("R7", "TABLE", f, "special executors", spec == ["CreateRemoteThread_", "CreateThread_"], f"executors with module!function arguments: {spec}")
    # pivot frame & null-terminated helpers
    g = ctx.repo.func("beacon.null_terminated_bytes")
    part = [c for c in fn_calls(g.node) if isinstance(c.func, ast.Attribute) and c.func.attr in ("partition", "split", "find", "index")]
    ok = len(part) == 1 and part[0].func.attr == "partition" and part[0].args and is_const(part[0].args[0], b"\x00")
    ctx.ob("R7", "AGREE", g, "partition(b'\\x00')", ok, "cuts at the first NUL" if ok else f"NUL cut is {[src(p) for p in part]}")
    # strings: every byte before the NUL becomes exactly one character - only a total single-byte codec does that
    # (latin-1); ascii/utf-8 with "ignore" and the Windows code pages drop or remap high bytes
    h = ctx.repo.func("beacon.null_terminated_str")
    dec = [c for c in fn_calls(h.node) if isinstance(c.func, ast.Attribute) and c.func.attr == "decode"]
    codec = None
    if len(dec) == 1:
        cv = dec[0].args[0] if dec[0].args else kwarg(dec[0], "encoding")
        codec = str(_c(cv)).lower().replace("_", "-") if cv is not None and isinstance(_c(cv), str) else ("utf-8" if cv is None else None)
    inner = dec[0].func.value if len(dec) == 1 else None
    cut = isinstance(inner, ast.Call) and ctx.rs.resolve_call(h, inner).fq == "beacon.null_terminated_bytes" and inner.args and dotted(inner.args[0]) == params(h.node)[0]
    ok = codec in ("latin-1", "latin1", "iso-8859-1", "iso8859-1", "l1", "8859") and bool(cut)
    ctx.ob("R7", "AGREE", h, "null_terminated_bytes(data).decode(<total single-byte codec>)", ok,
           f"decodes the NUL-cut bytes={bool(cut)} with codec {codec!r}" + ("" if ok else " (required latin-1: one character per byte, nothing dropped or remapped)"), h.node)


def r8(ctx):
    want = {"port": "SETTING_PORT", "watermark": "SETTING_WATERMARK", "sleeptime": "SETTING_SLEEPTIME", "jitter": "SETTING_JITTER",
            "protocol": "SETTING_PROTOCOL", "is_trial": "SETTING_CRYPTO_SCHEME", "public_key": "SETTING_PUBKEY", "submit_uri": "SETTING_SUBMITURI"}
    for prop, key in want.items():
        f = ctx.repo.func(f"beacon.BeaconConfig.{prop}")
        keys = [_c(c.args[0]) for c in fn_calls(f.node) if isinstance(c.func, ast.Attribute) and c.func.attr == "get" and c.args]
        keys += [_c(n.slice) for n in body_walk(f.node) if isinstance(n, ast.Subscript) and isinstance(n.slice, ast.Constant)]
        ctx.ob("R8", "AGREE", f, prop, keys == [key], f"reads {keys} (required [{key!r}])")
    f = ctx.repo.func("beacon.BeaconConfig.is_trial")
    ok = any(isinstance(n, ast.Compare) and isinstance(n.ops[0], ast.Eq) and "CryptoScheme.CRYPTO_TRIAL_PRODUCT" in (dotted(n.left), dotted(n.comparators[0])) for n in body_walk(f.node))
    ctx.ob("R8", "AGREE", f, "== CRYPTO_TRIAL_PRODUCT", ok, "trial flag compares with CRYPTO_TRIAL_PRODUCT" if ok else "trial flag does not compare with CRYPTO_TRIAL_PRODUCT")
    cd = ctx.cdefs("beacon")["cs_struct"]
    ctx.ob("R8", "TABLE", "beacon.py::CS_DEF::enum CryptoScheme", "members", cd.enum("CryptoScheme").by_name() == {"CRYPTO_LICENSED_PRODUCT": 0, "CRYPTO_TRIAL_PRODUCT": 1}, str(cd.enum("CryptoScheme").by_name()))
    ctx.ob("R8", "TABLE", "beacon.py::CS_DEF::flag BeaconProtocol", "members", cd.enum("BeaconProtocol").by_name() == {"http": 0, "dns": 1, "smb": 2, "tcp": 4, "https": 8, "bind": 16}, str(cd.enum("BeaconProtocol").by_name()))
    f = ctx.repo.func("beacon.BeaconConfig.protocol")
    ok = any(isinstance(c, ast.Call) and dotted(c.func) == "BeaconProtocol" for c in fn_calls(f.node))
    ctx.ob("R8", "AGREE", f, "BeaconProtocol(...).name", ok, "protocol name via the BeaconProtocol flag")
    f = ctx.repo.func("beacon.BeaconConfig.public_key")
    ok = any(isinstance(c.func, ast.Attribute) and c.func.attr == "rstrip" and c.args and is_const(c.args[0], b"\x00") for c in fn_calls(f.node))
    ctx.ob("R8", "AGREE", f, "rstrip(b'\\x00')", ok, "public key is right-stripped of NUL padding" if ok else "public key is not right-stripped of NULs")
    # domains / uris: even and odd members of grouper(..., 2)
    pairs = ctx.repo.func("beacon.BeaconConfig.domain_uri_pairs")
    g = [c for c in fn_calls(pairs.node) if ctx.rs.resolve_call(pairs, c).fq == "utils.grouper"]
    ok = len(g) == 1 and _c(g[0].args[1] if len(g[0].args) > 1 else kwarg(g[0], "n")) == 2
    sp = [c for c in fn_calls(pairs.node) if isinstance(c.func, ast.Attribute) and c.func.attr == "split" and c.args and is_const(c.args[0], ",")]
    ctx.ob("R8", "AGREE", pairs, "grouper(split(','), 2)", ok and len(sp) == 1, "pairs are consecutive members of the comma-separated list" if ok else "pairing is not grouper(..., 2)")
    for prop, idx in (("domains", 0), ("uris", 1)):
        f = ctx.repo.func(f"beacon.BeaconConfig.{prop}")
        comps = [n for n in body_walk(f.node) if isinstance(n, (ast.GeneratorExp, ast.ListComp, ast.SetComp))]
        ok = False
        detail = "no comprehension over self.domain_uri_pairs"
        for cmp_ in comps:
            gen = cmp_.generators[0]
            if dotted(gen.iter) == "self.domain_uri_pairs" and isinstance(gen.target, ast.Tuple) and len(gen.target.elts) == 2:
                ok = dotted(cmp_.elt) == dotted(gen.target.elts[idx])
                detail = f"takes member {['first', 'second'][idx]} of each pair={ok} ({src(cmp_)})"
        ctx.ob("R8", "AGREE", f, prop, ok, detail)
    f = ctx.repo.func("beacon.BeaconConfig.max_setting_enum")
    ok = any(isinstance(c, ast.Call) and dotted(c.func) == "max" and c.args and dotted(c.args[0]) == "self.setting_enums" for c in fn_calls(f.node))
    ctx.ob("R8", "AGREE", f, "max(self.setting_enums)", ok, "highest setting index" if ok else "not max(self.setting_enums)")
