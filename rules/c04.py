"""C04 - HTTP data transforms follow the wire format and are invertible (structural part).

The two sibling dispatchers HttpDataTransform.transform / .recover are not matched syntactically.  Each loop body is
walked path-wise ONCE per step name of the finite step vocabulary (the opcode names of the reference tables, in the
upper-case spelling the binary parsers emit and in lower case, plus the string literals the loop body itself compares
with) and once for the abstract "any other name" case.  For such a walk the loop's step variable is replaced by that
literal (constant propagation into the dispatcher); the step argument, the payload accumulator and every other
loop-carried local are free symbols; definitions are substituted into uses; branch tests are decided three-valued by
constant folding of constant expressions, by the facts collected on the path and by a small type inference; tests that
stay unknown (``isinstance(arg, int)``, asserts, conditional expressions) fork the path and are recorded as facts.  The
result - per step a handful of paths, each with the final symbolic *term* of every loop-carried local - is what the rules
compare structurally.  It is independent of branch order, elif-vs-guard-clause layout, merged branches, temporaries and
(engine-inlined) helpers.  A dispatcher that consults a *constant lookup table* of the analysed code (a dict display with
constant keys, bound once at module or class level and never rebound or updated in place, possibly wrapped in
MappingProxyType / dict) is followed through the table: `T.get(k)`, `T[k]`, `k in T` are folded for the literal step name
(constant folding of a constant table), and a call of the entry found - a function named by reference, a lambda, a
one-expression helper of the same module - is replaced by the entry's result term with the call's arguments bound to
its parameters (argument binding into package callees; no body is executed, there is nothing to iterate).  A table that
cannot be resolved leaves a call of a computed callable on the path, which makes the path `opaque`.  No loop is unrolled
(nested loops, try, with, match make a path `opaque` -> undecided), no payload, byte-string argument, request or step
program is ever given a concrete value (the only argument that is specialised is the `build` selector in R7: one case
per literal of the selector vocabulary), no function of /repo is run.

Technique (numbers = allowed devices of RULES_GUIDE "What counts as static here")
---------------------------------------------------------------------------------
core  path walker `_Sym`/`_Side`: (2) three-valued branch pruning under the named assumptions STEP = <literal> / OTHER,
      (3) def-use substitution into symbolic terms, loop body analysed once with symbolic loop-carried values, path-wise
      value flow with symbolic branch outcomes kept as path facts, (5) one case per literal of the step vocabulary plus
      one "any other value" case, (6) folding of constant expressions only (`"APPEND".lower()`, `b"=" * 2`, `(a, b)[0]`),
      of lookups in constant tables of the analysed code (`T.get("mask")`, `"mask" in T`, `C2Data._fields` of a NamedTuple
      class = its annotated field names), (3) argument binding into a lambda / one-expression function of the same module
      (each non-deterministic primitive inside the callee is a fresh symbol per call; a lambda whose free names are locals
      of the dispatcher is not entered).  Function references (def / class / partial of the package, attribute of an
      imported module) are not None and truthy.
      Assumption OTHER (the abstract unknown step name `%other`): it is a str and every ==/!=/in/not in between it - also
      under str()/lower/upper/casefold/strip - and constants is false/true/false/true; it is not a key of any constant
      table (`T.get(%other)` is the default).  Lemma: the comparisons and tables mention finitely many literals, so such
      strings exist (any blank-free ASCII word not case-equivalent to one of them).
R1    (1) loop located by role (the `for` over self.tsteps / self.rsteps), (5) which vocabulary literals have a normally
      completing path on each side, compared as sets with each other and with the reference opcode tables (6); the OTHER
      case must end in `raise ValueError` on every path (2, 3).
R2    (3) final accumulator term per codec step peeled structurally into codec call / case mapping / constant padding
      layers; (1) callee resolution; the codec call is reduced to (family, direction, alphabet) by the reference codec
      vocabulary of this module (6): base64.b64encode/b64decode with their `altchars` argument (absent / None = b"+/"),
      standard_b64*, urlsafe_b64* (b"-_"), binascii.b2a_base64(newline=False) / a2b_base64; utils.netbios_encode/decode with
      their `offset` argument bound by parameter (1) and folded (6: constant expression, `ord` of a constant, a class-level
      / module-level name bound once).  The pair is compared with the reference inverse-pair table on that triple, never on
      the function's name: the wire alphabet of a step (base64 b"+/", base64url b"-_", netbios 'a'..'p' = 0x61, netbiosu
      'A'..'P' = 0x41) must be what the encoder emits and what the decoder is handed.  (4) the netbios alphabet is the
      interval [offset, offset + 15], taken through `.lower()` / `.upper()` layers by lemma case-shift; constant padding
      folded (6).  Another binary-to-text codec of the standard library (base32/16/85, hex, uu, MIME line wrapping), a
      package function that is not the codec, the wrong direction or alphabet -> VIOLATED; a callee outside the
      vocabulary, a non-constant alphabet / offset, strict decoding (`validate=True`), an alphabet interval straddling a
      case boundary -> undecided.
      Lemma base64-pad: Cobalt Strike strips at most two '=', CPython's decoders ignore surplus '=', hence `data + b"="*k`
      with k >= 2 repairs every stripped input (trusted base64 semantics).  Lemma base64-alias: standard_b64encode(s) is
      b64encode(s), urlsafe_b64encode(s) is b64encode(s, altchars=b"-_"), b2a_base64(s, newline=False) is b64encode(s), and
      the same for the decoders (documented behaviour of the base64 / binascii modules).  Lemma netbios-offset:
      netbios_encode(x, offset) emits per nibble n the byte n + offset, netbios_decode(y, offset) inverts exactly that
      (bodies trusted, see not_decided).  Lemma case-shift: bytes.lower() adds 0x20 to exactly the bytes 0x41..0x5A,
      bytes.upper() subtracts 0x20 from exactly 0x61..0x7A, all other bytes are kept.
R3    (3) terms of the request-field locals and of the accumulator after placement steps, compared structurally
      (`%setitem(field, arg, acc)`, `uri + acc`, `http.<field>[arg]`); (6) reference placement table.
R4    (3) terms written by the static decorations; taint = the accumulator symbol occurs in the term (1); split shape
      `arg.partition(sep)[i]` / `arg.split(sep, 1)[i]` compared with the reference separators.  Lemma split:
      `x.partition(s)[0], [2]` and `x.split(s, 1)[0], [1]` are the parts before/after the FIRST s; rpartition/rsplit the last.
R5    (3) accumulator terms `acc + x` / `x + acc` (operand order), slice terms `acc[lo:hi]`; (4) slice bounds classified
      in polynomial normal form (`sympoly`) over the atoms arg, len(arg), len(acc); non-zero knowledge from path facts (2).
      Lemmas: slice-drop `x[:len(x)-n]` is x without its last n bytes for 0 <= n <= len(x); neg-zero `x[:-n]` equals that
      only for n > 0 because `-0 == 0` and `x[:0] == b""`; or-none `x[:-n or None]` equals it for all n >= 0 because
      `-0 or None` is None; filler `b"c" * n` and `bytes(n)` are n bytes long for an int n >= 0.
R6    (3) terms `key + xor(acc, key)` / `xor(acc[k:], acc[:k])` compared structurally on the paths that rewrite the payload
      (pass-through paths: R10), the random key is one fresh symbol per evaluation (two draws are two symbols); (1) `utils.xor`/`utils.pack` resolved incl. functools.partial keywords;
      (6) key length from constants.  Lemma key-length: `n.to_bytes(k, ..)`, `os.urandom(k)`, `utils.pack(.., size=k)` are k
      bytes long, `struct.pack(fmt, ..)` is `struct.calcsize(fmt)` bytes long (fmt a constant of the analysed code).
R7    (5) one case per build selector of the reference vocabulary (output, id, metadata) with the payload symbolic; (3)
      which C2Data attribute the accumulator term reads / which *slot* receives the accumulator, and the argument terms of
      the returned constructor; (2) isinstance facts on the returning path.  A slot is located by role and is either a
      loop-carried local (`x = acc`) or a constant-key entry of a loop-carried container (`%setitem(c, "k", acc)`, also
      spelled `c.update({"k": acc})`; the latest store to a key wins; the key is constant because the selector is the case
      literal).  The constructor argument of field f is (1) the keyword f, the positional argument at f's annotated
      position, or for `C(**m)` the entry `m[f]` (lemma splat: a call with `**m` passes every entry of m as the keyword
      named by its key; a dict display is looked up directly (6); `dict(m)`, `m.copy()`, `{**m}` have the entries of m);
      it must read the slot the selector stored into (`x`, `c["k"]`, `c.get("k")`).  Two selectors sharing a slot, a field
      given another slot or a term that does not involve the container, a selector whose payload reaches no state at all
      -> VIOLATED; a payload that goes into a store the rule cannot name (computed key, setattr / attribute of an object,
      some other mutator or call) or an argument computed from the container in another way -> undecided.
      Constructor: (3) path-wise terms of
      self.tsteps / self.rsteps with object identities for fresh lists, orientation by structural rules (`x[::-1]`,
      `reversed(x)` flip; `list(x)`, `x[:]`, `x.copy()` keep), recorded list mutations insert(0, .)/append(.).
      Build starts a new block: (5) per selector, (3) on every normally completing path the final accumulator term must not
      contain the accumulator symbol (the previous block's bytes must not survive a build, whatever the field holds);
      positional constructor arguments are bound by the annotated field order of the NamedTuple class (1).
R8    transform is a function of its arguments only.  (3) terms: which request-field locals receive `%setitem` / mutator
      terms in some step (updated in place), and the prelude term of each such local, split into its alternatives (`a or
      b`, conditional expression, prelude join); (1) every alternative is classified by where the container comes from: the
      caller's initial request (parameter with default None), an allocation evaluated during the call (dict display,
      dict(..), .copy(), or that field of a NamedTuple constructor call evaluated in the call), or an object that outlives
      the call - a module-level / class-level binding, an instance attribute (not a property), a parameter default
      evaluated at definition time.  The last kind is a violation (state leaks from one produced message into the next
      and into messages already returned); an origin that cannot be classified is undecided.
R9    a termination location is read back exactly.  (5) one case per placement of the reference placement table (print/body,
      header[arg], parameter[arg], uri_append/uri); (3) the final term transform leaves in the location - the field local for
      body / uri, the value of `%setitem(field, arg, value)` / `%mut_setdefault(field, arg, value)` for the keyed ones - is
      flattened into its concatenation operands and compared with the term recover's accumulator takes from the location.
      The initial request's fields are free symbols (`request.uri` ...): nothing is assumed about them, in particular not
      that they are empty (the quantifier says "any initial request"); an operand counts as empty only if it is a constant
      empty string or a path fact says so (2).  Transform classes: *replace* (the only non-empty operand is the
      accumulator), *keep* (besides the accumulator there is the location's content before the step - the field local,
      `field[arg]`, `field.get(arg[, d])` - or a non-empty constant; `setdefault` keeps an existing entry; a path on which
      nothing is written keeps everything).  Recover classes: *whole* (`http.<field>`, `http.<field>[arg]`,
      `http.<field>.get(arg[, d])`) or anything else.  replace + whole -> discharged; keep + whole -> VIOLATED (recover
      returns old (+) data, which differs from data for every non-empty old: lemma concat-length); keep or replace with a
      recover term that is not the whole location (a slice that may or may not remove the kept part: recover is not given
      the initial request) -> undecided; a transform term of any other shape, an opaque path, a field local that does not
      start as the request's field (R3 reports that) -> undecided.  On the unchanged tree `uri_append` is keep + whole
      (`uri + data` / `http.uri`): a genuine defect recorded in known_findings.json under the construct text
      `c2.py::HttpDataTransform.recover::uri_append reads back only what was placed`.
      Lemmas: concat-length len(a + b) == len(a) + len(b), so a + b == b only if a is empty (same for b + a); join
      SEP.join([x1, .., xn]) == x1 + SEP + .. + xn; or-empty `x or b""` == x for a bytes x.
      Second obligation per placement, `<step> payload is taken by position, not by searching its bytes`: (1) no method
      of the finite set _CONTENT_CUTS (partition / split / strip / removeprefix / replace / find / index families) is
      applied to a term containing `http.<field>` in the term recover's accumulator takes.  Lemma content-cut: the result of
      each of them depends on where, or whether, some bytes occur in the receiver; the placed payload is an arbitrary byte
      string (outermost encoder base64 with '/', '+', '=' in its alphabet, or no encoder; free prepend / append arguments),
      so payloads containing the searched bytes and payloads lacking them both exist and for one of the two kinds the part
      cut out is not the payload.  Present -> VIOLATED (a fresh construct, distinct from the known finding above); read not
      followed -> undecided.
R10   no pass-through: a length-changing step rewrites the payload on every path a payload of its domain can take.  (5) one
      case per step of the reference inverse-pair table (the four codecs and mask) on either side; (3) the paths on which the
      final accumulator term is the accumulator symbol itself (the payload is handed on unchanged: a guard around the step,
      a conditional expression, an early `continue`); (2) the facts recorded on such a path during the iteration; (4) each
      fact about the payload is translated into the interval domain over L = len(payload): truthiness of `acc` / `acc[k:]`
      (non-empty <=> length > 0, len(acc[k:]) == max(L - k, 0)), (in)equality of `acc` / `acc[k:]` with a bytes constant,
      comparisons / truthiness of integer expressions linear in one `len(acc)` / `len(acc[k:])` (polynomial normal form,
      solved over the integers); the admitted set is an interval minus finitely many points (`!=`).  It is intersected with
      the step's domain: transform mask L >= 0, transform codecs L >= 1, recover mask L >= 4 (a blob that has its key),
      recover codecs L >= 1 restricted to valid encodings.  Non-empty -> VIOLATED; empty -> discharged (the step is skipped
      only where it is the identity: the empty payload of a codec, or a malformed blob shorter than the key); a fact about
      the payload that is not translated (modular tests, content tests, type tests), a path that depends on the step
      argument, or a bounded set of decoder lengths containing neither 2 nor 4 -> undecided.  No length is enumerated.
      Lemmas length-law: len(base64(x)) = 4*ceil(len(x)/3) (less at most two stripped '='), len(netbios(x)) = 2*len(x),
      len(mask(x)) = len(x) + 4, so encoder output and input differ in length for every x in the domain, decoder output
      and input likewise - a value cannot equal a value of another length; decoder-lengths: encodings of every multiple of
      4 characters exist for all four codecs, and 2 and 4 characters are valid encodings for all four (netbios of 1 / 2
      bytes, padding-stripped base64 of 1 / 3 bytes), hence an unbounded admitted set or one containing 2 or 4 contains a
      valid encoding.  R2 and R6 judge a step on its rewriting paths only and leave pass-through paths to this rule; R6
      additionally accepts a recover path that only blobs of at most 4 bytes take and that yields the empty payload
      (`b""` or `acc[k:]`, k >= 4: xor(b"", key) == b"").
"""

from __future__ import annotations

import ast
import copy
import math
from typing import Dict, List, Optional, Tuple

from csverif import tables
from csverif.absint import SymPoly, sympoly
from csverif.astutil import bind_args, const_eval, dotted, names_in, NotConst, param_defaults, params, src, strip_cast


def _c(node):
    try:
        return const_eval(node, _noenv) if node is not None else None
    except (NotConst, Exception):
        return None


def _noenv(name):
    raise KeyError(name)


# ============================================================================================ path-wise value flow core
_STEP, _ARG = "%step", "%arg"
# The abstract "any other value" case of the step dispatch (policy device 5).  Named assumption OTHER: `%other` is a str that
# differs, itself and under str()/lower/upper/casefold/strip, from every constant it is compared with for (in)equality or
# membership.  Lemma (inhabited): the dispatcher compares with finitely many literals, so such strings exist - any ASCII
# word without blanks that is not case-equivalent to one of them; for it every `==`/`in` against those literals is false.
# No sample string is ever compared: the tests are decided by this rule, everything else about `%other` stays unknown.
_OTHER = "%other"
_CASEMAPS = ("lower", "upper", "casefold", "strip", "lstrip", "rstrip")
_MUTATORS = {"update", "setdefault", "pop", "popitem", "append", "insert", "extend", "clear", "remove", "add", "discard", "reverse", "sort",
             "__setitem__", "__delitem__"}
_IMPURE = ("random.", "os.urandom", "secrets.", "time.", "uuid.")
_ALLOC = {"list", "tuple", "reversed", "sorted", "dict", "bytearray", "copy.copy", "copy.deepcopy", "deque", "collections.deque"}
_DISJOINT = {"int", "bytes", "str", "bytearray", "list", "dict", "tuple", "NoneType", "float", "set", "bool", "function"}
_CMP = {
    ast.Eq: lambda a, b: a == b, ast.NotEq: lambda a, b: a != b, ast.Lt: lambda a, b: a < b, ast.LtE: lambda a, b: a <= b,
    ast.Gt: lambda a, b: a > b, ast.GtE: lambda a, b: a >= b, ast.In: lambda a, b: a in b, ast.NotIn: lambda a, b: a not in b,
    ast.Is: lambda a, b: a is b, ast.IsNot: lambda a, b: a is not b,
}
_NEG = {ast.NotEq: ast.Eq, ast.IsNot: ast.Is, ast.NotIn: ast.In}


def _name(n: str) -> ast.Name:
    return ast.Name(id=n, ctx=ast.Load())


def _const_node(v) -> Optional[ast.AST]:
    if v is None or isinstance(v, (bool, int, str, bytes, float)):
        return ast.Constant(value=v)
    if isinstance(v, tuple):
        el = [_const_node(x) for x in v]
        return None if any(e is None for e in el) else ast.Tuple(elts=el, ctx=ast.Load())
    return None


def _key(e: ast.AST) -> Tuple[str, bool]:
    """Canonical (text, polarity) of an atomic test: negations, != / is not / not in, mirrored operands and >, >=, <= are
    all reduced to one spelling so that a fact recorded under one form answers the others."""
    pol = True
    while isinstance(e, ast.UnaryOp) and isinstance(e.op, ast.Not):
        e, pol = e.operand, not pol
    if isinstance(e, ast.Compare) and len(e.ops) == 1:
        l, op, r = e.left, e.ops[0], e.comparators[0]
        if type(op) in _NEG:
            op, pol = _NEG[type(op)](), not pol
        if isinstance(op, (ast.Gt, ast.GtE)):
            l, r, op = r, l, (ast.Lt() if isinstance(op, ast.Gt) else ast.LtE())
        if isinstance(op, ast.LtE):
            l, r, op, pol = r, l, ast.Lt(), not pol
        if isinstance(op, (ast.Eq, ast.Is)) and src(l) > src(r):
            l, r = r, l
        return f"{src(l)} {type(op).__name__} {src(r)}", pol
    return src(e), pol


def _tnames(t: ast.AST) -> Optional[set]:
    if isinstance(t, ast.Tuple):
        out = set()
        for e in t.elts:
            s = _tnames(e)
            if s is None:
                return None
            out |= s
        return out
    d = dotted(t)
    return {d} if d else None


def _other_term(e: ast.AST) -> bool:
    """Is e the abstract other step name, possibly under str() / a case mapping / strip?"""
    for _ in range(8):
        if isinstance(e, ast.Name):
            return e.id == _OTHER
        if isinstance(e, ast.Call) and isinstance(e.func, ast.Attribute) and e.func.attr in _CASEMAPS and not e.args and not e.keywords:
            e = e.func.value
        elif isinstance(e, ast.Call) and dotted(e.func) == "str" and len(e.args) == 1 and not e.keywords:
            e = e.args[0]
        else:
            return False
    return False


def _other_cmp(l: ast.AST, op: ast.AST, r: ast.AST) -> Optional[bool]:
    """Assumption OTHER applied to one comparison; None when it says nothing about it."""
    if isinstance(op, (ast.Eq, ast.NotEq)):
        if (_other_term(l) and _cv(r) is not _NC) or (_other_term(r) and _cv(l) is not _NC):
            return isinstance(op, ast.NotEq)
    if isinstance(op, (ast.In, ast.NotIn)) and _other_term(l):
        v = _cv(r)
        lit = isinstance(v, (tuple, list, set, frozenset, dict)) or (
            isinstance(r, ast.Dict) and all(k is not None and _cv(k) is not _NC for k in r.keys))
        if lit:
            return isinstance(op, ast.NotIn)
    return None


_TABLE_WRAPPERS = {"MappingProxyType", "dict", "OrderedDict", "frozendict"}


def _locals_of(fn: ast.AST) -> set:
    """Parameters and every name bound somewhere inside the function."""
    out = set()
    a = fn.args
    for x in a.posonlyargs + a.args + a.kwonlyargs + [y for y in (a.vararg, a.kwarg) if y is not None]:
        out.add(x.arg)
    for n in ast.walk(fn):
        if isinstance(n, ast.Name) and isinstance(n.ctx, (ast.Store, ast.Del)):
            out.add(n.id)
        elif isinstance(n, (ast.FunctionDef, ast.AsyncFunctionDef, ast.ClassDef)) and n is not fn:
            out.add(n.name)
        elif isinstance(n, ast.ExceptHandler) and n.name:
            out.add(n.name)
    return out


def _bound_names(st: ast.stmt) -> set:
    """Names a statement of a module / class body binds (at any nesting of if/try/with/for blocks, not inside defs)."""
    out = set()
    if isinstance(st, (ast.FunctionDef, ast.AsyncFunctionDef, ast.ClassDef)):
        return {st.name}
    if isinstance(st, (ast.Import, ast.ImportFrom)):
        return {(a.asname or a.name).split(".")[0] for a in st.names}
    todo = [st]
    while todo:
        n = todo.pop()
        if isinstance(n, (ast.FunctionDef, ast.AsyncFunctionDef, ast.ClassDef)):
            out.add(n.name)
            continue
        if isinstance(n, (ast.Lambda, ast.ListComp, ast.SetComp, ast.DictComp, ast.GeneratorExp)):
            continue
        if isinstance(n, ast.Name) and isinstance(n.ctx, (ast.Store, ast.Del)):
            out.add(n.id)
        if isinstance(n, (ast.Import, ast.ImportFrom)):
            out |= {(a.asname or a.name).split(".")[0] for a in n.names}
        todo.extend(ast.iter_child_nodes(n))
    return out


class _Path:
    def __init__(self):
        self.env: Dict[str, ast.AST] = {}
        self.facts: Dict[str, bool] = {}
        self.fnodes: List[Tuple[ast.AST, bool]] = []
        self.effects: List[ast.AST] = []
        self.muts: List[Tuple[ast.AST, str, List[ast.AST]]] = []
        self.defs: Dict[str, ast.AST] = {}
        self.out = "next"
        self.val: Optional[ast.AST] = None
        self.opaque: List[str] = []

    def copy(self) -> "_Path":
        p = _Path()
        p.env, p.facts, p.fnodes = dict(self.env), dict(self.facts), list(self.fnodes)
        p.effects, p.muts, p.defs = list(self.effects), list(self.muts), dict(self.defs)
        p.out, p.val, p.opaque = self.out, self.val, list(self.opaque)
        return p

    def add_fact(self, e: ast.AST, truth: bool):
        k, pol = _key(e)
        self.facts[k] = truth if pol else (not truth)
        self.fnodes.append((e, truth))

    def fact(self, e: ast.AST) -> Optional[bool]:
        k, pol = _key(e)
        if k in self.facts:
            return self.facts[k] if pol else (not self.facts[k])
        return None


class _Subst(ast.NodeTransformer):
    def __init__(self, env):
        self.env = env
        self.shadow: set = set()

    def visit_Name(self, n):
        if isinstance(n.ctx, ast.Load) and n.id in self.env and n.id not in self.shadow:
            return copy.deepcopy(self.env[n.id])
        return n

    def visit_Attribute(self, n):
        d = dotted(n)
        if d is not None and isinstance(n.ctx, ast.Load) and d in self.env and d.split(".")[0] not in self.shadow:
            return copy.deepcopy(self.env[d])
        return self.generic_visit(n)

    def _comp(self, n):
        bound = set()
        for g in n.generators:
            bound |= names_in(g.target)
        old = self.shadow
        self.shadow = old | bound
        try:
            return self.generic_visit(n)
        finally:
            self.shadow = old

    visit_ListComp = visit_SetComp = visit_DictComp = visit_GeneratorExp = _comp

    def visit_Lambda(self, n):
        return n


class _Sym:
    """Path-wise value flow over a function's statements: definitions substituted into symbolic terms, unknown tests fork the
    path and become facts, nothing concrete is computed except constant expressions (no loops: nested loops make a path `opaque`)."""

    def __init__(self, ctx, f, objects: bool = False, budget: int = 96):
        self.ctx, self.f, self.objects, self.budget = ctx, f, objects, budget
        self.fresh = 0
        self.mod = f.module
        self.locals = _locals_of(f.node)
        self._tables: Dict[tuple, Optional[ast.Dict]] = {}
        self._depth = 0

    # ------------------------------------------------------------------ constants of the analysed code (device 6)
    def _global(self, e: ast.AST) -> Optional[Tuple[str, str]]:
        """("module"|"class", NAME) when e is a reference to a module-level name of f's module or to an attribute of f's
        own class (NAME / self.NAME / cls.NAME / ClassName.NAME) that no local of f shadows."""
        if isinstance(e, ast.Name) and e.id not in self.locals and not e.id.startswith("%"):
            return ("module", e.id) if e.id in self.mod.consts else None
        if isinstance(e, ast.Attribute) and isinstance(e.value, ast.Name) and self.f.cls:
            h = e.value.id
            if h in ("self", "cls") or (h == self.f.cls and h not in self.locals):
                return "class", e.attr
        return None

    def _global_value(self, e: ast.AST) -> Optional[ast.AST]:
        """The defining expression of a module-level / class-level name that is bound exactly once and never rebound or
        mutated in place anywhere in its module (so the binding is a constant of the analysed code); else None."""
        g = self._global(e)
        if g is None:
            return None
        kind, name = g
        tree = self.mod.tree
        if kind == "module":
            spell = {name}
            binds = [st for st in tree.body if name in _bound_names(st)]
            body_val = self.mod.consts.get(name)
        else:
            cls = self.mod.classes.get(self.f.cls)
            if cls is None:
                return None
            spell = {f"self.{name}", f"cls.{name}", f"{self.f.cls}.{name}"}
            binds = [st for st in cls.body if name in _bound_names(st)]
            body_val = self.ctx.repo.class_attrs(f"{self.mod.name}.{self.f.cls}").get(name)
        if len(binds) != 1 or not isinstance(binds[0], (ast.Assign, ast.AnnAssign)) or body_val is None:
            return None
        for n in ast.walk(tree):
            if isinstance(n, ast.Global) and name in n.names and kind == "module":
                return None
            if isinstance(n, (ast.Attribute, ast.Subscript)) and isinstance(n.ctx, (ast.Store, ast.Del)):
                d = dotted(n) if isinstance(n, ast.Attribute) else dotted(n.value)
                if d in spell:
                    return None
            if isinstance(n, ast.Call) and isinstance(n.func, ast.Attribute) and n.func.attr in _MUTATORS and dotted(n.func.value) in spell:
                return None
            if isinstance(n, ast.AugAssign) and dotted(n.target) in spell:
                return None
        return body_val

    def _table(self, e: ast.AST, depth: int = 0) -> Optional[ast.Dict]:
        """e as a constant lookup table of the analysed code: a dict display with constant keys, possibly wrapped in a
        read-only / copying constructor, written in place or bound once to a module-level / class-level name."""
        if depth > 4:
            return None
        if isinstance(e, ast.Dict):
            if e.keys and all(k is not None and _cv(k) is not _NC for k in e.keys):
                return e
            return None
        if isinstance(e, ast.Call):
            d = (dotted(e.func) or "").split(".")[-1]
            if d in _TABLE_WRAPPERS and len(e.args) == 1 and not e.keywords:
                return self._table(e.args[0], depth + 1)
            if d in ("dict", "OrderedDict") and not e.args and e.keywords and all(k.arg for k in e.keywords):
                return ast.Dict(keys=[ast.Constant(value=k.arg) for k in e.keywords], values=[k.value for k in e.keywords])
            return None
        g = self._global(e)
        if g is None:
            return None
        if g not in self._tables:
            self._tables[g] = None  # cycle guard
            v = self._global_value(e)
            self._tables[g] = self._table(v, depth + 1) if v is not None else None
        return self._tables[g]

    def _lookup(self, tb: ast.Dict, key) -> Optional[ast.AST]:
        hit = [v for k, v in zip(tb.keys, tb.values) if _cv(k) == key and type(_cv(k)) is type(key)]
        return hit[-1] if hit else None

    def _funcref(self, e: ast.AST) -> bool:
        """e denotes a function / class / module attribute by name (a def, a class, a functools.partial of the package, or an
        attribute of an imported module): an object that is not None and is truthy."""
        if isinstance(e, ast.Lambda):
            return True
        d = dotted(e)
        if d is None or d.split(".")[0] in self.locals or d.startswith("%"):
            return False
        s = self.ctx.rs.lookup_dotted(self.mod.name, d)
        if s is None:
            return False
        if s.kind in ("func", "class", "partial"):
            return True
        return s.kind == "external" and "." in d

    def _named_fields(self, cls_fq: str, depth: int = 0) -> Optional[List[str]]:
        """Field names of a typing.NamedTuple class of the package (inherited through package subclasses)."""
        mname, _, q = cls_fq.partition(".")
        m = self.ctx.repo.modules.get(mname)
        node = m.classes.get(q) if m is not None else None
        if node is None or depth > 4:
            return None
        own = [st.target.id for st in node.body if isinstance(st, ast.AnnAssign) and isinstance(st.target, ast.Name)]
        for b in node.bases:
            d = dotted(b) or ""
            if d.split(".")[-1] == "NamedTuple":
                return own
            s = self.ctx.rs.lookup_dotted(mname, d) if d else None
            if s is not None and s.kind == "class":
                inh = self._named_fields(s.fq, depth + 1)
                if inh is not None:
                    return inh  # a subclass of a NamedTuple class cannot add fields
        return None

    # ------------------------------------------------------------------ calls of lambdas / one-expression helpers (device 3)
    def _free_ok(self, body: ast.AST, bound: set) -> bool:
        """The body refers, apart from its parameters, only to names that are not locals of the analysed function (so the
        names mean the same thing at the call site as at the definition)."""
        return not ((names_in(body) - bound) & (self.locals - {"self", "cls"}))

    def _apply(self, fn_args: ast.arguments, body: ast.AST, binding: Dict[str, Optional[ast.AST]], p: _Path) -> Optional[ast.AST]:
        names = [a.arg for a in fn_args.posonlyargs + fn_args.args + fn_args.kwonlyargs]
        if fn_args.vararg or fn_args.kwarg or any(binding.get(n) is None for n in names):
            return None
        if not self._free_ok(body, set(names)):
            return None
        if self._depth > 6:
            return None
        self._depth += 1
        try:
            b = _Subst({n: v for n, v in binding.items() if v is not None}).visit(copy.deepcopy(body))
            return self.simplify(self._freshen(b, p), p)
        finally:
            self._depth -= 1

    def _call_through(self, n: ast.Call, p: _Path) -> Optional[ast.AST]:
        """Argument binding into a lambda or into a one-expression function of the same module: the call is replaced by the
        callee's result term (each non-deterministic primitive in the callee body becomes a fresh symbol per call)."""
        if any(isinstance(a, ast.Starred) for a in n.args) or any(k.arg is None for k in n.keywords):
            return None
        if isinstance(n.func, ast.Lambda):
            lam = n.func
            b = bind_args(n, lam)
            if len(n.args) > len(lam.args.posonlyargs + lam.args.args):
                return None
            return self._apply(lam.args, lam.body, b, p)
        d = dotted(n.func)
        if d is None:
            return None
        parts = d.split(".")
        fn, skip = None, False
        if len(parts) == 1 and parts[0] not in self.locals:
            s = self.ctx.rs.lookup(self.mod.name, parts[0])
            if s is not None and s.kind == "func" and s.module == self.mod.name and not s.bound:
                fn = self.mod.funcs.get(s.name)
        elif len(parts) == 2 and parts[0] in ("self", "cls") and self.f.cls:
            fn = self.mod.funcs.get(f"{self.f.cls}.{parts[1]}")
            skip = True
        elif len(parts) == 2 and parts[0] == self.f.cls and parts[0] not in self.locals:
            fn = self.mod.funcs.get(f"{self.f.cls}.{parts[1]}")  # Class.helper(..): only a static / class method binds like this
            if fn is not None and [dotted(x) for x in fn.node.decorator_list] not in (["staticmethod"], ["classmethod"]):
                fn = None
            skip = fn is not None and [dotted(x) for x in fn.node.decorator_list] == ["classmethod"]
        if fn is None or not isinstance(fn.node, ast.FunctionDef) or fn.fq == self.f.fq:
            return None
        decos = [dotted(x) for x in fn.node.decorator_list]
        if decos == ["staticmethod"]:
            skip = False
        elif decos and decos != ["classmethod"]:
            return None
        elif decos == ["classmethod"] and not skip:
            return None
        body = fn.node.body
        if len(body) != 1 or not isinstance(body[0], ast.Return) or body[0].value is None:
            return None
        if any(isinstance(x, (ast.Yield, ast.YieldFrom, ast.Await)) for x in ast.walk(body[0])):
            return None
        pos = fn.node.args.posonlyargs + fn.node.args.args
        if len(n.args) > len(pos) - (1 if skip else 0):
            return None
        b = bind_args(n, fn.node, skip_self=skip)
        args = copy.deepcopy(fn.node.args)
        if skip:
            if args.posonlyargs:
                args.posonlyargs = args.posonlyargs[1:]
            else:
                args.args = args.args[1:]
        if any(b.get(a.arg) is None for a in args.posonlyargs + args.args + args.kwonlyargs):
            return None
        return self._apply(args, body[0].value, b, p)

    # ------------------------------------------------------------------ types and truth
    def types(self, e: ast.AST, p: _Path) -> Optional[set]:
        if isinstance(e, ast.Constant):
            return {type(e.value).__name__}
        if isinstance(e, ast.JoinedStr):
            return {"str"}
        if isinstance(e, (ast.Tuple, ast.List, ast.Dict, ast.Set)):
            return {type(e).__name__.lower()}
        if isinstance(e, ast.BinOp):
            a, b = self.types(e.left, p), self.types(e.right, p)
            for t in ("bytes", "str", "list", "tuple"):
                if (a == {t} or b == {t}) and isinstance(e.op, (ast.Add, ast.Mult)):
                    return {t}
            if a == {"int"} and b == {"int"} and not isinstance(e.op, ast.Div):
                return {"int"}
            return None
        if isinstance(e, ast.IfExp):
            a, b = self.types(e.body, p), self.types(e.orelse, p)
            return None if a is None or b is None else a | b
        if isinstance(e, ast.BoolOp):
            ts = [self.types(v, p) for v in e.values]
            return None if any(t is None for t in ts) else set().union(*ts)
        if isinstance(e, ast.Compare) or (isinstance(e, ast.UnaryOp) and isinstance(e.op, ast.Not)):
            return {"bool"}
        if isinstance(e, ast.Subscript) and isinstance(e.slice, ast.Slice):
            return self.types(e.value, p)
        if isinstance(e, ast.Call):
            d = dotted(e.func)
            if d in ("len", "int", "ord", "sum"):
                return {"int"}
            if d in ("bytes", "str", "bytearray", "list", "dict", "tuple", "bool"):
                return {d}
            if d in ("isinstance", "callable", "hasattr"):
                return {"bool"}
            if isinstance(e.func, ast.Attribute):
                if e.func.attr in ("lower", "upper", "strip", "lstrip", "rstrip", "casefold", "replace"):
                    return self.types(e.func.value, p)
                if e.func.attr == "encode":
                    return {"bytes"}
                if e.func.attr in ("decode", "hex"):
                    return {"str"}
                if e.func.attr in ("partition", "rpartition"):
                    return {"tuple"}
        if _other_term(e):
            return {"str"}
        if self._funcref(e):
            return {"function"}
        k = src(e)
        out = None
        for fe, pol in p.fnodes:
            if pol and isinstance(fe, ast.Call) and dotted(fe.func) == "isinstance" and len(fe.args) == 2 and src(fe.args[0]) == k:
                tn = _tnames(fe.args[1])
                if tn is not None:
                    out = tn if out is None else (out & tn or out)
        return out

    def _isinstance(self, call: ast.Call, p: _Path) -> Optional[bool]:
        if len(call.args) != 2:
            return None
        tn, tx = _tnames(call.args[1]), self.types(call.args[0], p)
        if tn is None or not tx:
            return None
        if all(t in tn or (t == "bool" and "int" in tn) for t in tx):
            return True
        if all(t in _DISJOINT and u in _DISJOINT and t != u and not (t == "bool" and u == "int") for t in tx for u in tn):
            return False
        return None

    def truth(self, e: ast.AST, p: _Path) -> Optional[bool]:
        if isinstance(e, ast.Constant):
            return bool(e.value)
        if isinstance(e, (ast.Tuple, ast.List, ast.Set)) and not any(isinstance(x, ast.Starred) for x in e.elts):
            return bool(e.elts)
        if isinstance(e, ast.UnaryOp) and isinstance(e.op, ast.Not):
            v = self.truth(e.operand, p)
            return None if v is None else (not v)
        if isinstance(e, ast.BoolOp):
            vals = [self.truth(v, p) for v in e.values]
            if isinstance(e.op, ast.And):
                return False if any(v is False for v in vals) else True if all(v is True for v in vals) else None
            return True if any(v is True for v in vals) else False if all(v is False for v in vals) else None
        f = p.fact(e)
        if f is not None:
            return f
        if isinstance(e, (ast.Lambda, ast.Name, ast.Attribute)) and self._funcref(e):
            return True
        if isinstance(e, ast.Compare) and len(e.ops) == 1:
            l, op, r = e.left, e.ops[0], e.comparators[0]
            t = _other_cmp(l, op, r)
            if t is not None:
                return t
            if isinstance(op, (ast.In, ast.NotIn)):
                keys = r.func.value if isinstance(r, ast.Call) and isinstance(r.func, ast.Attribute) and r.func.attr == "keys" and not r.args and not r.keywords else r
                tb = self._table(keys)
                if tb is not None:
                    if _other_term(l):
                        return isinstance(op, ast.NotIn)  # assumption OTHER: not a key of a constant table either
                    k = _cv(l)
                    if k is not _NC:
                        try:
                            hit = any(_cv(x) == k for x in tb.keys)
                        except Exception:
                            return None
                        return hit if isinstance(op, ast.In) else (not hit)
            a, b = _cv(l), _cv(r)
            if a is not _NC and b is not _NC:
                try:
                    return bool(_CMP[type(op)](a, b))
                except Exception:
                    return None
            if isinstance(op, (ast.Is, ast.IsNot)) and b is None:
                t = self.types(l, p)
                if t:
                    if t == {"NoneType"}:
                        return isinstance(op, ast.Is)
                    if "NoneType" not in t:
                        return isinstance(op, ast.IsNot)
        if isinstance(e, ast.Call) and dotted(e.func) == "isinstance":
            return self._isinstance(e, p)
        return None

    # ------------------------------------------------------------------ simplification
    def simplify(self, e: ast.AST, p: _Path) -> ast.AST:
        ex = self

        class S(ast.NodeTransformer):
            def visit_Lambda(self, n):
                return n

            def generic_visit(self, n):
                n = super().generic_visit(n)
                return ex._fold(n, p)

            def visit_IfExp(self, n):
                n.test = self.visit(n.test)
                t = ex.truth(n.test, p)
                if t is True:
                    return self.visit(n.body)
                if t is False:
                    return self.visit(n.orelse)
                n.body, n.orelse = self.visit(n.body), self.visit(n.orelse)
                return n

        return S().visit(e)

    def _fold(self, n: ast.AST, p: _Path) -> ast.AST:
        if isinstance(n, (ast.BinOp, ast.UnaryOp)) and not (isinstance(n, ast.UnaryOp) and isinstance(n.op, ast.Not)):
            v = _cv(n)
            if v is not _NC:
                c = _const_node(v)
                if c is not None:
                    return c
        if isinstance(n, ast.Subscript) and isinstance(n.value, (ast.Tuple, ast.List)) and not any(isinstance(x, ast.Starred) for x in n.value.elts):
            i = _cv(n.slice)
            if isinstance(i, int) and not isinstance(i, bool) and -len(n.value.elts) <= i < len(n.value.elts):
                return n.value.elts[i]
        if isinstance(n, ast.Subscript) and not isinstance(n.slice, ast.Slice) and isinstance(getattr(n, "ctx", None), ast.Load):
            i = _cv(n.slice)
            tb = self._table(n.value) if i is not _NC else None
            if tb is not None:
                hit = self._lookup(tb, i)
                if hit is not None:
                    return copy.deepcopy(hit)
        if isinstance(n, ast.Attribute) and n.attr == "_fields" and isinstance(n.ctx, ast.Load):
            d = dotted(n.value)
            if d is not None and d.split(".")[0] not in self.locals:
                sy = self.ctx.rs.lookup_dotted(self.mod.name, d)
                names = self._named_fields(sy.fq) if sy is not None and sy.kind == "class" else None
                if names is not None:
                    return ast.Tuple(elts=[ast.Constant(value=x) for x in names], ctx=ast.Load())
        if isinstance(n, ast.Subscript) and isinstance(n.value, ast.Constant) and isinstance(n.value.value, (bytes, str)):
            try:
                c = _const_node(const_eval(n, _noenv))
                if c is not None:
                    return c
            except Exception:
                pass
        if isinstance(n, ast.Call):
            d = dotted(n.func)
            if isinstance(n.func, ast.Attribute) and isinstance(n.func.value, ast.Constant) and isinstance(n.func.value.value, (str, bytes)) \
                    and n.func.attr in ("lower", "upper", "casefold", "strip") and not n.args and not n.keywords:
                try:
                    return ast.Constant(value=getattr(n.func.value.value, n.func.attr)())
                except Exception:
                    return n
            if d == "len" and len(n.args) == 1:
                v = _cv(n.args[0])
                if v is not _NC:
                    try:
                        return ast.Constant(value=len(v))
                    except Exception:
                        return n
            if d == "getattr" and len(n.args) == 2 and isinstance(_cv(n.args[1]), str) and _cv(n.args[1]).isidentifier():
                return ast.Attribute(value=n.args[0], attr=_cv(n.args[1]), ctx=ast.Load())
            if d == "getattr" and len(n.args) == 3 and not n.keywords and isinstance(_cv(n.args[1]), str) and isinstance(n.args[0], ast.Name):
                # getattr(x, "name", default) is x.name when the declared class of x has that field (NamedTuple fields exist on every instance)
                t = self.ctx.rs.expr_type(self.f, n.args[0]) if n.args[0].id in params(self.f.node) else None
                names = self._named_fields(t) if t and not t.startswith(("struct:", "type:")) else None
                if names is not None and _cv(n.args[1]) in names:
                    return ast.Attribute(value=n.args[0], attr=_cv(n.args[1]), ctx=ast.Load())
            if isinstance(n.func, ast.Attribute) and n.func.attr == "get" and 1 <= len(n.args) <= 2 and not n.keywords:
                tb = self._table(n.func.value)
                if tb is not None:
                    dflt = n.args[1] if len(n.args) == 2 else ast.Constant(value=None)
                    if _other_term(n.args[0]):
                        return dflt  # assumption OTHER: not a key of a constant table
                    k = _cv(n.args[0])
                    if k is not _NC:
                        hit = self._lookup(tb, k)
                        return copy.deepcopy(hit) if hit is not None else dflt
            r = self._call_through(n, p)
            if r is not None:
                return r
            if d == "isinstance":
                t = self._isinstance(n, p)
                if t is not None:
                    return ast.Constant(value=t)
        if isinstance(n, ast.Compare) or (isinstance(n, ast.UnaryOp) and isinstance(n.op, ast.Not)):
            t = self.truth(n, p)
            if t is not None:
                return ast.Constant(value=t)
        if isinstance(n, ast.BoolOp):
            vals = list(n.values)
            keep = []
            for i, v in enumerate(vals):
                t = self.truth(v, p)
                last = i == len(vals) - 1
                if isinstance(n.op, ast.Or):
                    if t is True:
                        keep.append(v)
                        break
                    if t is False and not last:
                        continue
                else:
                    if t is False:
                        keep.append(v)
                        break
                    if t is True and not last:
                        continue
                keep.append(v)
            if len(keep) == 1:
                return keep[0]
            n.values = keep
        return n

    # ------------------------------------------------------------------ expressions
    def ev(self, e: Optional[ast.AST], p: _Path) -> List[Tuple[_Path, Optional[ast.AST]]]:
        """Substitute, simplify and resolve conditional expressions (forking on undecidable tests)."""
        if e is None:
            return [(p, None)]
        e = copy.deepcopy(e)
        if any(isinstance(n, ast.NamedExpr) for n in ast.walk(e)):
            e = self._walrus(e, p)
        v = _Subst(p.env).visit(e)
        out = self._resolve(self._freshen(v, p), p, 0)
        for q, r in out:
            cc = self._computed_call(r)
            if cc is not None and "call of a computed callable" not in q.opaque:
                q.opaque.append("call of a computed callable")
        return out

    def _walrus(self, e: ast.AST, p: _Path) -> ast.AST:
        """`(n := E)` binds n (innermost first) and reads as n; evaluation-order subtleties of short circuits are ignored."""
        ex = self

        class W(ast.NodeTransformer):
            def visit_Lambda(self, n):
                return n

            def visit_NamedExpr(self, n):
                val = self.visit(n.value)
                v = ex.simplify(ex._freshen(_Subst(p.env).visit(copy.deepcopy(val)), p), p)
                ex._store(n.target, v, p)
                return ast.Name(id=n.target.id, ctx=ast.Load())

        return W().visit(e)

    def _freshen(self, v: ast.AST, p: _Path) -> ast.AST:
        """Every call of a non-deterministic primitive yields a value of its own: it is replaced by a fresh symbol (so
        two evaluations are never mistaken for the same value, while copies of one evaluation stay equal)."""
        if not self._impure(v):
            return v
        ex = self

        class F(ast.NodeTransformer):
            def visit_Lambda(self, n):
                return n  # a lambda body is evaluated when (and each time) the lambda is called: see _call_through

            def visit_Call(self, n):
                n = self.generic_visit(n)
                d = dotted(n.func) or ""
                if any(d == x or d.startswith(x) for x in _IMPURE):
                    return ex._newsym(p, "r", n)
                return n

        return F().visit(v)

    def _resolve(self, v: ast.AST, p: _Path, depth: int) -> List[Tuple[_Path, ast.AST]]:
        v = self.simplify(v, p)
        ife = _first_ifexp(v)
        if ife is None or depth > 6:
            return [(p, v)]
        out = []
        for p2, _t in self.decide_s(ife.test, p):
            out.extend(self._resolve(copy.deepcopy(v), p2, depth + 1))
        return out

    def decide(self, test: ast.AST, p: _Path) -> List[Tuple[_Path, bool]]:
        out = []
        for p2, v in self.ev(test, p):
            out.extend(self.decide_s(v, p2))
        return out

    def decide_s(self, e: ast.AST, p: _Path) -> List[Tuple[_Path, bool]]:
        t = self.truth(e, p)
        if t is not None:
            return [(p, t)]
        if isinstance(e, ast.UnaryOp) and isinstance(e.op, ast.Not):
            return [(q, not b) for q, b in self.decide_s(e.operand, p)]
        if isinstance(e, ast.BoolOp):
            stop = isinstance(e.op, ast.Or)  # the value that ends evaluation
            live, done = [p], []
            for v in e.values:
                nxt = []
                for q in live:
                    for q2, b in self.decide_s(v, q):
                        (done if b is stop else nxt).append(q2)
                live = nxt
            return [(q, stop) for q in done] + [(q, not stop) for q in live]
        a, b = p.copy(), p.copy()
        a.add_fact(e, True)
        b.add_fact(e, False)
        return [(a, True), (b, False)]

    # ------------------------------------------------------------------ statements
    def run(self, stmts: List[ast.stmt], p: _Path) -> List[_Path]:
        paths = [p]
        for st in stmts:
            nxt: List[_Path] = []
            for q in paths:
                if q.out != "next":
                    nxt.append(q)
                else:
                    nxt.extend(self.step(st, q))
            paths = nxt
            if len(paths) > self.budget:
                for q in paths:
                    q.opaque.append("path budget exceeded")
                return paths[: self.budget]
        return paths

    def _newsym(self, p: _Path, prefix: str, definition: ast.AST) -> ast.Name:
        self.fresh += 1
        n = f"%{prefix}{self.fresh}"
        p.defs[n] = definition
        return _name(n)

    def _impure(self, v: ast.AST) -> bool:
        todo = [v]
        while todo:
            n = todo.pop()
            if isinstance(n, ast.Lambda):
                continue
            if isinstance(n, ast.Call):
                d = dotted(n.func) or ""
                if any(d == x or d.startswith(x) for x in _IMPURE):
                    return True
            todo.extend(ast.iter_child_nodes(n))
        return False

    def _computed_call(self, v: Optional[ast.AST]) -> Optional[str]:
        """A call whose callee is itself a computed value (a table entry that could not be resolved, a local holding a
        callable ...): what it does is not known to the walker."""
        todo = [v] if v is not None else []
        while todo:
            n = todo.pop()
            if isinstance(n, ast.Lambda):
                continue
            if isinstance(n, ast.Call):
                fn = n.func
                if isinstance(fn, (ast.Lambda, ast.Call, ast.Subscript, ast.IfExp, ast.BoolOp, ast.NamedExpr)) or (
                        isinstance(fn, ast.Name) and fn.id in self.locals):
                    return src(fn)
            todo.extend(ast.iter_child_nodes(n))
        return None

    def _alloc(self, v: ast.AST) -> bool:
        if isinstance(v, (ast.List, ast.ListComp, ast.Dict, ast.DictComp)):
            return True
        if isinstance(v, ast.Subscript) and isinstance(v.slice, ast.Slice):
            return True
        return isinstance(v, ast.Call) and (dotted(v.func) in _ALLOC or (isinstance(v.func, ast.Attribute) and v.func.attr == "copy"))

    def _bind_value(self, v: ast.AST, p: _Path) -> ast.AST:
        if isinstance(v, ast.Name):
            return v
        if self.objects and self._alloc(v):
            return self._newsym(p, "o", v)
        return v

    def _store(self, target: ast.AST, v: ast.AST, p: _Path):
        if isinstance(target, (ast.Tuple, ast.List)):
            if any(isinstance(t, ast.Starred) for t in target.elts):
                p.opaque.append("starred unpacking")
                for n in names_in(target):
                    p.env[n] = self._newsym(p, "u", ast.Constant(value=None))
                return
            if isinstance(v, (ast.Tuple, ast.List)) and len(v.elts) == len(target.elts) and not any(isinstance(x, ast.Starred) for x in v.elts):
                for t, x in zip(target.elts, v.elts):
                    self._store(t, x, p)
                return
            for i, t in enumerate(target.elts):
                self._store(t, ast.Subscript(value=copy.deepcopy(v), slice=ast.Constant(value=i), ctx=ast.Load()), p)
            return
        if isinstance(target, ast.Subscript):
            for q, c in self.ev(target.value, p)[:1]:
                k = self.ev(target.slice, p)[0][1]
                self._mutate(c, "__setitem__", [k, v], p, dotted(target.value))
            return
        d = dotted(target)
        if d is None:
            p.opaque.append(f"store to {src(target)}")
            return
        p.env[d] = v
        # a rebinding of `x` invalidates remembered `x.attr` entries
        for k in [k for k in p.env if k.startswith(d + ".")]:
            del p.env[k]

    def _mutate(self, recv: ast.AST, meth: str, args: List[ast.AST], p: _Path, recv_name: Optional[str]):
        p.muts.append((recv, meth, args))
        if self.objects and isinstance(recv, ast.Name) and recv.id.startswith("%o"):
            return  # object identity mode: the mutation is recorded against the object, bindings keep pointing at it
        if meth == "update" and len(args) == 1 and isinstance(args[0], ast.Dict) and len(args[0].keys) == 1 and args[0].keys[0] is not None:
            meth, args = "__setitem__", [args[0].keys[0], args[0].values[0]]
        fn = "%setitem" if meth == "__setitem__" else f"%mut_{meth}"
        new = ast.Call(func=_name(fn), args=[copy.deepcopy(recv)] + [copy.deepcopy(a) for a in args], keywords=[])
        rs = src(recv)
        keys = {k for k, v in p.env.items() if src(v) == rs}
        if recv_name is not None:
            keys.add(recv_name)
        d = dotted(recv)
        if d is not None and not d.startswith("%"):
            keys.add(d)
        for k in keys:
            p.env[k] = new

    def step(self, st: ast.stmt, p: _Path) -> List[_Path]:
        if isinstance(st, (ast.Pass, ast.Import, ast.ImportFrom, ast.Global, ast.Nonlocal)):
            return [p]
        if isinstance(st, (ast.Assign, ast.AnnAssign, ast.AugAssign)):
            if isinstance(st, ast.AnnAssign) and st.value is None:
                return [p]
            if isinstance(st, ast.AugAssign):
                tl = copy.deepcopy(st.target)
                for n in ast.walk(tl):
                    if hasattr(n, "ctx"):
                        n.ctx = ast.Load()
                value: ast.AST = ast.BinOp(left=tl, op=st.op, right=st.value)
                targets = [st.target]
            else:
                value = st.value
                targets = st.targets if isinstance(st, ast.Assign) else [st.target]
            out = []
            for q, v in self.ev(value, p):
                if q is p and len(out):
                    q = p.copy()
                if not isinstance(v, (ast.Tuple, ast.List)):
                    v = self._bind_value(v, q)
                for t in targets:
                    self._store(t, v, q)
                out.append(q)
            return out
        if isinstance(st, ast.Expr):
            out = []
            for q, v in self.ev(st.value, p):
                if isinstance(v, ast.Call):
                    if isinstance(v.func, ast.Attribute) and v.func.attr in _MUTATORS:
                        orig = st.value.func.value if isinstance(st.value, ast.Call) and isinstance(st.value.func, ast.Attribute) else None
                        self._mutate(v.func.value, v.func.attr, list(v.args), q, dotted(orig) if orig is not None else None)
                    else:
                        q.effects.append(v)
                out.append(q)
            return out
        if isinstance(st, ast.Assert):
            out = []
            for q, t in self.decide(st.test, p):
                if not t:
                    q.out, q.val = "raise", _name("AssertionError")
                out.append(q)
            return out
        if isinstance(st, ast.If):
            out = []
            for q, t in self.decide(st.test, p):
                out.extend(self.run(st.body if t else st.orelse, q))
            return out
        if isinstance(st, ast.Raise):
            q, v = self.ev(st.exc, p)[0]
            q.out, q.val = "raise", v
            return [q]
        if isinstance(st, ast.Return):
            out = []
            for q, v in self.ev(st.value, p):
                q.out, q.val = "return", v
                out.append(q)
            return out
        if isinstance(st, ast.Continue):
            p.out = "continue"
            return [p]
        if isinstance(st, ast.Break):
            p.out = "break"
            return [p]
        # anything else (nested loops, try, with, match, del ...): not modelled
        p.opaque.append(type(st).__name__)
        for n in _assigned(st):
            p.env[n] = self._newsym(p, "u", ast.Constant(value=None))
        return [p]


class _NCType:
    pass


_NC = _NCType()


def _cv(e):
    """Constant value of e or the _NC marker."""
    try:
        return const_eval(e, _noenv)
    except Exception:
        return _NC


def _first_ifexp(e: ast.AST) -> Optional[ast.IfExp]:
    todo = [e]
    while todo:
        n = todo.pop(0)
        if isinstance(n, ast.IfExp):
            return n
        if isinstance(n, (ast.Lambda, ast.ListComp, ast.SetComp, ast.DictComp, ast.GeneratorExp)):
            continue
        todo.extend(ast.iter_child_nodes(n))
    return None


def _assigned(node: ast.AST) -> set:
    """Dotted names that statements inside `node` may rebind or mutate in place."""
    out = set()

    def tgt(t):
        if isinstance(t, (ast.Tuple, ast.List)):
            for x in t.elts:
                tgt(x)
        elif isinstance(t, ast.Starred):
            tgt(t.value)
        elif isinstance(t, ast.Subscript):
            d = dotted(t.value)
            if d:
                out.add(d)
        else:
            d = dotted(t)
            if d:
                out.add(d)

    for n in ast.walk(node):
        if isinstance(n, ast.Assign):
            for t in n.targets:
                tgt(t)
        elif isinstance(n, (ast.AugAssign, ast.AnnAssign)):
            if not (isinstance(n, ast.AnnAssign) and n.value is None):
                tgt(n.target)
        elif isinstance(n, (ast.For, ast.AsyncFor)):
            tgt(n.target)
        elif isinstance(n, ast.NamedExpr):
            tgt(n.target)
        elif isinstance(n, (ast.With, ast.AsyncWith)):
            for it in n.items:
                if it.optional_vars is not None:
                    tgt(it.optional_vars)
        elif isinstance(n, ast.Delete):
            for t in n.targets:
                tgt(t)
        elif isinstance(n, ast.Call) and isinstance(n.func, ast.Attribute) and n.func.attr in _MUTATORS:
            d = dotted(n.func.value)
            if d:
                out.add(d)
    return out


def _merge(paths: List[_Path], ex: _Sym) -> Optional[_Path]:
    """Join of the normally-completing paths of a prelude: differing values become fresh symbols, common facts are kept."""
    if not paths:
        return None
    if len(paths) == 1:
        return paths[0].copy()
    m = paths[0].copy()
    for k in sorted({k for q in paths for k in q.env}):
        # a plain name without an entry still has the value it had on entry (a parameter): it stands for itself
        vals = [q.env.get(k, _name(k) if k.isidentifier() else None) for q in paths]
        if any(v is None for v in vals):
            m.env.pop(k, None)
        elif len({src(v) for v in vals}) > 1:
            m.env[k] = ex._newsym(m, "phi", ast.Tuple(elts=[copy.deepcopy(v) for v in vals], ctx=ast.Load()))
    m.facts = {k: v for k, v in m.facts.items() if all(q.facts.get(k) == v for q in paths)}
    m.fnodes = [(e, t) for e, t in m.fnodes if _key(e)[0] in m.facts]
    for q in paths[1:]:
        m.defs.update(q.defs)
        m.opaque.extend(x for x in q.opaque if x not in m.opaque)
    return m


# ============================================================================================ one dispatcher, summarised
def _normal(paths: List[_Path]) -> List[_Path]:
    return [p for p in paths if p.out in ("next", "continue")]


def _raise_name(p: _Path) -> Optional[str]:
    v = p.val
    if v is None:
        return None
    return dotted(v.func) if isinstance(v, ast.Call) else dotted(v)


class _Side:
    """transform or recover: the step loop located by role, its prelude executed, per-step path summaries on demand."""

    def __init__(self, ctx, f, attr: str):
        self.ctx, self.f, self.attr = ctx, f, attr
        self.ex = _Sym(ctx, f)
        self.why: Optional[str] = None  # why the loop could not be located (None = located)
        self.wrong_list: Optional[str] = None
        self.loop: Optional[ast.For] = None
        self.pre: Optional[_Path] = None
        self.carried: set = set()
        self.acc: Optional[str] = None
        self._cache: Dict[Tuple[Optional[str], str], List[_Path]] = {}
        self._post: Optional[List[_Path]] = None
        self._locate()

    # ------------------------------------------------------------------ locating
    def _prelude(self, stmts) -> Optional[_Path]:
        # the prelude is joined after every top-level statement: `if request is None: request = ...` yields one symbol
        # for the request, and what follows is expressed over it
        pre: Optional[_Path] = _Path()
        for st in stmts:
            pre = _merge([p for p in self.ex.run([st], pre) if p.out == "next"], self.ex)
            if pre is None:
                return None
        return pre

    def _locate(self):
        body = self.f.node.body
        cands = []
        for i, st in enumerate(body):
            if not isinstance(st, ast.For):
                continue
            pre = self._prelude(body[:i])
            if pre is None:
                continue
            it = self.ex.ev(st.iter, pre)[0][1]  # the iterable with prelude temporaries resolved
            attrs = {dotted(n) for n in ast.walk(it) if isinstance(n, ast.Attribute)}
            if f"self.{self.attr}" in attrs:
                cands.append((i, st, pre, it))
            elif any(a and a.startswith("self.") and a.endswith("steps") for a in attrs) and not any(
                    (isinstance(n, ast.Call) and dotted(n.func) == "reversed") or isinstance(n, ast.Slice) for n in ast.walk(it)):
                self.wrong_list = sorted(a for a in attrs if a and a.startswith("self."))[0]
        if len(cands) != 1:
            self.why = f"no single top-level `for` over self.{self.attr} ({len(cands)} candidates)"
            return
        idx, self.loop, self.pre, it = cands[0]
        elem = self._element(it)
        if elem is None:
            self.why = f"the loop iterates {src(it)}, not the step list itself"
            return
        self._elem = elem
        self.carried = _assigned(ast.Module(body=self.loop.body, type_ignores=[])) | names_in(self.loop.target)
        self.suffix = body[idx + 1:]

    def _element(self, it: ast.AST) -> Optional[ast.AST]:
        """Symbolic loop element for the iterable: (step, arg) pairs, possibly wrapped by enumerate/list/iter/tuple."""
        pair = ast.Tuple(elts=[_name(_STEP), _name(_ARG)], ctx=ast.Load())
        if dotted(it) == f"self.{self.attr}":
            return pair
        if isinstance(it, ast.Call) and len(it.args) >= 1 and not it.keywords:
            d = dotted(it.func)
            inner = self._element(it.args[0])
            if inner is None:
                return None
            if d in ("list", "tuple", "iter") and len(it.args) == 1:
                return inner
            if d == "enumerate":
                return ast.Tuple(elts=[_name("%index"), inner], ctx=ast.Load())
        return None

    # ------------------------------------------------------------------ running
    def start(self, step: Optional[str], arg: Optional[ast.AST] = None) -> _Path:
        """Entry state of one iteration: step name = the given literal (None: the abstract `%other` name), argument and
        loop-carried locals symbolic."""
        p = self.pre.copy()
        for n in self.carried:
            p.env[n] = _name(n)
            for k in [k for k in p.env if k.startswith(n + ".")]:
                del p.env[k]
        elem = copy.deepcopy(self._elem)
        sub = {_STEP: ast.Constant(value=step) if step is not None else _name(_OTHER)}
        if arg is not None:
            sub[_ARG] = arg
        elem = _Subst(sub).visit(elem)
        self.ex._store(self.loop.target, elem, p)
        return p

    def other(self) -> List[_Path]:
        """Paths of the "any other step name" case (assumption OTHER; nothing concrete is substituted)."""
        return self.run(None)

    def run(self, step: Optional[str], arg: Optional[ast.AST] = None) -> List[_Path]:
        k = (step, src(arg) if arg is not None else "")
        if k not in self._cache:
            self._cache[k] = self.ex.run(self.loop.body, self.start(step, arg))
        return self._cache[k]

    def paths(self, name: str, arg: Optional[ast.AST] = None) -> List[_Path]:
        """Paths for a step name in the spelling the binary parsers emit (upper-case enum names)."""
        return self.run(name.upper(), arg)

    def handles(self, spelled: str) -> bool:
        return bool(_normal(self.run(spelled)))

    def changed(self, p: _Path) -> Dict[str, ast.AST]:
        """Loop-carried locals whose value at the end of the iteration differs from the value at its start."""
        skip = names_in(self.loop.target)
        return {n: p.env[n] for n in self.carried if n not in skip and n in p.env and src(p.env[n]) != n}

    def post(self) -> List[_Path]:
        """Paths of the code after the loop (loop-carried locals are symbols for their final value)."""
        if self._post is None:
            p = self.pre.copy()
            for n in self.carried:
                p.env[n] = _name(n)
            self._post = self.ex.run(self.suffix, p)
        return self._post

    def literals(self) -> set:
        """Lower-cased string literals the loop body compares something with (candidate step names)."""
        out = set()
        for n in ast.walk(ast.Module(body=self.loop.body, type_ignores=[])):
            if isinstance(n, ast.Compare):
                for e in [n.left] + list(n.comparators):
                    for c in (e.elts if isinstance(e, (ast.Tuple, ast.List, ast.Set)) else [e]):
                        if isinstance(c, ast.Constant) and isinstance(c.value, str):
                            out.add(c.value.lower())
            elif isinstance(n, ast.Dict):
                for c in n.keys:
                    if isinstance(c, ast.Constant) and isinstance(c.value, str):
                        out.add(c.value.lower())
            elif isinstance(n, (ast.Name, ast.Attribute)) and isinstance(n.ctx, ast.Load):
                tb = self.ex._table(n)  # a constant lookup table of the module / class the loop body consults
                for c in (tb.keys if tb is not None else []):
                    if isinstance(c, ast.Constant) and isinstance(c.value, str):
                        out.add(c.value.lower())
        return out

    def find_acc(self) -> Optional[str]:
        """The payload accumulator by role: the loop-carried local the pure codec steps rewrite (ties: the one that starts empty)."""
        score: Dict[str, int] = {}
        for spell in (str.upper, str.lower):  # as the parsers emit them; failing that (no case normalisation) as written
            for step in tables.INVERSE_PAIRS:
                for p in _normal(self.run(spell(step))):
                    for n in self.changed(p):
                        score[n] = score.get(n, 0) + 1
            if score:
                break
        if not score:
            return None
        best = max(score.values())
        top = sorted(n for n, s in score.items() if s == best)
        if len(top) > 1:
            empty = [n for n in top if _cv(self.pre.env.get(n)) == b""]
            top = empty or top
        return top[0] if len(top) == 1 else None


def _mentions(e: ast.AST, name: str) -> bool:
    return any((isinstance(n, ast.Name) and n.id == name) for n in ast.walk(e))


def _is(e: Optional[ast.AST], name: str) -> bool:
    e = strip_cast(e) if e is not None else None
    if isinstance(e, ast.Call) and dotted(e.func) == "bytes" and len(e.args) == 1 and not e.keywords:
        e = e.args[0]
    return isinstance(e, ast.Name) and e.id == name


def _callee(ctx, f, call):
    if not isinstance(call, ast.Call):
        return None
    cal = ctx.rs.resolve_call(f, call)
    if cal.kind == "func" and cal.func is not None:
        return cal.func.fq
    if cal.kind == "external":
        return cal.fq
    return dotted(call.func)


def _opaque(paths: List[_Path]) -> List[str]:
    return sorted({x for p in paths for x in p.opaque})


# ============================================================================================ the property's rules
_FIELDS = ("uri", "params", "headers", "body")
_ST: Dict[str, object] = {}  # per-run state shared by the rule functions (roles located by run())


def run(ctx):
    rep = ctx.rep
    rep.explanation = (
        "Static cross-check of the sibling dispatchers HttpDataTransform.transform / .recover in c2.py: each loop body is "
        "walked path-wise once per literal of the step vocabulary (reference opcode names and the literals the code "
        "compares with) and once for the abstract 'any other name' case - the step name is the only thing specialised; "
        "step argument, payload and all loop-carried locals stay symbols, definitions are substituted, unknown tests fork "
        "the path - giving per step the final symbolic term of the payload accumulator and of the request fields.  "
        "Nothing is evaluated on concrete payloads, byte arguments or programs (the build selector is the only argument "
        "specialised, per literal of its vocabulary).  These summaries must cover "
        "everything the parsers emit, pair each encoder with its reference decoder (judged by codec family, direction and alphabet - base64 altchars, netbios offset "
        "and case mappings - not by the spelling of the library call), write and read the same HTTP "
        "location, keep static decorations away from the payload, mirror prepend/append sides (including the `x[:-n]` "
        "zero hazard), use one mask length, bind build selectors to the like-named C2Data fields, replace the payload on "
        "every path of a build step (each build block carries only its own field), and update in place only containers of "
        "the caller's initial request or created during the call (no state shared between calls), and read each termination "
        "location back exactly: where transform leaves <content of the initial request> + payload in a location (an update that "
        "keeps the old content - the initial request's fields are free symbols, never assumed empty) recover must not take the "
        "whole location for the payload, nor cut the payload out by searching the location's bytes (partition / split / strip / "
        "find ...: the payload is an arbitrary byte string).  Dispatch through constant "
        "lookup tables of callables (module / class level dict displays) is followed by folding the lookup for the literal "
        "step name and binding the call's arguments into the entry (lambda, function reference, one-expression helper).  "
        "Finally no length-changing step (the four codecs, mask) may hand some payloads on unchanged: the payload lengths a "
        "pass-through path admits are computed from its path facts in the interval domain and must miss the step's domain "
        "(e.g. recover mask must turn the 4 bare key bytes of an empty payload into b'', not keep them)."
    )
    rep.not_decided = ["round-trip equality for all programs and payloads (only the per-step structural necessary conditions are decided)",
                       "correctness of the codecs themselves (base64 module, utils.netbios_*, utils.xor bodies)",
                       "whether a recover that takes only a part of a termination location (a slice of http.uri ...) removes exactly what transform kept there "
                       "(recover is not given the initial request): R9 is undecided on such shapes",
                       "pass-through paths guarded by something other than a linear length condition on the payload (modular / content / type tests, the step argument): R10 is undecided there",
                       "programs with two placements into the same location (two uri_append / print steps): only one placement step is analysed at a time",
                       "recover keeping the recovered blocks in something other than locals or constant-key entries of a local container (attributes set by name, "
                       "computed keys): R7 `build selectors` is undecided there",
                       "dispatchers with nested loops / try / with / match, or dispatching through a table that is not a constant dict display bound once "
                       "(computed tables, tables of method names, getattr dispatch): the affected steps are reported undecided",
                       "aliasing between the returned request and the caller's initial request (transform writes into the caller's params/headers dicts by design)"]
    rep.trusted_base = [
        "CPython ast", "reference opcode / inverse-pair / placement tables in csverif/tables.py and the selector and separator tables of this module",
        "assumption OTHER: the abstract unknown step name is a str unequal (also after str/lower/upper/casefold/strip) to every constant it is compared with "
        "and not a key of any constant lookup table; inhabited because only finitely many literals are compared / used as keys",
        "constant tables: a dict display bound exactly once to a module-level / class-level name that is never rebound, item-assigned or updated through that "
        "name in its module is taken to have the displayed content when the dispatcher runs (mutation through an alias or from another module is not tracked)",
        "function references (def / class / functools.partial of the package, attributes of imported modules) are not None and truthy",
        "NamedTuple: `_fields` and the positional constructor order are the annotated field names of the class body in source order; every instance has every field",
        "lemma splat (R7): `C(**m)` passes each entry of the mapping m as the keyword argument named by its key, so field f receives m[f] when m has the key f "
        "(otherwise the class default); dict(m) / m.copy() / {**m} have the entries of m; a dict entry holds the value of the latest store to its key",
        "lifetime: module-level and class-level bindings, instance attributes and parameter defaults outlive a call; a dict display / dict(..) / .copy() evaluated in the call is a new object",
        "lemma base64-pad: at most two '=' are stripped and CPython's base64 decoders ignore surplus padding, so appending >= 2 '=' repairs the input",
        "lemma base64-alias (R2): base64.standard_b64encode/decode are b64encode/b64decode, urlsafe_b64encode/decode are b64encode/b64decode with altchars=b'-_', "
        "binascii.b2a_base64(s, newline=False) / a2b_base64(s) are b64encode(s) / non-validating b64decode(s); altchars=None means b'+/' (documented library behaviour)",
        "lemma netbios-offset (R2): utils.netbios_encode(x, offset) emits nibble + offset for each nibble (alphabet [offset, offset + 15]) and netbios_decode(y, offset) inverts it; "
        "lemma case-shift: bytes.lower() adds 0x20 to exactly 0x41..0x5A and bytes.upper() subtracts 0x20 from exactly 0x61..0x7A, so an alphabet interval inside the mapped range "
        "moves as a whole and one disjoint from it is unchanged",
        "lemma split: partition(s)[0]/[2] and split(s, 1)[0]/[1] split at the first s, rpartition/rsplit at the last",
        "lemmas slice-drop / neg-zero / or-none: x[:len(x)-n] drops the last n bytes for 0 <= n <= len(x); x[:-n] does so only for n > 0 (x[:-0] == b''); x[:-n or None] for all n >= 0",
        "lemma filler: b'c' * n and bytes(n) have length n for an int n >= 0",
        "lemmas concat-length / join / or-empty (R9): len(a + b) == len(a) + len(b), hence a + b == b only for an empty a; SEP.join([x1..xn]) == x1 + SEP + .. + xn; "
        "`x or b''` == x for a bytes x; dict.setdefault(k, v) stores v only when k is absent; `quantifier: any initial request` - request.uri / body / headers[k] / params[k] may be non-empty",
        "lemma content-cut (R9): bytes.partition/rpartition/split/rsplit/splitlines/strip/lstrip/rstrip/removeprefix/removesuffix/replace/translate/find/rfind/index/rindex/expandtabs "
        "depend on where or whether some bytes occur in the receiver; the placed payload ranges over all byte strings",
        "lemma key-length: n.to_bytes(k, ..), os.urandom(k), utils.pack(.., size=k) have length k; struct.pack(fmt, ..) has length struct.calcsize(fmt)",
        "lemmas length-law / decoder-lengths (R10): base64 / base64url output has 4*ceil(n/3) characters (minus at most two stripped '='), netbios output 2n, "
        "mask output n + 4, so for n >= 1 (mask: n >= 0) an encoder's output differs in length from its input and, for a valid encoding (mask: a blob of >= 4 bytes), "
        "so does the decoder's; valid encodings of 2, of 4 and of every multiple of 4 characters exist for all four codecs; len(x[k:]) == max(len(x) - k, 0) for a constant k >= 0; "
        "a bytes value is true iff its length is > 0; equal byte strings have equal lengths; utils.xor(b'', key) == b''",
    ]
    T = ctx.repo.func("c2.HttpDataTransform.transform")
    R = ctx.repo.func("c2.HttpDataTransform.recover")
    tt, rt = _Side(ctx, T, "tsteps"), _Side(ctx, R, "rsteps")
    bad = False
    for side, f, s, attr in (("transform", T, tt, "tsteps"), ("recover", R, rt, "rsteps")):
        if s.why is None:
            continue
        bad = True
        if s.wrong_list is not None:
            ctx.ob("R1", "AGREE", f, f"{side} step loop", False, f"{side} must iterate self.{attr} but iterates {s.wrong_list}")
        else:
            ctx.undecided("R1", "AGREE", f, f"{side} step loop", s.why)
    if bad:
        r7_init(ctx)
        return
    for side, f, s in (("transform", T, tt), ("recover", R, rt)):
        s.acc = s.find_acc()
        if s.acc is None:
            bad = True
            ctx.undecided("R1", "AGREE", f, f"{side} payload accumulator", "no loop-carried local is rewritten by the codec steps: the payload accumulator cannot be located")
    if bad:
        r7_init(ctx)
        return
    _ST.clear()
    _ST.update(fld=_fields(tt), c2=params(T.node)[1] if len(params(T.node)) > 1 else None, http=params(R.node)[1] if len(params(R.node)) > 1 else None)
    vocab = {n.lower() for n in tables.TRANSFORM_STEPS} | tt.literals() | rt.literals()
    _ST["vocab"] = vocab
    ctx.rep.count("transform_branches", sum(1 for n in vocab if tt.handles(n.upper()) or tt.handles(n.lower())), floor=14)
    ctx.rep.count("recover_branches", sum(1 for n in vocab if rt.handles(n.upper()) or rt.handles(n.lower())), floor=14)
    # step names reach their branch in the spelling the parsers emit and in lower case alike
    for side, f, s in (("transform", T, tt), ("recover", R, rt)):
        diff = sorted(n for n in vocab if s.handles(n.upper()) != s.handles(n.lower()))
        ctx.ob("R1", "AGREE", f, f"{side} case-insensitive step dispatch", not diff,
               "step names are case-normalised before dispatch" if not diff else f"upper- and lower-case spellings are dispatched differently: {diff} (the parsers emit upper-case enum names)")
    r1(ctx, T, R, tt, rt, tt.other(), rt.other())
    r2(ctx, T, R, tt, rt)
    r3(ctx, T, R, tt, rt, _ARG, _ARG)
    r4(ctx, T, R, tt, rt, _ARG)
    r5(ctx, T, R, tt, rt, _ARG, _ARG)
    r6(ctx, T, R, tt, rt)
    r7(ctx, T, R, tt, rt, _ARG, _ARG)
    r8(ctx, T, tt)
    r9(ctx, T, R, tt, rt, _ARG, _ARG)
    r10(ctx, T, R, tt, rt, _ARG, _ARG)


def _fields(tt: _Side) -> dict:
    """Locate, by role, the request object and the local that carries each request field through transform's loop:
    the local returned under that field name (or, for the in-place mutated dict fields, the local bound to request.<field>)."""
    out = {"req": None, "vars": {}, "ret": None, "why": None, "init": {}}
    rets = [p for p in tt.post() if p.out == "return"]
    if not rets or any(p.opaque for p in rets):
        out["why"] = "the code after the step loop could not be followed to a return"
        return out
    shapes = {src(p.val) for p in rets}
    if len(shapes) != 1 or not isinstance(rets[0].val, ast.Call):
        out["why"] = f"transform returns {sorted(shapes)}: not one constructor/_replace call"
        return out
    call = rets[0].val
    out["ret"] = call
    kws = {k.arg: k.value for k in call.keywords if k.arg}
    if isinstance(call.func, ast.Attribute) and call.func.attr == "_replace":
        out["req"] = call.func.value
    elif not (dotted(call.func) or "").endswith("HttpRequest"):
        out["why"] = f"transform returns {src(call.func)}(...): neither request._replace nor HttpRequest"
        return out
    pre = tt.pre.env
    for fld in _FIELDS:
        v = kws.get(fld)
        if isinstance(v, ast.Name) and v.id in tt.carried:
            out["vars"][fld] = v.id
        elif v is None and out["req"] is not None and fld in ("params", "headers"):
            want = src(ast.Attribute(value=out["req"], attr=fld, ctx=ast.Load()))
            c = [n for n in tt.carried if n in pre and src(pre[n]) == want]
            if len(c) == 1:
                out["vars"][fld] = c[0]
    for fld, n in out["vars"].items():
        iv = pre.get(n)
        # a defensive copy of the initial field (dict(request.params), request.headers.copy()) still starts from that field
        for _ in range(3):
            if isinstance(iv, ast.Call) and dotted(iv.func) in ("dict", "bytes", "OrderedDict", "collections.OrderedDict") and len(iv.args) == 1 and not iv.keywords:
                iv = iv.args[0]
            elif isinstance(iv, ast.Dict) and len(iv.keys) == 1 and iv.keys[0] is None:
                iv = iv.values[0]  # {**x}: a copy of x
            elif isinstance(iv, ast.Call) and isinstance(iv.func, ast.Attribute) and iv.func.attr == "copy" and not iv.args:
                iv = iv.func.value
            else:
                break
        out["init"][fld] = iv
        if out["req"] is None and isinstance(iv, ast.Attribute):
            out["req"] = iv.value
    return out


def _lower_names(names) -> set:
    return {n.lower() for n in names}


def r1(ctx, T, R, tt, rt, telse, relse):
    vocab = _ST.get("vocab") or _lower_names(tables.TRANSFORM_STEPS)
    emitted = {n.lower() for n in tables.TRANSFORM_STEPS if n not in tables.STEPS_EXEMPT} | {n.lower() for n in tables.RECOVER_STEPS}
    ht = {n for n in vocab if tt.handles(n.upper())}
    hr = {n for n in vocab if rt.handles(n.upper())}
    ctx.ob("R1", "VOCAB", T, "transform vs recover step names", ht == hr, f"only in transform: {sorted(ht - hr)}; only in recover: {sorted(hr - ht)}")
    for side, f, h in (("transform", T, ht), ("recover", R, hr)):
        miss = sorted(emitted - h)
        ctx.ob("R1", "VOCAB", f, f"{side} covers parser output", not miss, f"step names the binary parsers can emit but {side} does not handle: {miss}")
    for side, f, eb in (("transform", T, telse), ("recover", R, relse)):
        if not eb or _opaque(eb):
            ctx.undecided("R1", "EXIT", f, f"{side} unknown step", f"the loop body could not be followed for an unknown step name ({_opaque(eb)})")
            continue
        ok = all(p.out == "raise" and _raise_name(p) == "ValueError" for p in eb)
        ctx.ob("R1", "EXIT", f, f"{side} unknown step", ok,
               "unknown steps raise ValueError" if ok else f"unknown steps are silently ignored or raise another type: {sorted({p.out + ' ' + (_raise_name(p) or '') for p in eb})}")


# ---------------------------------------------------------------------------------------------------------------- R2
def _acc_values(side: _Side, step: str):
    """(distinct final accumulator values over the normally completing paths, opaque reasons); None if not handled."""
    ps = _normal(side.paths(step))
    if not ps:
        return None, []
    vals = {}
    for p in ps:
        v = p.env.get(side.acc)
        if v is not None:
            vals.setdefault(src(v), (v, p))
    return list(vals.values()), _opaque(ps)


def _layers(ctx, f, e: ast.AST, acc: str):
    """Peel e down to the accumulator: [("case", m) | ("call", fq, n_extra_args) | ("pad", bytes)] from the outside in, or None."""
    out = []
    for _ in range(12):
        e = strip_cast(e)
        if _is(e, acc):
            return out
        if isinstance(e, ast.Call) and isinstance(e.func, ast.Attribute) and e.func.attr in ("lower", "upper") and not e.args and not e.keywords:
            out.append(("case", e.func.attr))
            e = e.func.value
            continue
        if isinstance(e, ast.BinOp) and isinstance(e.op, ast.Add) and isinstance(_cv(e.right), bytes):
            out.append(("pad", _cv(e.right)))
            e = e.left
            continue
        if isinstance(e, ast.Call):
            cands = [a for a in list(e.args) + [k.value for k in e.keywords] if _mentions(a, acc)]
            if len(cands) != 1:
                return None
            out.append(("call", _callee(ctx, f, e), e))
            e = cands[0]
            continue
        return None
    return None


# Reference codec vocabulary (device 6).  The standard library spells the two base64 codecs of the inverse-pair table in several
# documented ways; a call is reduced to (family, direction, alphabet) and compared on that, never on the function's name.
#   fq -> (direction, fixed alphabet | None = chosen by the `altchars` parameter, names of the positional parameters after the data)
_B64_STD, _B64_URL = b"+/", b"-_"
_B64_CALLS = {
    "base64.b64encode": ("enc", None, ("altchars",)),
    "base64.standard_b64encode": ("enc", _B64_STD, ()),
    "base64.urlsafe_b64encode": ("enc", _B64_URL, ()),
    "binascii.b2a_base64": ("enc", _B64_STD, ()),
    "base64.b64decode": ("dec", None, ("altchars", "validate")),
    "base64.standard_b64decode": ("dec", _B64_STD, ()),
    "base64.urlsafe_b64decode": ("dec", _B64_URL, ()),
    "binascii.a2b_base64": ("dec", _B64_STD, ()),
}
_B64_OPTIONS = {"base64.b64encode": {"altchars"}, "base64.b64decode": {"altchars", "validate"}, "binascii.b2a_base64": {"newline"},
                "binascii.a2b_base64": {"strict_mode"}}
_NETBIOS_CALLS = {"utils.netbios_encode": "enc", "utils.netbios_decode": "dec"}
# other binary-to-text codecs of the standard library: a different wire format, whatever their arguments
_FOREIGN_CODECS = {
    "base64." + n + d for n in ("b32", "b32hex", "b16", "a85", "b85", "z85") for d in ("encode", "decode")
} | {"base64.encodebytes", "base64.decodebytes", "base64.encodestring", "base64.decodestring", "binascii.hexlify", "binascii.unhexlify",
     "binascii.b2a_hex", "binascii.a2b_hex", "binascii.b2a_uu", "binascii.a2b_uu", "binascii.b2a_qp", "binascii.a2b_qp", "bytes.fromhex"}
_WIRE_ALPHABET = {"base64": _B64_STD, "base64url": _B64_URL, "netbios": 0x61, "netbiosu": 0x41}


def _const_of(side: _Side, e: Optional[ast.AST]):
    """Constant value of an argument term: a constant expression, or a module-level / class-level name bound once to one."""
    v = _cv(e) if e is not None else _NC
    if v is _NC and isinstance(e, ast.Call) and dotted(e.func) == "ord" and len(e.args) == 1 and not e.keywords:
        c = _const_of(side, e.args[0])  # ord of a one-character constant: constant folding (6)
        if isinstance(c, (str, bytes)) and len(c) == 1:
            return ord(c)
    if v is _NC and e is not None:
        g = side.ex._global_value(e)
        v = _cv(g) if g is not None else _NC
    return v


def _codec(ctx, side: _Side, f, call: ast.Call):
    """A call as a codec of the reference vocabulary: {"fq", "family" base64|netbios|foreign, "dir" enc|dec, "alphabet" (the two
    bytes that stand for the values 62 / 63, or the netbios offset; None = not a constant), "problems", "unknown"}; None when
    the callee is not in the vocabulary."""
    fq = _callee(ctx, f, call)
    if fq is None:
        return None
    out = {"fq": fq, "family": None, "dir": None, "alphabet": None, "problems": [], "unknown": []}
    if fq in _FOREIGN_CODECS:
        out.update(family="foreign", dir="dec" if ("decode" in fq or "a2b" in fq or "unhex" in fq or "fromhex" in fq) else "enc")
        return out
    if fq in _NETBIOS_CALLS:
        cal = ctx.rs.resolve_call(f, call)
        out.update(family="netbios", dir=_NETBIOS_CALLS[fq])
        try:
            b = dict(bind_args(call, cal.func.node))
            b.update(cal.bound or {})
        except Exception:
            b = None
        if not b or "offset" not in b or b["offset"] is None:
            out["unknown"].append(f"the offset argument of {src(call)} could not be bound")
            return out
        v = _const_of(side, b["offset"])
        if isinstance(v, int) and not isinstance(v, bool):
            out["alphabet"] = v
        else:
            out["unknown"].append(f"the offset {src(b['offset'])} of {fq} is not a constant")
        return out
    if fq not in _B64_CALLS:
        return None
    d, alpha, posnames = _B64_CALLS[fq]
    out.update(family="base64", dir=d, alphabet=alpha)
    opts: Dict[str, ast.AST] = {}
    extra = list(call.args[1:]) if call.args else []
    if any(isinstance(a, ast.Starred) for a in call.args) or any(k.arg is None for k in call.keywords) or len(extra) > len(posnames):
        out["unknown"].append(f"the arguments of {src(call)} could not be bound")
        out["alphabet"] = None
        return out
    for n, a in zip(posnames, extra):
        opts[n] = a
    for k in call.keywords:
        if k.arg in _B64_OPTIONS.get(fq, ()):
            opts[k.arg] = k.value
        elif k.arg not in ("s", "data") or call.args:
            out["unknown"].append(f"{fq} has no documented parameter {k.arg}")
    if alpha is None:
        a = opts.get("altchars")
        v = None if a is None else _const_of(side, a)
        if v is None:
            out["alphabet"] = _B64_STD
        elif isinstance(v, (bytes, bytearray)):
            out["alphabet"] = bytes(v)
        else:
            out["unknown"].append(f"the alternative alphabet {src(a)} of {fq} is not a bytes constant")
    for n in ("validate", "strict_mode"):
        if n in opts and _const_of(side, opts[n]) not in (False, None, 0):
            # strict decoding rejects surplus '=' in some CPython versions and accepts it in others: lemma base64-pad does not apply
            out["unknown"].append(f"{fq} is called with {n}={src(opts[n])}: whether the repaired padding is accepted is not decided")
    if fq == "binascii.b2a_base64":
        v = _const_of(side, opts["newline"]) if "newline" in opts else True
        if v is _NC:
            out["unknown"].append(f"newline={src(opts['newline'])} of binascii.b2a_base64 is not a constant")
        elif v:
            out["problems"].append("binascii.b2a_base64 appends a newline to the encoded payload (newline=False required)")
    return out


def _case_shift(base: int, how: str) -> Optional[int]:
    """The netbios alphabet [base, base + 15] after bytes.lower() / bytes.upper(), in the interval domain (device 4).
    Lemma case-shift: lower() adds 0x20 to exactly the bytes in [0x41, 0x5A] and upper() subtracts 0x20 from exactly the bytes
    in [0x61, 0x7A]; every other byte is kept.  An interval inside the mapped range is shifted as a whole, one disjoint from
    it is kept; an interval that straddles a boundary is no longer `nibble + offset` (None)."""
    lo, hi = base, base + 15
    a, b, delta = (0x41, 0x5A, 0x20) if how == "lower" else (0x61, 0x7A, -0x20)
    if a <= lo and hi <= b:
        return base + delta
    if hi < a or lo > b:
        return base
    return None


def _alpha_text(a) -> str:
    return f"{a!r}" if isinstance(a, bytes) else (f"0x{a:02X}.." + f"0x{a + 15:02X}" if isinstance(a, int) else "?")


def r2(ctx, T, R, tt, rt):
    for step, (enc, dec) in tables.INVERSE_PAIRS.items():
        if step == "mask":
            continue
        tv, topq = _acc_values(tt, step)
        rv, ropq = _acc_values(rt, step)
        if tv is None or rv is None:
            continue  # not handled on one side: R1
        text = f"pair {step}"
        # a path that passes the payload on unchanged is R10's subject; the pair is judged on the paths that rewrite it
        tv = [x for x in tv if not _is(x[0], tt.acc)] or tv
        rv = [x for x in rv if not _is(x[0], rt.acc)] or rv
        if topq or ropq or len(tv) != 1 or len(rv) != 1:
            ctx.undecided("R2", "AGREE", T, text, f"no single accumulator value per side (transform {[s for s in map(lambda x: src(x[0]), tv)]}, recover {[src(x[0]) for x in rv]}; not modelled: {topq + ropq})")
            continue
        te, re_ = tv[0][0], rv[0][0]
        tl, rl = _layers(ctx, T, te, tt.acc), _layers(ctx, R, re_, rt.acc)
        family = "netbios" if step.startswith("netbios") else "base64"
        wire = _WIRE_ALPHABET[step]  # what Cobalt Strike puts on the wire for this step
        problems, unknown = [], []
        for side, sd, f, val, lay, want, wdir in (("transform", tt, T, te, tl, enc, "enc"), ("recover", rt, R, re_, rl, dec, "dec")):
            if lay is None:
                seen = [c for c in (_codec(ctx, sd, f, n) for n in ast.walk(val) if isinstance(n, ast.Call)) if c is not None]
                if seen and not any(c["family"] == family and c["dir"] == wdir for c in seen):
                    problems.append(f"{side} uses {sorted(c['fq'] for c in seen)} (required {want})")
                else:
                    unknown.append(f"{side} value {src(val)} is not a chain of codec call / case change / padding over the accumulator")
                continue
            calls = [l for l in lay if l[0] == "call"]
            if len(calls) != 1:
                if not calls:
                    problems.append(f"{side} applies no codec: {src(val)}")
                else:
                    unknown.append(f"{side} applies several calls: {src(val)}")
                continue
            if calls[0][1] is None:
                unknown.append(f"{side}: callee of {src(calls[0][2].func)} not resolved")
                continue
            cd = _codec(ctx, sd, f, calls[0][2])
            if cd is None:
                if ctx.rs.resolve_call(f, calls[0][2]).kind in ("func", "class", "struct"):
                    problems.append(f"{side} calls {calls[0][1]} (required {want})")  # a function of the package that is not the codec
                else:
                    unknown.append(f"{side} calls {calls[0][1]}, which is not in the reference codec vocabulary")
                continue
            if cd["family"] != family or cd["dir"] != wdir:
                problems.append(f"{side} calls {cd['fq']} (required {want})")
                continue
            problems += cd["problems"]
            unknown += cd["unknown"]
            alpha = cd["alphabet"]
            i = lay.index(calls[0])
            outer, inner = lay[:i], lay[i + 1:]
            ocase, icase = [l[1] for l in outer if l[0] == "case"], [l[1] for l in inner if l[0] == "case"]
            if side == "transform":
                if any(l[0] == "pad" for l in lay):
                    problems.append("transform appends constant bytes around the encoder")
                if icase:
                    problems.append("transform changes the case of the payload before encoding")
                if family == "netbios":
                    # alphabet on the wire = the encoder's [offset, offset + 15] taken through the case mappings applied to its output
                    for how in reversed(ocase):
                        alpha = _case_shift(alpha, how) if alpha is not None else None
                    if alpha is None:
                        if not cd["unknown"]:
                            unknown.append(f"the alphabet of {src(val)} is not `nibble + constant`")
                    elif alpha != wire:
                        problems.append(f"{step} must emit {'lower' if step == 'netbios' else 'upper'} case: the alphabet {_alpha_text(wire)} "
                                        f"(encoder offset and case handling {ocase or None} give {_alpha_text(alpha)})")
                else:
                    if ocase:
                        problems.append(f"{step} output is case sensitive but is passed through .{ocase[0]}()")
                    if alpha is not None and alpha != wire:
                        problems.append(f"{step} must be encoded with the alphabet characters {wire!r} for 62/63 ({enc}); {cd['fq']} is called with {alpha!r}")
            else:
                if outer:
                    problems.append(f"recover post-processes the decoded payload: {[l[:2] for l in outer]}")
                pads = [l[1] for l in inner if l[0] == "pad"]
                if family == "netbios":
                    if pads:
                        problems.append(f"recover appends {pads} to the {step} input")
                    # the wire alphabet taken through the case mappings applied before decoding must be the decoder's alphabet
                    got = wire
                    for how in reversed(icase):
                        got = _case_shift(got, how) if got is not None else None
                    if alpha is None or got is None:
                        if not cd["unknown"]:
                            unknown.append(f"the alphabet handed to the decoder in {src(val)} is not `nibble + constant`")
                    elif got != alpha:
                        problems.append(f"{step} arrives in the alphabet {_alpha_text(wire)}, case handling {icase or None} turns it into {_alpha_text(got)}, "
                                        f"but the decoder expects {_alpha_text(alpha)}" + (" (the lower-case input must be upper-cased before decoding)" if step == "netbios" and not icase else ""))
                else:
                    if icase:
                        problems.append(f"{step} input is case sensitive but is passed through .{icase[0]}()")
                    if alpha is not None and alpha != wire:
                        problems.append(f"{step} must be decoded with the alphabet characters {wire!r} for 62/63 ({dec}); {cd['fq']} is called with {alpha!r}")
                    # Cobalt Strike emits these without '=' padding: the decoder input must be data + b"==" (>= 2 pad bytes)
                    if not pads:
                        if _is(strip_cast([a for a in list(calls[0][2].args) + [k.value for k in calls[0][2].keywords] if _mentions(a, rt.acc)][0]), rt.acc):
                            problems.append("padding is not repaired before decoding (Cobalt Strike strips '=')")
                        else:
                            unknown.append("padding repair not recognised")
                    elif set(b"".join(pads)) != {0x3D} or len(b"".join(pads)) < 2:
                        problems.append(f"padding repair appends {b''.join(pads)!r} (at least b'==' required)")
        if problems:
            ctx.ob("R2", "AGREE", T, text, False, "; ".join(problems) + f" [transform: {src(te)}; recover: {src(re_)}]")
        elif unknown:
            ctx.undecided("R2", "AGREE", T, text, "; ".join(unknown))
        else:
            ctx.ob("R2", "AGREE", T, text, True, f"transform: {src(te)} (encoder {enc}); recover: {src(re_)} (decoder {dec}); wire alphabet {_alpha_text(wire)}, case handling and padding repair as required")
    # netbios codec offsets: default offset shared
    enc, dec = ctx.repo.func("utils.netbios_encode"), ctx.repo.func("utils.netbios_decode")
    de, dd = _c(param_defaults(enc.node).get("offset")), _c(param_defaults(dec.node).get("offset"))
    ctx.ob("R2", "AGREE", enc, "netbios default offset", de == dd == 0x41, f"encoder default offset {de}, decoder {dd} (both 0x41 'A')")


# ---------------------------------------------------------------------------------------------------------------- R3
def _setitem(e: Optional[ast.AST]):
    """(container, key, value) of a symbolic `%setitem(c, k, v)`."""
    if isinstance(e, ast.Call) and dotted(e.func) == "%setitem" and len(e.args) == 3:
        return e.args[0], e.args[1], e.args[2]
    return None


def _add_operands(e: ast.AST) -> List[ast.AST]:
    if isinstance(e, ast.BinOp) and isinstance(e.op, ast.Add):
        return _add_operands(e.left) + _add_operands(e.right)
    return [e]


def r3(ctx, T, R, tt, rt, tval, rval):
    fld = _ST.get("fld") or _fields(tt)
    http = _ST.get("http") or params(R.node)[1]
    fvars: Dict[str, str] = fld["vars"]
    if fld["why"] is not None:
        ctx.undecided("R3", "AGREE", T, "request fields", fld["why"])
    else:
        bad, unk = [], []
        for name in _FIELDS:
            n, iv = fvars.get(name), fld["init"].get(name)
            if n is None:
                kws = {k.arg: k.value for k in fld["ret"].keywords if k.arg}
                if name in kws and any(isinstance(x, ast.Name) and x.id in tt.carried for x in ast.walk(kws[name])):
                    unk.append(f"{name} is returned as {src(kws[name])}")
                elif name in kws:
                    bad.append(f"{name} is returned as {src(kws[name])}: nothing the steps write")
                else:
                    bad.append(f"the returned request does not carry the {name} the steps produced")
                continue
            if isinstance(iv, ast.Attribute) and iv.attr == name and (fld["req"] is None or src(iv.value) == src(fld["req"])):
                continue
            if isinstance(iv, ast.Attribute) and iv.attr in _FIELDS:
                bad.append(f"the local returned as {name} starts as the request's {iv.attr}")
            elif iv is None:
                unk.append(f"initial value of the local returned as {name} not found")
            elif _cv(iv) is not _NC:
                bad.append(f"the local returned as {name} starts as {src(iv)}: the initial request's {name} is dropped")
            else:
                unk.append(f"the local returned as {name} starts as {src(iv)}")
        if bad:
            ctx.ob("R3", "AGREE", T, "request fields", False, "; ".join(bad + unk))
        elif unk:
            ctx.undecided("R3", "AGREE", T, "request fields", "; ".join(unk))
        else:
            ctx.ob("R3", "AGREE", T, "request fields", True, f"each field local starts as the initial request's field and is returned under its own name: {fvars}")
    rev = {v: k for k, v in fvars.items()}
    for step, fname in tables.PLACEMENTS.items():
        keyed = fname in ("headers", "params")
        tps, rps = _normal(tt.paths(step)), _normal(rt.paths(step))
        if not tps or not rps:
            continue
        text = f"placement {step}"
        problems, unknown = [], []
        if _opaque(tps) or _opaque(rps):
            unknown.append(f"not modelled: {_opaque(tps) + _opaque(rps)}")
        # ---- transform: where does the payload go
        target = fvars.get(fname)
        if target is None:
            unknown.append(f"the local carrying request.{fname} was not located")
        for p in tps if target is not None else []:
            if p.opaque:
                continue  # not fully modelled: reported as undecided above, nothing is concluded from it
            ch = tt.changed(p)
            flows = sorted(rev[n] for n, v in ch.items() if n in rev and _mentions(v, tt.acc))
            if fname not in flows:
                problems.append(f"transform does not store the payload in {fname} (payload reaches {flows or 'no request field'})")
                continue
            if flows != [fname]:
                problems.append(f"transform stores the payload in {flows}")
            v = ch[target]
            if keyed:
                si = _setitem(v)
                if si is None or not _is(si[0], target):
                    unknown.append(f"transform updates {fname} as {src(v)}")
                elif not _is(si[1], tval):
                    problems.append(f"transform stores the payload under key {src(si[1])}, not under the step argument")
                elif not _is(si[2], tt.acc):
                    unknown.append(f"transform stores {src(si[2])}")
            elif step == "uri_append":
                ops = _add_operands(v)
                if len(ops) == 2 and _is(ops[0], target) and _is(ops[1], tt.acc):
                    pass
                elif len(ops) == 2 and _is(ops[1], target) and _is(ops[0], tt.acc):
                    problems.append("transform puts the payload in front of the URI")
                elif _is(v, tt.acc):
                    problems.append("transform replaces the URI by the payload instead of appending to it")
                else:
                    unknown.append(f"transform updates the URI as {src(v)}")
            elif not _is(v, tt.acc):
                unknown.append(f"transform sets {fname} to {src(v)}")
        # ---- recover: where is it read from
        for p in rps:
            if p.opaque:
                continue  # not fully modelled: reported as undecided above, nothing is concluded from it
            v = p.env.get(rt.acc)
            reads = sorted({n.attr for n in ast.walk(v) if isinstance(n, ast.Attribute) and dotted(n.value) == http})
            if reads != [fname]:
                problems.append(f"recover reads {['http.' + r for r in reads] or src(v)} (transform writes {fname})")
                continue
            v = strip_cast(v)
            if keyed:
                if not (isinstance(v, ast.Subscript) and dotted(v.value) == f"{http}.{fname}"):
                    unknown.append(f"recover reads {src(v)}")
                elif not _is(v.slice, rval):
                    problems.append(f"recover reads key {src(v.slice)}, not the step argument")
            elif dotted(v) != f"{http}.{fname}":
                unknown.append(f"recover reads {src(v)}")
        if problems:
            ctx.ob("R3", "AGREE", T, text, False, "; ".join(sorted(set(problems + unknown))))
        elif unknown:
            ctx.undecided("R3", "AGREE", T, text, "; ".join(sorted(set(unknown))))
        else:
            ctx.ob("R3", "AGREE", T, text, True, f"transform writes the payload to {fname}{'[arg]' if keyed else ''}; recover reads it from the same place")


# ---------------------------------------------------------------------------------------------------------------- R4
def _split_part(e: ast.AST):
    """(base, method, separator, maxsplit, index) of `base.method(sep[, maxsplit])[index]`."""
    if isinstance(e, ast.Subscript) and isinstance(e.value, ast.Call) and isinstance(e.value.func, ast.Attribute) \
            and e.value.func.attr in ("partition", "rpartition", "split", "rsplit") and e.value.args:
        c = e.value
        ms = _cv(c.args[1]) if len(c.args) > 1 else next((_cv(k.value) for k in c.keywords if k.arg == "maxsplit"), None)
        return c.func.value, c.func.attr, _cv(c.args[0]), ms, _cv(e.slice)
    return None


def r4(ctx, T, R, tt, rt, tval):
    fvars: Dict[str, str] = (_ST.get("fld") or _fields(tt))["vars"]
    rev = {v: k for k, v in fvars.items()}
    for step, fname, sep in (("_header", "headers", b": "), ("_hostheader", "headers", b": "), ("_parameter", "params", b"=")):
        text = f"decoration {step}"
        tps = _normal(tt.paths(step))
        if not tps:
            ctx.ob("R4", "TAINT", T, text, False, f"transform has no branch for {step}")
        else:
            problems, unknown = [], []
            if _opaque(tps):
                unknown.append(f"not modelled: {_opaque(tps)}")
            target = fvars.get(fname)
            if target is None:
                unknown.append(f"the local carrying request.{fname} was not located")
            for p in tps:
                if p.opaque:
                    continue  # not fully modelled: reported as undecided above, nothing is concluded from it
                ch = {n: v for n, v in tt.changed(p).items() if n in rev or n == tt.acc}
                tainted = sorted(rev.get(n, "payload") for n, v in ch.items() if n != tt.acc and _mentions(v, tt.acc))
                if tainted:
                    problems.append(f"the static decoration writes the payload accumulator into {tainted}")
                if tt.acc in ch:
                    problems.append(f"the static decoration rewrites the payload accumulator: {src(ch[tt.acc])}")
                if target is None:
                    continue
                others = sorted(rev[n] for n in ch if n in rev and n != target)
                if target not in ch:
                    problems.append(f"the decoration is not written to {fname}" + (f" but to {others}" if others else ""))
                    continue
                if others:
                    problems.append(f"the decoration also changes {others}")
                si = _setitem(ch[target])
                if si is None or not _is(si[0], target):
                    unknown.append(f"{fname} updated as {src(ch[target])}")
                    continue
                parts = []
                for role, e, idx in (("name", si[1], 0), ("value", si[2], 2)):
                    if not _mentions(e, tval):
                        problems.append(f"the {role} {src(e)} is not taken from the step's own argument")
                        continue
                    sp = _split_part(e)
                    if sp is None or not _is(sp[0], tval):
                        unknown.append(f"{role} computed as {src(e)}")
                        continue
                    _b, meth, s, ms, i = sp
                    parts.append(f"{role}={meth}({s!r})[{i}]")
                    if s != sep:
                        problems.append(f"{role} split at {s!r} (required {sep!r})")
                    elif meth in ("rpartition", "rsplit"):
                        problems.append(f"{role} split at the LAST {sep!r} ({meth}); the format splits at the first")
                    elif meth == "partition":
                        if i != idx:
                            problems.append(f"{role} is part {i} of the partition (required {idx})")
                    elif meth == "split":
                        if ms != 1:
                            problems.append(f"{role} uses split() without maxsplit=1: values containing {sep!r} are truncated")
                        elif i != (0 if idx == 0 else 1):
                            problems.append(f"{role} is element {i} of the split")
            if problems:
                ctx.ob("R4", "TAINT", T, text, False, "; ".join(sorted(set(problems + unknown))))
            elif unknown:
                ctx.undecided("R4", "TAINT", T, text, "; ".join(sorted(set(unknown))))
            else:
                ctx.ob("R4", "TAINT", T, text, True, f"static decoration: never touches the payload accumulator; writes {fname}[name] = value, both split from its own argument at the first {sep!r}")
        rps = _normal(rt.paths(step))
        if not rps:
            ctx.ob("R4", "TAINT", R, text, False, f"recover has no branch for {step} (unknown-step error instead of skipping the decoration)")
        elif _opaque(rps):
            ctx.undecided("R4", "TAINT", R, text, f"not modelled: {_opaque(rps)}")
        else:
            sets = sorted({src(p.env[rt.acc]) for p in rps if src(p.env.get(rt.acc)) != rt.acc})
            ctx.ob("R4", "TAINT", R, text, not sets, "recover skips the decoration" if not sets else f"recover must skip the decoration but replaces the payload by {sets}")


# ---------------------------------------------------------------------------------------------------------------- R5
def _kind(p: _Path, arg: str) -> Optional[str]:
    """Is the step argument known to be an int / bytes on this path?"""
    for e, pol in p.fnodes:
        if pol and isinstance(e, ast.Call) and dotted(e.func) == "isinstance" and len(e.args) == 2 and _is(e.args[0], arg):
            tn = _tnames(e.args[1]) or set()
            if tn == {"int"}:
                return "int"
            if tn and tn <= {"bytes", "bytearray"}:
                return "bytes"
    return None


def _zero_state(p: _Path, n: ast.AST, arg: str) -> Optional[bool]:
    """True: n is known non-zero on the path, False: known zero, None: unknown."""
    cands = [n]
    if isinstance(n, ast.Call) and dotted(n.func) == "len" and n.args:
        cands.append(n.args[0])  # an empty bytes argument <=> length 0
    for c in cands:
        t = p.fact(c)
        if t is not None:
            return t
    zero = ast.Constant(value=0)
    t = p.fact(ast.Compare(left=n, ops=[ast.Eq()], comparators=[zero]))
    if t is not None:
        return not t
    for op, k in ((ast.Gt(), zero), (ast.GtE(), ast.Constant(value=1))):
        if p.fact(ast.Compare(left=n, ops=[op], comparators=[k])) is True:
            return True
    return None


def _bound(e: Optional[ast.AST], acc: str, arg: str):
    """Classify a slice bound: ("none"|"zero"|"N"|"-N"|"L-N"|"-N|None"|"L"|"?", the n expression)."""
    if e is None or (isinstance(e, ast.Constant) and e.value is None):
        return "none", None
    if isinstance(e, ast.BoolOp) and isinstance(e.op, ast.Or) and len(e.values) == 2 and isinstance(e.values[1], ast.Constant) and e.values[1].value is None:
        k, n = _bound(e.values[0], acc, arg)
        return ("-N|None", n) if k == "-N" else ("?", None)
    sp = sympoly(e)
    if sp is None:
        return "?", None
    if sp.is_const():
        return ("zero", None) if sp.const_value() == 0 else ("?", None)
    la, ln = f"len({acc})", f"len({arg})"
    natoms = [a for a in (arg, ln) if (a,) in sp.terms]
    if len(natoms) != 1:
        return ("L", None) if set(sp.terms) == {(la,)} and sp.terms[(la,)] == 1 else ("?", None)
    a = natoms[0]
    n = _name(arg) if a == arg else ast.Call(func=_name("len"), args=[_name(arg)], keywords=[])
    rest = {k: v for k, v in sp.terms.items() if k != (a,)}
    co = sp.terms[(a,)]
    if not rest:
        return ("N", n) if co == 1 else ("-N", n) if co == -1 else ("off", n)
    if rest == {(la,): 1} and co == -1:
        return "L-N", n
    if set(rest) <= {(la,), ()} and rest.get((la,), 1) == 1:
        return "off", n  # n (or len - n) shifted by a constant / scaled: a recognisably different number of bytes
    return "?", None


def r5(ctx, T, R, tt, rt, tval, rval):
    # ---- transform sides
    for step in ("append", "prepend"):
        ps = _normal(tt.paths(step))
        if not ps:
            continue
        problems, unknown, fills, fprob, funk = [], [], [], [], []
        if _opaque(ps):
            unknown.append(f"not modelled: {_opaque(ps)}")
        for p in ps:
            if p.opaque:
                continue  # not fully modelled: reported as undecided above, nothing is concluded from it
            v = p.env.get(tt.acc)
            ops = _add_operands(v)
            pos = [i for i, o in enumerate(ops) if _is(o, tt.acc)]
            if _is(v, tt.acc):
                problems.append("the payload is left unchanged")
                continue
            if len(pos) != 1 or len(ops) < 2:
                unknown.append(f"payload becomes {src(v)}")
                continue
            want = 0 if step == "append" else len(ops) - 1
            if pos[0] != want:
                problems.append(f"payload becomes {src(v)}: the argument is added on the wrong side")
            rest = [o for i, o in enumerate(ops) if i != pos[0]]
            if len(rest) != 1:
                unknown.append(f"payload becomes {src(v)}")
                continue
            x, kind = rest[0], _kind(p, tval)
            if kind == "int":
                fills.append(src(x))
                x = strip_cast(x)
                mult = [(a, b) for a, b in ((x.left, x.right), (x.right, x.left)) if isinstance(_cv(a), bytes)] if isinstance(x, ast.BinOp) and isinstance(x.op, ast.Mult) else []
                if isinstance(x, ast.Name) and x.id == tval:
                    fprob.append("an integer argument is concatenated to the payload as is")
                elif isinstance(x, ast.Call) and dotted(x.func) in ("bytes", "bytearray") and len(x.args) == 1 and _is(x.args[0], tval):
                    pass  # bytes(n): n filler bytes
                elif mult and len(_cv(mult[0][0])) == 1 and _is(mult[0][1], tval):
                    pass
                elif mult and (len(_cv(mult[0][0])) != 1 or (sympoly(mult[0][1]) is not None and sympoly(mult[0][1]).atoms() == {tval})):
                    fprob.append(f"an integer argument n becomes {src(x)}: not n filler bytes")
                else:
                    funk.append(f"integer argument becomes {src(x)}")
            elif not _is(x, tval):
                (problems if not _mentions(x, tval) else unknown).append(f"the bytes added are {src(x)}, not the step argument")
        text = f"{step} side"
        if problems:
            ctx.ob("R5", "AGREE", T, text, False, "; ".join(sorted(set(problems + unknown))))
        elif unknown:
            ctx.undecided("R5", "AGREE", T, text, "; ".join(sorted(set(unknown))))
        else:
            ctx.ob("R5", "AGREE", T, text, True, f"transform {step}: {sorted({src(p.env[tt.acc]) for p in ps})}")
        if fprob:
            ctx.ob("R5", "AGREE", T, f"{step} int filler", False, "; ".join(sorted(set(fprob))), nontrivial=False)
        elif funk:
            ctx.undecided("R5", "AGREE", T, f"{step} int filler", "; ".join(sorted(set(funk))))
        else:
            ctx.ob("R5", "AGREE", T, f"{step} int filler", True, f"integer arguments become a filler of that many bytes: {fills}", nontrivial=False)
    # ---- recover slices
    for step in ("prepend", "append"):
        ps = _normal(rt.paths(step))
        if not ps:
            continue
        problems, unknown, notes, lprob = [], [], [], []
        if _opaque(ps):
            unknown.append(f"not modelled: {_opaque(ps)}")
        bytes_paths = 0
        for p in ps:
            if p.opaque:
                continue  # not fully modelled: reported as undecided above, nothing is concluded from it
            v = strip_cast(p.env.get(rt.acc))
            kind = _kind(p, rval)
            bytes_paths += kind == "bytes"
            nexpr = ast.Call(func=_name("len"), args=[_name(rval)], keywords=[]) if kind == "bytes" else _name(rval)
            if _is(v, rt.acc):
                if _zero_state(p, nexpr, rval) is False:
                    notes.append("payload kept as is when n == 0")
                else:
                    problems.append(f"recover {step} leaves the payload unchanged")
                continue
            if not (isinstance(v, ast.Subscript) and isinstance(v.slice, ast.Slice) and _is(v.value, rt.acc)):
                unknown.append(f"payload becomes {src(v)}: not a slice of the payload")
                continue
            if v.slice.step is not None and _cv(v.slice.step) != 1:
                unknown.append(f"payload becomes {src(v)}")
                continue
            (lo, ln), (hi, hn) = _bound(v.slice.lower, rt.acc, rval), _bound(v.slice.upper, rt.acc, rval)
            n = ln if ln is not None else hn
            if n is not None and kind is not None:
                if kind == "bytes" and not isinstance(n, ast.Call):
                    lprob.append(f"a bytes argument is used as a slice bound without len(): {src(v)}")
                if kind == "int" and isinstance(n, ast.Call):
                    lprob.append(f"len() of an integer argument: {src(v)}")
            shape = (lo if lo != "zero" else "none", hi if hi != "L" else "none")
            if "?" in shape or (ln is not None and hn is not None):
                unknown.append(f"payload becomes {src(v)}: slice bounds not recognised")
            elif step == "prepend":
                if shape == ("N", "none"):
                    notes.append(src(v))
                else:
                    problems.append(f"recover prepend keeps {src(v)} (required: everything after the first n bytes, data[n:])")
            else:
                if shape in (("none", "L-N"), ("none", "-N|None")):
                    notes.append(f"{src(v)} - correct for n = 0")
                elif shape == ("none", "-N"):
                    nz = _zero_state(p, n, rval)
                    if nz is True:
                        notes.append(f"{src(v)} guarded by a non-zero test")
                    else:
                        problems.append(f"recover append drops the last n bytes with {src(v)}; n may be 0 (empty append argument) and `data[:-0]` is the empty string, not data")
                else:
                    problems.append(f"recover append keeps {src(v)} (required: all but the last n bytes)")
        text = f"{step} slice"
        kindname = "ABS" if step == "append" else "AGREE"
        if problems:
            ctx.ob("R5", kindname, R, text, False, "; ".join(sorted(set(problems + unknown))))
        elif unknown:
            ctx.undecided("R5", kindname, R, text, "; ".join(sorted(set(unknown))))
        else:
            ctx.ob("R5", kindname, R, text, True, f"recover {step}: {sorted(set(notes))}")
        # bytes arguments are measured
        if lprob:
            ctx.ob("R5", "AGREE", R, f"{step} len(arg)", False, "; ".join(sorted(set(lprob))), nontrivial=False)
        elif not bytes_paths and _opaque(ps):
            ctx.undecided("R5", "AGREE", R, f"{step} len(arg)", f"not modelled: {_opaque(ps)}")
        elif not bytes_paths:
            ctx.ob("R5", "AGREE", R, f"{step} len(arg)", False, "no path accepts a bytes argument (the profile parser passes the literal bytes)", nontrivial=False)
        else:
            ctx.ob("R5", "AGREE", R, f"{step} len(arg)", True, "bytes arguments are replaced by their length, integers used as they are", nontrivial=False)


# ---------------------------------------------------------------------------------------------------------------- R6
def _key_len(ctx, f, e: ast.AST, p: _Path):
    """Length in bytes of a key expression: an int, "variable", or None (unknown producer)."""
    if isinstance(e, ast.Name) and e.id in p.defs:
        e = p.defs[e.id]
    e = strip_cast(e)
    v = _cv(e)
    if isinstance(v, bytes):
        return len(v)
    if not isinstance(e, ast.Call):
        return None
    cal = ctx.rs.resolve_call(f, e)
    if cal.kind == "func" and cal.func is not None and cal.func.fq == "utils.pack":
        b = dict(bind_args(e, cal.func.node))
        b.update(cal.bound)
        s = b.get("size")
        if s is None or (isinstance(s, ast.Constant) and s.value is None):
            return "variable"
        return _cv(s) if isinstance(_cv(s), int) else None
    d = dotted(e.func) or ""
    if d in ("os.urandom", "random.randbytes", "secrets.token_bytes") and e.args:
        return _cv(e.args[0]) if isinstance(_cv(e.args[0]), int) else None
    if isinstance(e.func, ast.Attribute) and e.func.attr == "to_bytes" and e.args:
        a = e.args[1] if d == "int.to_bytes" and len(e.args) > 1 else e.args[0]
        return _cv(a) if isinstance(_cv(a), int) else None
    if d == "struct.pack" and e.args and isinstance(_cv(e.args[0]), str):
        import struct as _s
        try:
            return _s.calcsize(_cv(e.args[0]))
        except Exception:
            return None
    return None


def _xor_args(ctx, f, e: ast.AST):
    if not isinstance(e, ast.Call):
        return None
    cal = ctx.rs.resolve_call(f, e)
    if cal.kind == "func" and cal.func is not None and cal.func.fq == "utils.xor":
        b = bind_args(e, cal.func.node)
        ps = params(cal.func.node)
        if len(ps) >= 2 and b.get(ps[0]) is not None and b.get(ps[1]) is not None:
            return b[ps[0]], b[ps[1]]
    return None


def r6(ctx, T, R, tt, rt):
    tps, rps = _normal(tt.paths("mask")), _normal(rt.paths("mask"))
    if not tps or not rps:
        return
    problems, unknown = [], []
    if _opaque(tps) or _opaque(rps):
        unknown.append(f"not modelled: {_opaque(tps) + _opaque(rps)}")
    size = split = None
    judged = {"transform": 0, "recover": 0}
    for p in tps:
        if p.opaque:
            continue  # not fully modelled: reported as undecided above, nothing is concluded from it
        v = p.env.get(tt.acc)
        if _is(v, tt.acc):
            continue  # a path that passes the payload on unchanged: R10 decides whether any payload can take it
        judged["transform"] += 1
        ops = _add_operands(v)
        xa = _xor_args(ctx, T, ops[1]) if len(ops) == 2 else None
        if xa is None:
            if len(ops) == 2 and _xor_args(ctx, T, ops[0]) is not None:
                problems.append(f"transform emits {src(v)}: the key must precede the masked payload")
            else:
                unknown.append(f"transform emits {src(v)}: not key + xor(payload, key)")
            continue
        key, (xd, xk) = ops[0], xa
        if not _is(xd, tt.acc):
            problems.append(f"transform masks {src(xd)}, not the payload")
        if src(xk) != src(key):
            problems.append(f"transform prepends {src(key)} but masks with {src(xk)}")
        size = _key_len(ctx, T, key, p)
        kdef = src(p.defs.get(key.id)) if isinstance(key, ast.Name) and key.id in p.defs else src(key)
        if size is None:
            unknown.append(f"length of the key {kdef} not determined")
        elif size != 4:
            problems.append(f"the key {kdef} is {size} bytes long (the wire format has exactly 4 key bytes)")
    for p in rps:
        if p.opaque:
            continue  # not fully modelled: reported as undecided above, nothing is concluded from it
        v = p.env.get(rt.acc)
        if _is(v, rt.acc):
            continue  # pass-through path: R10
        adm = _admitted_lengths(p, len(rt.pre.fnodes), rt.acc, _ARG)
        if not isinstance(adm, str) and adm[1] is not None and adm[1] <= 4 and (_cv(v) == b"" or (_tail_of(v, rt.acc) or 0) >= 4):
            continue  # the path is taken only by blobs of at most the 4 key bytes and yields the empty payload: xor(b"", key) == b""
        judged["recover"] += 1
        xa = _xor_args(ctx, R, v)
        if xa is None:
            unknown.append(f"recover computes {src(v)}: not xor(tail, head)")
            continue

        def sl(e):
            if isinstance(e, ast.Subscript) and isinstance(e.slice, ast.Slice) and _is(e.value, rt.acc) and e.slice.step is None:
                return e.slice.lower, e.slice.upper
            return None

        d, k = sl(xa[0]), sl(xa[1])
        if d is None or k is None:
            unknown.append(f"recover computes {src(v)}: operands are not slices of the payload")
            continue
        if d[1] is not None or not (k[0] is None or _cv(k[0]) == 0):
            if d[0] is None and k[1] is None:
                problems.append(f"recover computes {src(v)}: key and data halves are swapped")
            else:
                unknown.append(f"recover computes {src(v)}")
            continue
        lo, hi = _cv(d[0]), _cv(k[1])
        if not isinstance(lo, int) or not isinstance(hi, int):
            unknown.append(f"recover splits at {src(d[0])}/{src(k[1])}: not constants")
            continue
        split = lo
        if lo != hi:
            problems.append(f"recover takes the key from the first {hi} bytes but the data from offset {lo}")
        elif lo != 4:
            problems.append(f"recover splits the message at {lo} (the wire format has exactly 4 key bytes)")
    unknown.extend(f"no path of {side} mask computes a masked value" for side, n in judged.items() if not n and not problems)
    if problems:
        ctx.ob("R6", "AGREE", T, "mask", False, "; ".join(sorted(set(problems + unknown))))
    elif unknown:
        ctx.undecided("R6", "AGREE", T, "mask", "; ".join(sorted(set(unknown))))
    else:
        ctx.ob("R6", "AGREE", T, "mask", True, f"transform prepends a {size}-byte key and XORs the payload with it; recover splits at {split} and XORs tail with head")


# ---------------------------------------------------------------------------------------------------------------- R10
# Admitted payload lengths of a path: an integer interval [lo, hi] (hi None = unbounded) minus finitely many single points.
_CMPTXT = {ast.Lt: "<", ast.LtE: "<=", ast.Gt: ">", ast.GtE: ">=", ast.Eq: "==", ast.NotEq: "!="}
_CMPNEG = {"<": ">=", "<=": ">", ">": "<=", ">=": "<", "==": "!=", "!=": "=="}
_CMPFLIP = {"<": ">", "<=": ">=", ">": "<", ">=": "<=", "==": "==", "!=": "!="}


def _tail_of(e: Optional[ast.AST], acc: str) -> Optional[int]:
    """k such that len(e) == max(len(acc) - k, 0): the accumulator itself (k = 0) or its tail `acc[k:]`, k a constant >= 0."""
    if e is None:
        return None
    if _is(e, acc):
        return 0
    e = strip_cast(e)
    if isinstance(e, ast.Subscript) and isinstance(e.slice, ast.Slice) and _is(e.value, acc) and e.slice.step is None \
            and (e.slice.upper is None or (isinstance(e.slice.upper, ast.Constant) and e.slice.upper.value is None)):
        k = 0 if e.slice.lower is None else _cv(e.slice.lower)
        if isinstance(k, int) and not isinstance(k, bool) and k >= 0:
            return k
    return None


def _len_constraints(e: ast.AST, truth: bool, acc: str):
    """One path fact as constraints on L = len(acc) (device 4, interval domain): a list of ("iv", lo, hi) / ("hole", c),
    [] when the fact says nothing about lengths, None when it talks about the accumulator in a way that is not translated.
    Recognised: truthiness of acc / acc[k:] (non-empty <=> length > 0), comparisons of acc / acc[k:] with a bytes constant,
    comparisons and truthiness of integer expressions that are linear in ONE len(acc) / len(acc[k:]) (polynomial normal form)."""
    if not _mentions(e, acc):
        return []
    k = _tail_of(e, acc)
    if k is not None:
        return _x_constraint(k, ">" if truth else "<=", 0)
    poly = op = None
    if isinstance(e, ast.Compare) and len(e.ops) == 1 and type(e.ops[0]) in _CMPTXT:
        l, r, op = e.left, e.comparators[0], _CMPTXT[type(e.ops[0])]
        for a, b in ((l, r), (r, l)):
            kb, c = _tail_of(a, acc), _cv(b)
            if kb is not None and isinstance(c, (bytes, bytearray)) and op in ("==", "!="):
                if (op == "==") == truth:
                    return _x_constraint(kb, "==", len(c))  # equal byte strings have equal lengths
                return _x_constraint(kb, ">", 0) if len(c) == 0 else []  # differing from one non-empty value excludes no length
        pl, pr = _len_poly(l, acc), _len_poly(r, acc)
        if pl is not None and pr is not None:
            poly = pl - pr
    elif isinstance(e, (ast.Call, ast.BinOp)):
        poly, op = _len_poly(e, acc), "!="  # an int is true iff it is not 0
    if poly is None:
        return None
    if not truth:
        op = _CMPNEG[op]
    atoms = sorted(poly.atoms())
    if len(atoms) != 1 or not atoms[0].startswith("%T") or set(poly.terms) - {(atoms[0],), ()}:
        return None
    a, b = poly.terms[(atoms[0],)], poly.terms.get((), 0)
    if a < 0:
        op = _CMPFLIP[op]
    return _x_constraint(int(atoms[0][2:]), op, -b / a)


def _len_poly(e: ast.AST, acc: str):
    def sub(n):
        if isinstance(n, ast.Call) and dotted(n.func) == "len" and len(n.args) == 1 and not n.keywords:
            k = _tail_of(n.args[0], acc)
            if k is not None:
                return SymPoly.atom(f"%T{k}")
        return None

    return sympoly(e, sub)


def _x_constraint(k: int, op: str, c):
    """X op c for X = max(L - k, 0), c rational, as constraints on the integer L >= 0."""
    fl, ce = math.floor(c), math.ceil(c)
    if op == "!=":
        if fl != ce or c < 0:
            return []
        return [("iv", k + 1, None)] if c == 0 else [("hole", k + int(c))]
    if op == "==":
        if fl != ce:
            return [("iv", 1, 0)]
        x1 = x2 = int(c)
    elif op == "<":
        x1, x2 = 0, ce - 1
    elif op == "<=":
        x1, x2 = 0, fl
    elif op == ">":
        x1, x2 = fl + 1, None
    else:
        x1, x2 = ce, None
    x1 = max(x1, 0)  # X >= 0 always
    if x2 is not None and x2 < x1:
        return [("iv", 1, 0)]  # empty
    return [("iv", 0 if x1 == 0 else k + x1, None if x2 is None else k + x2)]  # X == 0 <=> L <= k


def _admitted_lengths(p: _Path, skip: int, acc: str, arg: str):
    """(lo, hi, holes) of the lengths of the iteration's initial payload the facts of this path admit, or a str saying which
    fact could not be translated.  Only facts recorded during the iteration are used (the first `skip` belong to the prelude)."""
    lo, hi, holes = 0, None, set()
    for e, truth in p.fnodes[skip:]:
        cs = _len_constraints(e, truth, acc)
        if cs is None:
            return f"the test {src(e)} on the payload is not a length condition this rule translates"
        if not cs and _mentions(e, arg):
            return f"the path depends on the step argument ({src(e)})"
        for c in cs:
            if c[0] == "hole":
                holes.add(c[1])
            else:
                lo = max(lo, c[1])
                hi = c[2] if hi is None else hi if c[2] is None else min(hi, c[2])
    return lo, hi, holes


def _admits(adm, d: int, witnesses: Tuple[int, ...] = ()) -> Optional[bool]:
    """Does the admitted set contain a length >= d?  With `witnesses` (decoders: not every length is a valid encoding) a bounded
    non-empty set counts only if it contains one of those lengths (None = cannot tell); an unbounded one always does."""
    lo, hi, holes = adm
    lo = max(lo, d)
    if hi is None:
        return True  # a ray minus finitely many points
    if hi < lo or (hi - lo + 1) <= len({h for h in holes if lo <= h <= hi}):
        return False
    if not witnesses:
        return True
    return True if any(lo <= w <= hi and w not in holes for w in witnesses) else None


def _fmt_lengths(adm) -> str:
    lo, hi, holes = adm
    s = f"len >= {lo}" if hi is None else f"{lo} <= len <= {hi}"
    return s + (f", len not in {sorted(holes)}" if holes else "")


# (domain start d, witness lengths) per side and step kind: the payload lengths on which a pass-through is wrong.
#   encoder codecs: every non-empty payload (len(out) = 4*ceil(L/3) resp. 2L > L for L >= 1);   encoder mask: every payload (len(out) = L + 4)
#   decoder mask:   every blob with the 4 key bytes (len(out) = L - 4);   decoder codecs: every non-empty valid encoding (len(out) < L) - the
#   lengths of valid encodings are unbounded (all multiples of 4) and 2 and 4 characters are valid for all four codecs (netbios: 1 / 2 payload
#   bytes; base64 with the padding stripped: 1 / 3 payload bytes)
def _passthrough_domain(side: str, step: str) -> Tuple[int, Tuple[int, ...]]:
    if step == "mask":
        return (0, ()) if side == "transform" else (4, ())
    return (1, ()) if side == "transform" else (1, (2, 4))


def r10(ctx, T, R, tt, rt, tval, rval):
    """No pass-through: a length-changing encoder / decoder step must rewrite the payload on every path a payload of its domain can take."""
    for step in tables.INVERSE_PAIRS:
        for side, f, s, arg in (("transform", T, tt, tval), ("recover", R, rt, rval)):
            ps = _normal(s.paths(step))
            if not ps:
                continue  # not handled: R1
            text = f"{step} has no pass-through path"
            d, wit = _passthrough_domain(side, step)
            what = {0: "every payload", 1: "every non-empty payload" if side == "transform" else "every non-empty encoded payload", 4: "every blob of at least the 4 key bytes"}[d]
            skip = len(s.pre.fnodes)
            bad, unk, ok = [], [], []
            for p in ps:
                if p.opaque:
                    continue
                if not _is(p.env.get(s.acc), s.acc):
                    continue
                adm = _admitted_lengths(p, skip, s.acc, arg)
                if isinstance(adm, str):
                    unk.append(adm)
                    continue
                t = _admits(adm, d, wit)
                conds = sorted({("" if tr else "not ") + src(e) for e, tr in p.fnodes[skip:] if _mentions(e, s.acc)}) or ["no condition on the payload"]
                if t is True:
                    bad.append(f"the payload is passed on unchanged when {' and '.join(conds)} (payload lengths admitted: {_fmt_lengths(adm)})")
                elif t is None:
                    unk.append(f"the payload is passed on unchanged when {' and '.join(conds)}: only boundedly many lengths ({_fmt_lengths(adm)}), validity as an encoding not decided")
                else:
                    ok.append(f"kept as is only when {' and '.join(conds)}")
            if bad:
                ctx.ob("R10", "ABS", f, text, False, "; ".join(sorted(set(bad + unk))) + f" - {side} {step} changes the length of {what}, so the unchanged payload is not the "
                       f"{'encoded' if side == 'transform' else 'decoded'} one")
            elif unk or _opaque(ps):
                ctx.undecided("R10", "ABS", f, text, "; ".join(sorted(set(unk))) or f"not modelled: {_opaque(ps)}")
            else:
                ctx.ob("R10", "ABS", f, text, True, f"every path that {what} can take through {side} {step} rewrites the payload" + (f" ({'; '.join(sorted(set(ok)))})" if ok else ""))


# ---------------------------------------------------------------------------------------------------------------- R7
_SELECTORS = ("output", "id", "metadata")


def _is_request(p: _Path, http: str) -> Optional[bool]:
    """Is `http` known to be an HttpRequest (True) / known not to be one (False) on the path?"""
    known = {}
    for e, pol in p.fnodes:
        if isinstance(e, ast.Call) and dotted(e.func) == "isinstance" and len(e.args) == 2 and dotted(e.args[0]) == http:
            tn = _tnames(e.args[1])
            if tn:
                known[frozenset(x.split(".")[-1] for x in tn)] = pol
    rq, rs_, both = frozenset({"HttpRequest"}), frozenset({"HttpResponse"}), frozenset({"HttpRequest", "HttpResponse"})
    if rq in known:
        return known[rq]
    if known.get(rs_) is True:
        return False
    if known.get(rs_) is False and known.get(both) is True:
        return True
    return None


def _payload_slots(ch: Dict[str, ast.AST], acc: str):
    """Where an iteration leaves the payload accumulator, by role: ("name", local) for a loop-carried local that becomes
    the accumulator, ("item", container, key) for a constant-key entry of a loop-carried container that does
    (`%setitem(container, key, acc)`, the latest store to a key wins).  Second result: stores of the accumulator the rule
    cannot name (a computed key, a later store under a computed key that may replace the entry, another mutator)."""
    slots, unclear = set(), []
    for n, v in ch.items():
        if n == acc:
            continue
        if _is(v, acc):
            slots.add(("name", n))
            continue
        layers, b = [], v
        while isinstance(b, ast.Call) and isinstance(b.func, ast.Name) and b.func.id == "%setitem" and len(b.args) == 3:
            layers.append((b.args[1], b.args[2]))
            b = b.args[0]
        if not layers or src(b) != n:
            if isinstance(v, ast.Call) and isinstance(v.func, ast.Name) and v.func.id.startswith("%") and _mentions(v, acc):
                unclear.append(f"the payload goes into {n} through {src(v)}")
            continue
        seen, shadowed = set(), False
        for k, x in layers:  # latest store first
            kv = _cv(k)
            try:
                hash(kv)
            except TypeError:
                kv = _NC
            if kv is _NC:
                if _mentions(x, acc):
                    unclear.append(f"the payload is stored in {n} under the computed key {src(k)}")
                shadowed = True
                continue
            if (type(kv).__name__, kv) in seen:
                continue
            seen.add((type(kv).__name__, kv))
            if _is(x, acc):
                if shadowed:
                    unclear.append(f"the entry {n}[{kv!r}] may be replaced by a later store under a computed key")
                else:
                    slots.add(("item", n, kv))
    return slots, unclear


def _payload_sinks(p: _Path, acc: str, skip_effects: int = 0, skip_muts: int = 0) -> List[str]:
    """Calls and in-place updates of the iteration that receive the accumulator but do not show up as a store into a
    loop-carried local or container (setattr(obj, name, acc), sink.append(acc), f(acc) ...)."""
    out = []
    for e in p.effects[skip_effects:]:
        if _mentions(e, acc):
            out.append(f"the payload is passed to {src(e)}")
    for recv, meth, args in p.muts[skip_muts:]:
        if meth == "__setitem__" and dotted(recv) is not None:
            continue  # visible as a %setitem term of the receiver
        if meth == "update" and len(args) == 1 and isinstance(args[0], ast.Dict) and len(args[0].keys) == 1 and args[0].keys[0] is not None \
                and dotted(recv) is not None:
            continue  # the same store spelled as update({k: v})
        if any(_mentions(a, acc) for a in args):
            out.append(f"the payload is passed to {src(recv)}.{meth}(..)")
    return out


def _slot_text(slot) -> str:
    return slot[1] if slot[0] == "name" else f"{slot[1]}[{slot[2]!r}]"


def _slot_read(e: Optional[ast.AST]):
    """The slot an argument term reads: a plain local, `container[key]` / `container.get(key)` / `container.get(key, None)`
    with a constant key; None for any other term."""
    e = strip_cast(e) if e is not None else None
    if isinstance(e, ast.Call) and dotted(e.func) == "bytes" and len(e.args) == 1 and not e.keywords:
        e = strip_cast(e.args[0])
    if isinstance(e, ast.Name):
        return ("name", e.id)
    recv = key = None
    if isinstance(e, ast.Subscript) and not isinstance(e.slice, ast.Slice):
        recv, key = e.value, e.slice
    elif isinstance(e, ast.Call) and isinstance(e.func, ast.Attribute) and e.func.attr == "get" and not e.keywords and (
            len(e.args) == 1 or (len(e.args) == 2 and isinstance(e.args[1], ast.Constant) and e.args[1].value is None)):
        recv, key = e.func.value, e.args[0]
    if recv is None or dotted(recv) is None:
        return None
    kv = _cv(key)
    try:
        hash(kv)
    except TypeError:
        return None
    return None if kv is _NC else ("item", dotted(recv), kv)


def _mapping_source(e: ast.AST, depth: int = 0) -> ast.AST:
    """A shallow copy of a mapping has the entries of the mapping: dict(m), m.copy(), {**m} read as m."""
    if depth > 4:
        return e
    if isinstance(e, ast.Call) and not e.keywords:
        if dotted(e.func) in ("dict", "OrderedDict", "collections.OrderedDict") and len(e.args) == 1:
            return _mapping_source(e.args[0], depth + 1)
        if isinstance(e.func, ast.Attribute) and e.func.attr == "copy" and not e.args:
            return _mapping_source(e.func.value, depth + 1)
    if isinstance(e, ast.Dict) and len(e.keys) == 1 and e.keys[0] is None:
        return _mapping_source(e.values[0], depth + 1)
    return e


def _ctor_arg(ex: _Sym, p: _Path, c: ast.Call, field: str, names: Optional[List[str]]) -> Optional[ast.AST]:
    """The term a constructor call passes for `field`: the keyword of that name, the positional argument at the field's
    position (annotated field order of the NamedTuple class), or - for `C(**m)` - the entry `m[field]` (a call with a
    mapping passes every entry as the keyword named by its key; a dict display is looked up directly).  None when the
    call does not pass the field (the class default applies)."""
    for k in c.keywords:
        if k.arg == field:
            return k.value
    if names is not None and field in names and names.index(field) < len(c.args):
        a = c.args[names.index(field)]
        return None if isinstance(a, ast.Starred) else a
    for k in c.keywords:
        if k.arg is not None:
            continue
        m = _mapping_source(k.value)
        if isinstance(m, ast.Dict) and all(x is not None and _cv(x) is not _NC for x in m.keys):
            hit = [v for x, v in zip(m.keys, m.values) if _cv(x) == field]
            if hit:
                return hit[-1]
            continue
        return ast.Subscript(value=m, slice=ast.Constant(value=field), ctx=ast.Load())
    return None


def r7(ctx, T, R, tt, rt, tval, rval):
    c2p = _ST.get("c2") or params(T.node)[1]
    http = _ST.get("http") or params(R.node)[1]
    if tt.handles("BUILD"):
        sel, unknown, kept, seen = {}, [], [], 0
        for s in _SELECTORS:
            ps = _normal(tt.paths("build", ast.Constant(value=s)))
            if _opaque(ps):
                unknown.append(f"not modelled: {_opaque(ps)}")
            reads = set()
            for p in ps:
                if p.opaque:
                    continue  # not fully modelled: reported as undecided above, nothing is concluded from it
                v = p.env.get(tt.acc)
                seen += 1
                if v is None or _mentions(v, tt.acc):
                    # the accumulator after `build` still is (a function of) the accumulator before it: the bytes the
                    # previous block produced would be encoded and placed again by this block
                    cond = ", ".join(f"{src(e)} is {'true' if t else 'false'}" for e, t in p.fnodes) or "always"
                    kept.append(f"build {s}: payload is {src(v)} when {cond}")
                reads |= {n.attr for n in ast.walk(v) if isinstance(n, ast.Attribute) and dotted(n.value) == c2p}
                if not _is(v, tt.acc) and not reads and _cv(v) is _NC:
                    unknown.append(f"build {s}: payload becomes {src(v)}")
            sel[s] = sorted(reads)
        want = {k: [k] for k in _SELECTORS}
        if sel != want and not unknown or any(v and v != [k] for k, v in sel.items()):
            ctx.ob("R7", "AGREE", T, "build selectors", False, f"transform build reads {sel} of the C2Data argument; required {want}")
        elif unknown:
            ctx.undecided("R7", "AGREE", T, "build selectors", "; ".join(sorted(set(unknown))))
        else:
            ctx.ob("R7", "AGREE", T, "build selectors", True, f"transform build reads {sel}; required {want}")
        if kept:
            ctx.ob("R7", "AGREE", T, "build starts a new block", False,
                   "a build step must replace the payload accumulator on every path (an empty or unset field is sent as empty data); "
                   "here the previous block's bytes survive: " + "; ".join(sorted(set(kept))))
        elif not seen or unknown:
            ctx.undecided("R7", "AGREE", T, "build starts a new block", "; ".join(sorted(set(unknown))) or "no build path could be followed")
        else:
            ctx.ob("R7", "AGREE", T, "build starts a new block", True, "on every path of every selector the payload accumulator is replaced by a value that does not depend on its previous content")
    if rt.handles("BUILD"):
        store, problems, unknown = {}, [], []
        for s in _SELECTORS:
            ps = _normal(rt.paths("build", ast.Constant(value=s)))
            if _opaque(ps):
                unknown.append(f"not modelled: {_opaque(ps)}")
            got, flows = set(), []
            for p in ps:
                if p.opaque:
                    continue  # not fully modelled: reported as undecided above, nothing is concluded from it
                ch = rt.changed(p)
                slots, unclear = _payload_slots(ch, rt.acc)
                got |= slots
                flows.extend(f"build {s}: {u}" for u in unclear + _payload_sinks(p, rt.acc, len(rt.pre.effects), len(rt.pre.muts)))
                if rt.acc in ch:
                    problems.append(f"build {s} rewrites the payload: {src(ch[rt.acc])}")
            if len(got) == 1 and not flows:
                store[s] = got.pop()
            elif not got and not flows:
                (unknown if _opaque(ps) else problems).append(f"build {s} does not keep the recovered payload")
            elif flows:
                # the payload goes somewhere, but not into a slot the rule can name (a computed key, an attribute of an
                # object, a call): the store is not located - nothing is claimed about it
                unknown.extend(flows)
            else:
                unknown.append(f"build {s} stores the payload in {sorted(_slot_text(g) for g in got)}")
        if len(set(store.values())) != len(store):
            problems.append(f"two selectors share a store: { {k: _slot_text(v) for k, v in store.items()} }")
        rets = [p for p in rt.post() if p.out == "return"]
        if not rets or _opaque(rets):
            unknown.append(f"the code after the loop could not be followed to a return ({_opaque(rets)})")
        kinds = {}
        for p in rets:
            c = p.val
            if not isinstance(c, ast.Call) or not dotted(c.func):
                unknown.append(f"recover returns {src(c)}")
                continue
            cls = dotted(c.func).split(".")[-1]
            names = None
            if c.args:
                # positional construction: bind by the field order of the (NamedTuple) class definition
                sy = ctx.rs.lookup_dotted(R.module.name, dotted(c.func)) if dotted(c.func).split(".")[0] not in rt.ex.locals else None
                names = rt.ex._named_fields(sy.fq) if sy is not None and sy.kind == "class" else None
            given = {s: _ctor_arg(rt.ex, p, c, s, names) for s in _SELECTORS}
            if any(isinstance(a, ast.Starred) for a in c.args) or (c.args and names is None) or all(v is None for v in given.values()):
                unknown.append(f"recover returns {src(c)}: fields not passed by keyword")
                continue
            for s in _SELECTORS:
                if s not in store:
                    continue
                rd = _slot_read(given[s])
                if rd == store[s]:
                    continue
                if rd is None and store[s][0] == "item" and given[s] is not None and _mentions(given[s], store[s][1].split(".")[0]):
                    # the argument is computed from the container, but is not a constant-key read of it: not located
                    # (a term that does not involve the container at all cannot be the stored payload: violated)
                    unknown.append(f"{cls}.{s} is given {src(given[s])}; `build {s}` stored the payload in {_slot_text(store[s])}")
                else:
                    problems.append(f"{cls}.{s} is given {src(given[s])} but `build {s}` stored the payload in {_slot_text(store[s])}")
            rq = _is_request(p, http)
            kinds.setdefault(cls, []).append(rq)
            if cls == "ClientC2Data" and rq is not True:
                problems.append("ClientC2Data is returned without `http` being known to be an HttpRequest")
            elif cls == "ServerC2Data" and rq is True:
                problems.append("ServerC2Data is returned for an HttpRequest")
            elif cls not in ("ClientC2Data", "ServerC2Data"):
                unknown.append(f"recover returns a {cls}")
        if rets and not unknown and "ServerC2Data" not in kinds:
            problems.append("no path returns ServerC2Data (responses)")
        if rets and not unknown and "ClientC2Data" not in kinds:
            problems.append("no path returns ClientC2Data (requests)")
        if problems:
            ctx.ob("R7", "AGREE", R, "build selectors", False, "; ".join(sorted(set(problems + unknown))))
        elif unknown:
            ctx.undecided("R7", "AGREE", R, "build selectors", "; ".join(sorted(set(unknown))))
        else:
            ctx.ob("R7", "AGREE", R, "build selectors", True, f"recover build stores into { {k: _slot_text(v) for k, v in store.items()} }; returned under the like-named fields; ClientC2Data only for requests, ServerC2Data otherwise")
    r7_init(ctx)


# ---------------------------------------------------------------------------------------------------------------- R8
_FRESH_CALLS = {"dict", "OrderedDict", "collections.OrderedDict", "defaultdict", "collections.defaultdict", "bytearray", "list",
                "copy.copy", "copy.deepcopy"}


def _alts(e: ast.AST, p: _Path, depth: int = 0) -> List[ast.AST]:
    """The alternatives a value term stands for: the operands of `a or b` / `a and b`, the arms of a conditional
    expression, the joined values of a prelude merge symbol."""
    if depth > 6:
        return [e]
    e = strip_cast(e)
    if isinstance(e, ast.Name) and e.id.startswith("%phi") and isinstance(p.defs.get(e.id), ast.Tuple):
        return [a for x in p.defs[e.id].elts for a in _alts(x, p, depth + 1)]
    if isinstance(e, ast.BoolOp):
        return [a for x in e.values for a in _alts(x, p, depth + 1)]
    if isinstance(e, ast.IfExp):
        return _alts(e.body, p, depth + 1) + _alts(e.orelse, p, depth + 1)
    return [e]


def _is_alloc(e: ast.AST) -> bool:
    """An expression that creates a new container every time it is evaluated."""
    if isinstance(e, (ast.Dict, ast.DictComp, ast.List, ast.ListComp, ast.Set, ast.SetComp)):
        return True
    if isinstance(e, ast.Call):
        if dotted(e.func) in _FRESH_CALLS:
            return True
        return isinstance(e.func, ast.Attribute) and e.func.attr == "copy" and not e.args
    return False


def _outlives(ex: _Sym, e: ast.AST) -> Optional[str]:
    """Description of the object `e` denotes when that object exists before the call and after it (a module-level or
    class-level binding, an attribute of the instance); None otherwise."""
    d = dotted(e)
    if d is None or d.startswith("%"):
        return None
    head = d.split(".")[0]
    if head in ("self", "cls") and "." in d:
        attr = d.split(".")[1]
        if ex.f.cls and ex.ctx.rs.property_of(f"{ex.mod.name}.{ex.f.cls}", attr) is not None:
            return None  # a property computes its value on every access
        return f"{d} (an attribute of the {'instance / class' if head == 'self' else 'class'}, it lives across calls)"
    if head in ex.locals:
        return None
    sy = ex.ctx.rs.lookup_dotted(ex.mod.name, d)
    if sy is not None and sy.kind == "const":
        return f"{d} (bound once when {sy.module}.py is imported, shared by all calls)"
    if sy is not None and sy.kind == "class" and "." in d:
        return None
    if "." in d and ex.ctx.rs.lookup(ex.mod.name, head) is not None and ex.ctx.rs.lookup(ex.mod.name, head).kind == "class":
        return f"{d} (a class attribute, shared by all calls)"
    return None


def _ctor_field(ex: _Sym, call: ast.Call, fname: str):
    """The expression a constructor call of a package NamedTuple class gives to field `fname` ("?" if the class is not known)."""
    d = dotted(call.func)
    if d is None or d.split(".")[0] in ex.locals:
        return "?"
    sy = ex.ctx.rs.lookup_dotted(ex.mod.name, d)
    names = ex._named_fields(sy.fq) if sy is not None and sy.kind == "class" else None
    if names is None or fname not in names or any(isinstance(a, ast.Starred) for a in call.args) or any(k.arg is None for k in call.keywords):
        return "?"
    for k in call.keywords:
        if k.arg == fname:
            return k.value
    i = names.index(fname)
    return call.args[i] if i < len(call.args) else "?"


def r8(ctx, T, tt):
    """transform() is a function of (program, c2data, initial request) only: the containers the steps write into in place
    belong to the caller's initial request or are created during the call - never to an object that outlives the call."""
    fld = _ST.get("fld") or _fields(tt)
    fvars: Dict[str, str] = fld["vars"]
    rev = {v: k for k, v in fvars.items()}
    ex, pre = tt.ex, tt.pre
    text = "placements write into per-call state"
    vocab = _ST.get("vocab") or _lower_names(tables.TRANSFORM_STEPS)
    inplace: Dict[str, set] = {}
    for step in sorted(vocab):
        for p in _normal(tt.run(step.upper())):
            if p.opaque:
                continue
            for n, v in tt.changed(p).items():
                if n in rev and isinstance(v, ast.Call) and (dotted(v.func) or "").startswith(("%setitem", "%mut_")) and v.args and _is(v.args[0], n):
                    inplace.setdefault(n, set()).add(step)
    if not fvars:
        ctx.undecided("R8", "ALIAS", T, text, fld["why"] or "the locals that carry the request fields were not located")
        return
    if not inplace:
        ctx.ob("R8", "ALIAS", T, text, True, "no step updates a request field in place (every step rebinds its local to a new value)")
        return
    reqparams = set(params(T.node))
    pdef = param_defaults(T.node)
    problems, unknown, notes = [], [], []

    def shared_object(desc: str, fname: str, n: str):
        problems.append(f"steps {sorted(inplace[n])} update `{fname}` in place and, when no initial request is given, that container belongs to {desc}: "
                        "what one call places is still there in the next call's message and in messages returned earlier")

    def container(e: ast.AST, fname: str, n: str, via: str):
        """Classify one alternative of the container held by field local n."""
        e = strip_cast(e)
        if _is_alloc(e):
            notes.append(f"{fname}: {via}created in the call ({src(e)[:40]})")
            return
        if isinstance(e, ast.Name) and e.id in reqparams:
            notes.append(f"{fname}: the caller's own {e.id}")
            return
        o = _outlives(ex, e)
        if o is not None:
            shared_object(o, fname, n)
            return
        if isinstance(e, ast.Attribute):
            for holder in _alts(e.value, pre):
                holder = strip_cast(holder)
                if isinstance(holder, ast.Name) and holder.id in reqparams:
                    d = pdef.get(holder.id)
                    if d is None or (isinstance(d, ast.Constant) and d.value is None):
                        notes.append(f"{fname}: the caller's initial {holder.id}")
                    elif isinstance(d, ast.Call):
                        fe = _ctor_field(ex, d, e.attr)
                        if fe != "?" and (_is_alloc(fe) or _outlives(ex, fe)):
                            shared_object(f"the default value of parameter `{holder.id}` ({src(d)[:60]}, evaluated once when the function is defined)", fname, n)
                        else:
                            unknown.append(f"{fname}: default value of parameter {holder.id} is {src(d)[:60]}")
                    else:
                        o2 = _outlives(ex, d)
                        if o2 is not None:
                            shared_object(f"the default value of parameter `{holder.id}`: {o2}", fname, n)
                        else:
                            unknown.append(f"{fname}: default value of parameter {holder.id} is {src(d)[:60]}")
                    continue
                o = _outlives(ex, holder)
                if o is not None:
                    shared_object(o, fname, n)
                    continue
                if isinstance(holder, ast.Call):
                    fe = _ctor_field(ex, holder, e.attr)
                    if fe == "?":
                        unknown.append(f"{fname}: field {e.attr} of {src(holder)[:60]}")
                    else:
                        for a in _alts(fe, pre):
                            container(a, fname, n, f"field of a {src(holder.func)} built in the call, ")
                    continue
                unknown.append(f"{fname}: field {e.attr} of {src(holder)[:60]}")
            return
        unknown.append(f"{fname} starts as {src(e)[:60]}")

    for n in sorted(inplace):
        iv = pre.env.get(n)
        if iv is None:
            unknown.append(f"initial value of the local returned as {rev[n]} not found")
            continue
        for a in _alts(iv, pre):
            container(a, rev[n], n, "")
    if problems:
        ctx.ob("R8", "ALIAS", T, text, False, "; ".join(sorted(set(problems + unknown))))
    elif unknown:
        ctx.undecided("R8", "ALIAS", T, text, "; ".join(sorted(set(unknown))))
    else:
        ctx.ob("R8", "ALIAS", T, text, True, "containers updated in place: " + "; ".join(sorted(set(notes))))


# ---------------------------------------------------------------------------------------------------------------- R9
def _cat_operands(e: ast.AST, depth: int = 0) -> List[ast.AST]:
    """Operands of a byte-string concatenation term, left to right: `a + b`, `SEP.join([a, b])` / `SEP.join((a, b))` with a
    constant SEP (lemma join: SEP.join([x1..xn]) == x1 + SEP + x2 + .. + xn), casts and `x or b""` (lemma or-empty: for a
    bytes x, `x or b""` == x) removed.  Anything else is one operand."""
    e = strip_cast(e)
    if depth > 8:
        return [e]
    if isinstance(e, ast.Call) and dotted(e.func) in ("bytes", "bytearray") and len(e.args) == 1 and not e.keywords:
        return _cat_operands(e.args[0], depth + 1)
    if isinstance(e, ast.BinOp) and isinstance(e.op, ast.Add):
        return _cat_operands(e.left, depth + 1) + _cat_operands(e.right, depth + 1)
    if isinstance(e, ast.BoolOp) and isinstance(e.op, ast.Or) and len(e.values) == 2 and _cv(e.values[1]) in (b"", bytearray()):
        return _cat_operands(e.values[0], depth + 1)
    if isinstance(e, ast.Call) and isinstance(e.func, ast.Attribute) and e.func.attr == "join" and len(e.args) == 1 and not e.keywords \
            and isinstance(_cv(e.func.value), bytes) and isinstance(e.args[0], (ast.List, ast.Tuple)) \
            and not any(isinstance(x, ast.Starred) for x in e.args[0].elts):
        out: List[ast.AST] = []
        for i, x in enumerate(e.args[0].elts):
            if i and _cv(e.func.value):
                out.append(e.func.value)
            out.extend(_cat_operands(x, depth + 1))
        return out
    return [e]


# bytes methods whose result depends on where (or whether) some bytes occur in the receiver: applied to a location that holds an
# arbitrary payload they cannot cut the payload out for every payload (lemma content-cut, see R9)
_CONTENT_CUTS = {"partition", "rpartition", "split", "rsplit", "splitlines", "strip", "lstrip", "rstrip", "removeprefix", "removesuffix",
                 "replace", "translate", "find", "rfind", "index", "rindex", "expandtabs"}


def _known_empty(p: _Path, e: ast.AST) -> bool:
    """Is the value known to be empty on this path (a constant empty string, or a path fact `not e` / `e == b""` / `len(e) == 0`)?"""
    v = _cv(e)
    if v is not _NC:
        return isinstance(v, (bytes, bytearray, str)) and len(v) == 0
    if p.fact(e) is False:
        return True
    ln = ast.Call(func=_name("len"), args=[copy.deepcopy(e)], keywords=[])
    if p.fact(ln) is False:
        return True
    for l, r in ((e, ast.Constant(value=b"")), (ln, ast.Constant(value=0))):
        if p.fact(ast.Compare(left=copy.deepcopy(l), ops=[ast.Eq()], comparators=[r])) is True:
            return True
    return False


def _old_content(e: ast.AST, target: str, key: Optional[ast.AST]) -> bool:
    """Does the term denote what the location held before the step: the field local itself (unkeyed location), or
    `field[key]` / `field.get(key[, default])` / `field.pop(key[, default])` for the keyed one?"""
    e = strip_cast(e)
    if key is None:
        return _is(e, target)
    if isinstance(e, ast.Subscript) and not isinstance(e.slice, ast.Slice) and _is(e.value, target):
        return src(e.slice) == src(key)
    if isinstance(e, ast.Call) and isinstance(e.func, ast.Attribute) and e.func.attr in ("get", "pop") and 1 <= len(e.args) <= 2 \
            and not e.keywords and _is(e.func.value, target):
        return src(e.args[0]) == src(key)
    return False


def _placed(p: _Path, v: ast.AST, target: str, acc: str, tval: str, keyed: bool):
    """Classify the term a placement step leaves in its location.  Returns (kind, description):
    "replace" - the location holds exactly the payload afterwards;
    "keep"    - the location holds the payload concatenated with something that is not part of it and not known to be empty
                (what the location held before, a non-empty constant), or keeps what it held (setdefault);
    "?"       - not one of the recognised term shapes."""
    key = None
    if keyed:
        if isinstance(v, ast.Call) and dotted(v.func) == "%mut_setdefault" and len(v.args) == 3 and _is(v.args[0], target):
            if _is(v.args[1], tval) and _is(v.args[2], acc):
                return "keep", f"`setdefault` stores the payload only when the initial request has no {target}[argument]; an entry that is there stays"
            return "?", f"{target} updated as {src(v)}"
        si = _setitem(v)
        if si is None or not _is(si[0], target) or not _is(si[1], tval):
            return "?", f"{target} updated as {src(v)}"
        key, v = si[1], si[2]
    ops = _cat_operands(v)
    pos = [i for i, o in enumerate(ops) if _is(o, acc)]
    if len(pos) != 1 or any(_mentions(o, acc) for i, o in enumerate(ops) if i != pos[0]):
        return "?", f"the value placed is {src(v)}: not the payload / a concatenation with the payload"
    rest = [o for i, o in enumerate(ops) if i != pos[0] and not _known_empty(p, o)]
    if not rest:
        return "replace", src(v)
    old = [o for o in rest if _old_content(o, target, key)]
    consts = [o for o in rest if isinstance(_cv(o), (bytes, bytearray))]
    where = f"{target}[argument]" if keyed else target
    if old:
        return "keep", f"the location becomes {src(v)}: what the initial request (or an earlier step) put in {where} stays in front of / behind the payload"
    if consts:
        return "keep", f"the location becomes {src(v)}: the constant {src(consts[0])} is stored with the payload"
    return "?", f"the value placed is {src(v)}"


def r9(ctx, T, R, tt, rt, tval, rval):
    """A termination location is read back exactly: if transform leaves `old(P) (+) data` in location P (an update that keeps
    the initial request's content) recover must not take the whole of P for the payload."""
    fld = _ST.get("fld") or _fields(tt)
    http = _ST.get("http") or params(R.node)[1]
    fvars: Dict[str, str] = fld["vars"]
    for step, fname in tables.PLACEMENTS.items():
        keyed = fname in ("headers", "params")
        tps, rps = _normal(tt.paths(step)), _normal(rt.paths(step))
        if not tps or not rps:
            continue  # not handled on one side: R1
        text = f"{step} reads back only what was placed"
        loc = f"{fname}[argument]" if keyed else fname
        problems, unknown = [], []
        if _opaque(tps) or _opaque(rps):
            unknown.append(f"not modelled: {_opaque(tps) + _opaque(rps)}")
        target = fvars.get(fname)
        iv = fld["init"].get(fname)
        if target is None:
            unknown.append(f"the local carrying request.{fname} was not located")
        elif not (isinstance(iv, ast.Attribute) and iv.attr == fname):
            # the location does not start as the initial request's field (R3 "request fields" reports that): what it holds
            # before the step is then not the free symbol request.<field> this rule argues with
            unknown.append(f"the local returned as {fname} starts as {src(iv) if iv is not None else 'an unknown value'}, not as the initial request's {fname}")
        # ---- transform: the term left in the location
        kept, replaced, dropped = [], 0, []
        for p in tps if not unknown else []:
            if p.opaque:
                continue
            v = tt.changed(p).get(target)
            if v is None or not _mentions(v, tt.acc):
                cond = ", ".join(f"{src(e)} is {'true' if t else 'false'}" for e, t in p.fnodes) or "always"
                dropped.append(f"nothing is placed in {loc} when {cond}: the location keeps what it held")
                continue
            kind, desc = _placed(p, v, target, tt.acc, tval, keyed)
            if kind == "replace":
                replaced += 1
            elif kind == "keep":
                kept.append(desc)
            else:
                unknown.append(f"transform: {desc}")
        if not unknown and not kept and not replaced:
            unknown.append(f"no path of transform places the payload in {loc} (see R3)")
            dropped = []
        # ---- recover: the term taken from the location
        whole, partial = 0, []
        cuts, located = [], 0
        for p in rps:
            if p.opaque:
                continue
            v = p.env.get(rt.acc)
            if v is None or not any(isinstance(n, ast.Attribute) and dotted(n) == f"{http}.{fname}" for n in ast.walk(v)):
                continue  # the location is not read on this path: R3
            located += 1
            cuts.extend(src(n) for n in ast.walk(v) if isinstance(n, ast.Call) and isinstance(n.func, ast.Attribute) and n.func.attr in _CONTENT_CUTS
                        and any(isinstance(m, ast.Attribute) and dotted(m) == f"{http}.{fname}" for m in ast.walk(n.func.value)))
        ptext = f"{step} payload is taken by position, not by searching its bytes"
        if cuts:
            ctx.ob("R9", "AGREE", R, ptext, False,
                   f"recover cuts the payload out of {http}.{loc} with {sorted(set(cuts))}: where the cut falls depends on the bytes of the location, and the placed payload is an "
                   "arbitrary byte string (the last encoder may be base64 - its alphabet has '/', '+', '=' - or none at all, and prepend/append arguments are free), "
                   "so it may contain the bytes searched for, or lack them: for such payloads the part cut out is not the payload")
        elif not located or _opaque(rps):
            ctx.undecided("R9", "AGREE", R, ptext, f"recover's read of {http}.{loc} could not be followed (not modelled: {_opaque(rps)})")
        else:
            ctx.ob("R9", "AGREE", R, ptext, True, f"no search / strip / split / replace is applied to {http}.{loc}: what recover takes is determined by positions only")
        for p in rps if not unknown else []:
            if p.opaque:
                continue
            v = strip_cast(p.env.get(rt.acc))
            if keyed:
                is_whole = (isinstance(v, ast.Subscript) and not isinstance(v.slice, ast.Slice) and dotted(v.value) == f"{http}.{fname}" and _is(v.slice, rval)) or (
                    isinstance(v, ast.Call) and isinstance(v.func, ast.Attribute) and v.func.attr == "get" and dotted(v.func.value) == f"{http}.{fname}"
                    and 1 <= len(v.args) <= 2 and not v.keywords and _is(v.args[0], rval))
            else:
                is_whole = dotted(v) == f"{http}.{fname}"
            if is_whole:
                whole += 1
            else:
                partial.append(src(v))
        if not unknown:
            if whole and (kept or dropped):
                for d in sorted(set(kept + dropped)):
                    problems.append(f"{d}; recover takes the whole of {http}.{loc} for the payload and so returns something other than the placed payload "
                                    f"(for every initial request whose {loc} is not empty, when it is the request's content that stays; "
                                    "recover is not given the initial request and cannot remove it)")
            if partial:
                unknown.append(f"recover takes {sorted(set(partial))} from the location: whether that is exactly the payload "
                               + ("(the kept content removed) " if kept else "") + "is not decided"
                               + (" (the cut itself is reported by the position obligation)" if cuts else ""))
        if problems:
            ctx.ob("R9", "AGREE", R, text, False, "; ".join(sorted(set(problems + unknown))))
        elif unknown:
            ctx.undecided("R9", "AGREE", R, text, "; ".join(sorted(set(unknown))))
        else:
            ctx.ob("R9", "AGREE", R, text, True, f"transform replaces {loc} by the payload (nothing of the initial request stays in the location); recover reads the whole of {http}.{loc}")


def _orient(e: ast.AST, p: _Path, steps: str, depth: int = 0) -> Optional[int]:
    """+1: a copy of / the `steps` argument in order, -1: in reverse order, None: unknown."""
    if depth > 8:
        return None
    if isinstance(e, ast.Name) and e.id in p.defs:
        return _orient(p.defs[e.id], p, steps, depth + 1)
    e = strip_cast(e)
    if isinstance(e, ast.Name):
        return 1 if e.id == steps else None
    if isinstance(e, ast.Subscript) and isinstance(e.slice, ast.Slice) and e.slice.lower is None and e.slice.upper is None:
        st = _cv(e.slice.step) if e.slice.step is not None else 1
        o = _orient(e.value, p, steps, depth + 1)
        return None if o is None or st not in (1, -1) else o * st
    if isinstance(e, ast.Call) and len(e.args) == 1 and not e.keywords:
        d = dotted(e.func)
        o = _orient(e.args[0], p, steps, depth + 1)
        if o is None:
            return None
        if d in ("list", "tuple", "copy.copy", "copy.deepcopy", "iter"):
            return o
        if d == "reversed":
            return -o
    if isinstance(e, ast.Call) and isinstance(e.func, ast.Attribute) and e.func.attr == "copy" and not e.args:
        return _orient(e.func.value, p, steps, depth + 1)
    if isinstance(e, (ast.List, ast.Tuple)) and len(e.elts) == 1 and isinstance(e.elts[0], ast.Starred):
        return _orient(e.elts[0].value, p, steps, depth + 1)
    return None


def r7_init(ctx):
    """Constructor: rsteps is the reverse of tsteps (swapped by `reverse`), implicit BUILD first for transform, last for recover."""
    init = ctx.repo.func("c2.HttpDataTransform.__init__")
    ps_ = params(init.node)
    steps = ps_[1] if len(ps_) > 1 else "steps"
    pd = param_defaults(init.node)
    flags = [n for n in ps_[2:] if isinstance(_cv(pd.get(n)), bool)]
    opts = [n for n in ps_[2:] if n in pd and _cv(pd.get(n)) is None]
    rev, build = (flags[0] if len(flags) == 1 else None), (opts[0] if len(opts) == 1 else None)
    ex = _Sym(ctx, init, objects=True)
    paths = [p for p in ex.run(init.node.body, _Path()) if p.out in ("next", "return")]
    t1, t2 = "rsteps = reversed(tsteps)", "implicit BUILD"
    if not paths or _opaque(paths) or rev is None or build is None:
        why = f"constructor not understood (paths={len(paths)}, not modelled: {_opaque(paths)}, reverse flag={rev}, build option={build})"
        ctx.undecided("R7", "AGREE", init, t1, why)
        ctx.undecided("R7", "AGREE", init, t2, why)
        return
    problems, unknown, bprob, bunk, seen_build = [], [], [], [], 0
    for p in paths:
        tv, rv = p.env.get("self.tsteps"), p.env.get("self.rsteps")
        if tv is None or rv is None:
            problems.append("self.tsteps / self.rsteps is not assigned on every path")
            continue
        ot, orv = _orient(tv, p, steps), _orient(rv, p, steps)
        r = p.fact(_name(rev))
        desc = f"reverse={r}: tsteps={src(p.defs.get(src(tv), tv))} rsteps={src(p.defs.get(src(rv), rv))}"
        if ot is None or orv is None:
            unknown.append(desc)
        elif ot == orv:
            problems.append(f"{desc}: both lists have the same order")
        elif r is None:
            problems.append(f"{desc}: the reverse flag does not influence the order")
        elif (ot == 1) == bool(r):
            problems.append(f"{desc}: transform order must be the given order unless reverse is set")
        # implicit BUILD
        none = p.fact(ast.Compare(left=_name(build), ops=[ast.Is()], comparators=[ast.Constant(value=None)]))
        if none is None:
            t = p.fact(_name(build))
            none = None if t is None else (not t)
        muts = [(src(rc), m, a) for rc, m, a in p.muts]
        if none is True:
            if muts:
                bprob.append(f"steps are modified although no build option was given: {[(r0, m) for r0, m, _a in muts]}")
            continue
        seen_build += 1
        tm = [(m, a) for r0, m, a in muts if r0 == src(tv)]
        rm = [(m, a) for r0, m, a in muts if r0 == src(rv)]
        if src(tv) == src(rv):
            bprob.append("tsteps and rsteps are the same list object")
            continue

        def pos(ms):
            if len(ms) != 1:
                return None, None
            m, a = ms[0]
            if m == "insert" and len(a) == 2:
                i = _cv(a[0])
                return ("first" if i == 0 else f"index {src(a[0])}"), a[1]
            if m == "append" and len(a) == 1:
                return "last", a[0]
            return None, None

        (tp, tb), (rp, rb) = pos(tm), pos(rm)
        if tp is None or rp is None:
            if not tm and not rm and not muts:
                bprob.append("the build option adds no BUILD step")
            elif (not tm or not rm) and len(muts) >= 1 and all(r0 in (src(tv), src(rv)) for r0, _m, _a in muts):
                bprob.append(f"the BUILD step is added to only one of the lists: tsteps {[m for m, _ in tm]}, rsteps {[m for m, _ in rm]}")
            else:
                bunk.append(f"list updates {[(r0, m) for r0, m, _a in muts]}")
            continue
        if tp != "first" or rp != "last":
            bprob.append(f"implicit build step is {tp} for transform and {rp} for recover (required first / last)")
        for b in (tb, rb):
            e = p.defs.get(src(b), b)
            if not (isinstance(e, ast.Tuple) and len(e.elts) == 2 and isinstance(_cv(e.elts[0]), str) and _cv(e.elts[0]).lower() == "build" and _is(e.elts[1], build)):
                bprob.append(f"the implicit step is {src(e)}, not ('BUILD', {build})")
    for text, pr, un, okmsg in ((t1, problems, unknown, "recover order is the reverse of the transform order; `reverse` swaps them"),
                                (t2, bprob, bunk, "implicit build step is first for transform and last for recover")):
        if pr:
            ctx.ob("R7", "AGREE", init, text, False, "; ".join(sorted(set(pr + un))))
        elif un or (text == t2 and not seen_build):
            ctx.undecided("R7", "AGREE", init, text, "; ".join(sorted(set(un))) or "no path with a build option found")
        else:
            ctx.ob("R7", "AGREE", init, text, True, okmsg)
