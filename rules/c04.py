"""C04 - HTTP data transforms follow the wire format and are invertible (structural part)."""

from __future__ import annotations

import ast
from typing import Dict, List, Optional, Tuple

from csverif import absint, tables
from csverif.astutil import (
    assignments_to, body_walk, compare_parts, const_eval, disjuncts, dotted, fn_calls, is_const, kwarg, names_in,
    NotConst, params, src, statements,
)
from csverif.q import FuncView, guarded_by, origin, raise_class


def _c(node):
    try:
        return const_eval(node) if node is not None else None
    except NotConst:
        return None


def dispatch(fn: ast.AST, loop: ast.For, var: str) -> Tuple[Dict[str, Tuple[ast.If, List[ast.stmt]]], Optional[List[ast.stmt]]]:
    """Map each literal the if/elif chain on `var` tests to (if node, branch body); + else body."""
    table: Dict[str, Tuple[ast.If, List[ast.stmt]]] = {}
    else_body = None
    chain = [s for s in loop.body if isinstance(s, ast.If) and _lits(s.test, var)]
    if not chain:
        return table, None
    node = chain[0]
    while True:
        lits = _lits(node.test, var)
        for l in lits or []:
            table.setdefault(l, (node, node.body))
        if len(node.orelse) == 1 and isinstance(node.orelse[0], ast.If) and _lits(node.orelse[0].test, var) is not None:
            node = node.orelse[0]
            continue
        else_body = node.orelse
        break
    return table, else_body


def _lits(test: ast.AST, var: str) -> Optional[List[str]]:
    out = []
    for d in disjuncts(test):
        ok = False
        for l, op, r in compare_parts(d):
            if isinstance(op, ast.Eq) and dotted(l) == var and isinstance(_c(r), str):
                out.append(_c(r))
                ok = True
            elif isinstance(op, ast.Eq) and dotted(r) == var and isinstance(_c(l), str):
                out.append(_c(l))
                ok = True
            elif isinstance(op, ast.In) and dotted(l) == var and isinstance(r, (ast.Tuple, ast.List, ast.Set)):
                vals = [_c(e) for e in r.elts]
                if all(isinstance(v, str) for v in vals):
                    out.extend(vals)
                    ok = True
        if not ok:
            return None
    return out


_TA = _RA = "data"
_FLD = {}


def _accumulator(f, loop):
    """The local that starts as b'' before the step loop: the payload accumulator."""
    for st in statements(f.node):
        if st is loop:
            break
        tg = st.targets[0] if isinstance(st, ast.Assign) and len(st.targets) == 1 else st.target if isinstance(st, ast.AnnAssign) else None
        v = getattr(st, "value", None)
        if isinstance(tg, ast.Name) and isinstance(v, ast.Constant) and v.value == b"":
            return tg.id
    return None


def _loop_over(f, attr):
    for st in statements(f.node):
        if isinstance(st, ast.For) and dotted(st.iter) == f"self.{attr}":
            return st
    return None


def _assigns(body, name):
    out = []
    for s in body:
        for n in ast.walk(s):
            if isinstance(n, ast.Assign) and any(dotted(t) == name for t in n.targets):
                out.append(n.value)
            elif isinstance(n, ast.AugAssign) and dotted(n.target) == name:
                out.append(ast.BinOp(left=ast.Name(id=name, ctx=ast.Load()), op=n.op, right=n.value))
    return out


def _callee(ctx, f, call):
    if not isinstance(call, ast.Call):
        return None
    cal = ctx.rs.resolve_call(f, call)
    if cal.kind == "func":
        return cal.func.fq
    if cal.kind == "external":
        return cal.fq
    return dotted(call.func)


def run(ctx):
    rep = ctx.rep
    rep.explanation = (
        "Static cross-check of the sibling dispatchers HttpDataTransform.transform / .recover in c2.py: both if/elif chains "
        "are turned into step-name -> branch tables; the tables must cover everything the binary parsers can emit, pair each "
        "encoder with its reference decoder, write and read the same HTTP location, keep static decorations away from the "
        "payload accumulator, mirror prepend/append sides (including an interval check for the `x[:-n]` zero hazard), use "
        "one mask length, and bind build selectors to the like-named C2Data fields."
    )
    rep.not_decided = ["round-trip equality for all programs and payloads", "base64 padding repair", "uri_append recovering the whole URI (value-level)"]
    rep.trusted_base = ["CPython ast", "reference inverse-pair/placement tables in csverif/tables.py", "base64/urllib semantics"]
    T = ctx.repo.func("c2.HttpDataTransform.transform")
    R = ctx.repo.func("c2.HttpDataTransform.recover")
    tl, rl = _loop_over(T, "tsteps"), _loop_over(R, "rsteps")
    if tl is None or rl is None:
        ctx.ob("R1", "AGREE", T, "step loops", False, "transform must iterate self.tsteps and recover self.rsteps")
        return
    tvar = dotted(tl.target.elts[0]) if isinstance(tl.target, ast.Tuple) else None
    tval = dotted(tl.target.elts[1]) if isinstance(tl.target, ast.Tuple) else None
    rvar = dotted(rl.target.elts[0]) if isinstance(rl.target, ast.Tuple) else None
    rval = dotted(rl.target.elts[1]) if isinstance(rl.target, ast.Tuple) else None
    global _TA, _RA, _FLD
    _TA, _RA, _FLD = _accumulator(T, tl), _accumulator(R, rl), {}
    for st in statements(T.node):
        tg = st.targets[0] if isinstance(st, ast.Assign) and len(st.targets) == 1 else st.target if isinstance(st, ast.AnnAssign) else None
        v = getattr(st, "value", None)
        if isinstance(tg, ast.Name) and isinstance(v, ast.Attribute) and dotted(v.value) == "request" and v.attr in ("uri", "params", "headers", "body"):
            _FLD[v.attr] = tg.id
    if _TA is None or _RA is None:
        ctx.ob("R1", "AGREE", T, "payload accumulator", False, "no local initialised to b'' before the step loop (the payload accumulator) in transform/recover")
        return
    tt, telse = dispatch(T.node, tl, tvar)
    rt, relse = dispatch(R.node, rl, rvar)
    ctx.rep.count("transform_branches", len(tt), floor=14)
    ctx.rep.count("recover_branches", len(rt), floor=14)
    # names are lower-cased before dispatch on both sides
    for f, loop, var in ((T, tl, tvar), (R, rl, rvar)):
        low = any(isinstance(s, ast.Assign) and dotted(s.targets[0]) == var and isinstance(s.value, ast.Call) and isinstance(s.value.func, ast.Attribute)
                  and s.value.func.attr == "lower" and dotted(s.value.func.value) == var for s in loop.body)
        ctx.ob("R1", "AGREE", f, f"{var} = {var}.lower()", low, "step names are case-normalised before dispatch" if low else "step names are not lower-cased (parser emits upper-case enum names)")
    r1(ctx, T, R, tt, rt, telse, relse)
    r2(ctx, T, R, tt, rt)
    r3(ctx, T, R, tt, rt, tval, rval)
    r4(ctx, T, R, tt, rt, tval)
    r5(ctx, T, R, tt, rt, tval, rval)
    r6(ctx, T, R, tt, rt)
    r7(ctx, T, R, tt, rt, tval, rval)


def r1(ctx, T, R, tt, rt, telse, relse):
    emitted = {n.lower() for n in tables.TRANSFORM_STEPS if n not in tables.STEPS_EXEMPT} | {n.lower() for n in tables.RECOVER_STEPS}
    ctx.ob("R1", "VOCAB", T, "transform vs recover step names", set(tt) == set(rt), f"only in transform: {sorted(set(tt) - set(rt))}; only in recover: {sorted(set(rt) - set(tt))}")
    for side, f, tab in (("transform", T, tt), ("recover", R, rt)):
        miss = sorted(emitted - set(tab))
        ctx.ob("R1", "VOCAB", f, f"{side} covers parser output", not miss, f"step names the binary parsers can emit but {side} does not handle: {miss}")
    for side, f, eb in (("transform", T, telse), ("recover", R, relse)):
        ok = bool(eb) and isinstance(eb[-1], ast.Raise) and raise_class(eb[-1]) == "ValueError"
        ctx.ob("R1", "EXIT", f, f"{side} unknown step", ok, "unknown steps raise ValueError" if ok else "unknown steps are silently ignored or raise another type")
    # each recover branch distinct from a decoration must not be shared with a decoding one
    for name, (node, body) in rt.items():
        pass


def r2(ctx, T, R, tt, rt):
    for step, (enc, dec) in tables.INVERSE_PAIRS.items():
        if step == "mask":
            continue
        if step not in tt or step not in rt:
            continue
        from csverif.q import inline as _inl
        tv = [_inl(T.node, v) for v in _assigns(tt[step][1], _TA)]
        rv = [_inl(R.node, v) for v in _assigns(rt[step][1], _RA)]
        ok = False
        detail = f"transform data={[src(v) for v in tv]} recover data={[src(v) for v in rv]}"
        if len(tv) == 1 and len(rv) == 1:
            # strip case post-processing on the encoder side
            te, post = tv[0], None
            if isinstance(te, ast.Call) and isinstance(te.func, ast.Attribute) and te.func.attr in ("lower", "upper") and not te.args:
                post, te = te.func.attr, te.func.value
            re_, pre = rv[0], None
            ra = re_.args[0] if isinstance(re_, ast.Call) and re_.args else None
            if isinstance(ra, ast.Call) and isinstance(ra.func, ast.Attribute) and ra.func.attr in ("lower", "upper") and not ra.args:
                pre, ra = ra.func.attr, ra.func.value
            e_ok = _callee(ctx, T, te) == enc and isinstance(te, ast.Call) and te.args and dotted(te.args[0]) == _TA
            d_ok = _callee(ctx, R, re_) == dec and ra is not None and _RA in names_in(ra)
            case_ok = True
            if step == "netbios":
                case_ok = post == "lower" and pre == "upper"
            elif step == "netbiosu":
                case_ok = post in (None, "upper") and pre in (None, "upper")
            else:
                case_ok = post is None and pre is None
            pad_ok = True
            if step in ("base64", "base64url"):
                # Cobalt Strike emits these without '=' padding: the decoder input must be data + b"==" (>= 2 pad bytes)
                pad_ok = isinstance(ra, ast.BinOp) and isinstance(ra.op, ast.Add) and dotted(ra.left) == _RA and isinstance(_c(ra.right), bytes) and set(_c(ra.right)) == {0x3D} and len(_c(ra.right)) >= 2
            ok = e_ok and d_ok and case_ok and pad_ok
            detail = f"encoder {_callee(ctx, T, te)} (required {enc}) on data={e_ok}; decoder {_callee(ctx, R, re_)} (required {dec})={d_ok}; case handling post={post} pre={pre} ok={case_ok}; padding repaired before decoding={pad_ok}"
        ctx.ob("R2", "AGREE", T, f"pair {step}", ok, detail, tt[step][0])
    # netbios codec offsets: default offset shared
    enc, dec = ctx.repo.func("utils.netbios_encode"), ctx.repo.func("utils.netbios_decode")
    from csverif.astutil import param_defaults
    de, dd = _c(param_defaults(enc.node).get("offset")), _c(param_defaults(dec.node).get("offset"))
    ctx.ob("R2", "AGREE", enc, "netbios default offset", de == dd == 0x41, f"encoder default offset {de}, decoder {dd} (both 0x41 'A')")


def r3(ctx, T, R, tt, rt, tval, rval):
    http = params(R.node)[1]
    # transform locals bound from the request and returned under the same names
    loc = {name: (name in _FLD) for name in ("uri", "params", "headers", "body")}
    rets = [s for s in statements(T.node) if isinstance(s, ast.Return)]
    ret_ok = False
    if len(rets) == 1 and isinstance(rets[0].value, ast.Call) and isinstance(rets[0].value.func, ast.Attribute) and rets[0].value.func.attr == "_replace":
        kws = {k.arg: dotted(k.value) for k in rets[0].value.keywords}
        ret_ok = all(kws.get(n) == _FLD.get(n) for n in ("uri", "params", "headers", "body"))
    ctx.ob("R3", "AGREE", T, "request fields", all(loc.values()) and ret_ok, f"locals initialised from the request {loc}; returned under their own names={ret_ok}")
    want_t = {"print": ("body", None), "header": ("headers", tval), "parameter": ("params", tval), "uri_append": ("uri", None)}
    for step, (fname, key) in want_t.items():
        field = _FLD.get(fname, fname)
        if step not in tt or step not in rt:
            continue
        node, body = tt[step]
        ok_t = False
        wrote = []
        for s in body:
            for n in ast.walk(s):
                if isinstance(n, ast.Assign):
                    t = n.targets[0]
                    wrote.append(src(n))
                    if key is None and dotted(t) == field and (dotted(n.value) == _TA or (step == "uri_append" and isinstance(n.value, ast.BinOp) and dotted(n.value.left) == field and dotted(n.value.right) == _TA)):
                        ok_t = True
                    if key is not None and isinstance(t, ast.Subscript) and dotted(t.value) == field and dotted(t.slice) == key and dotted(n.value) == _TA:
                        ok_t = True
                elif isinstance(n, ast.AugAssign) and step == "uri_append" and dotted(n.target) == field and isinstance(n.op, ast.Add) and dotted(n.value) == _TA:
                    ok_t = True
                    wrote.append(src(n))
        rv = _assigns(rt[step][1], _RA)
        ok_r = False
        if len(rv) == 1:
            v = rv[0]
            if key is None:
                ok_r = dotted(v) == f"{http}.{fname}"
            else:
                ok_r = isinstance(v, ast.Subscript) and dotted(v.value) == f"{http}.{fname}" and dotted(v.slice) == rval
        ctx.ob("R3", "AGREE", T, f"placement {step}", ok_t and ok_r,
               f"transform writes the payload to {fname}{'[arg]' if key else ''}={ok_t} ({wrote}); recover reads {[src(x) for x in rv]} from the same place={ok_r}", node)


def r4(ctx, T, R, tt, rt, tval):
    for step, fname, sep in (("_header", "headers", b": "), ("_hostheader", "headers", b": "), ("_parameter", "params", b"=")):
        field = _FLD.get(fname, fname)
        if step not in tt:
            ctx.ob("R4", "TAINT", T, f"decoration {step}", False, f"transform has no branch for {step}")
            continue
        node, body = tt[step]
        reads_data = any(isinstance(n, ast.Name) and n.id == _TA and isinstance(n.ctx, ast.Load) for s in body for n in ast.walk(s))
        shared_with = sorted(k for k, (n2, _b) in tt.items() if n2 is node and not k.startswith("_"))
        wrote_ok = False
        seps = []
        for s in body:
            for n in ast.walk(s):
                if isinstance(n, ast.Assign) and isinstance(n.targets[0], ast.Subscript) and dotted(n.targets[0].value) == field:
                    k, v = n.targets[0].slice, n.value
                    ko, vo = origin(T.node, k), origin(T.node, v)
                    wrote_ok = tval in names_in(_part_src(T.node, body, k)) and tval in names_in(_part_src(T.node, body, v))
                if isinstance(n, ast.Call) and isinstance(n.func, ast.Attribute) and n.func.attr in ("partition", "split") and n.args:
                    seps.append(_c(n.args[0]))
        ok = not reads_data and not shared_with and wrote_ok and seps == [sep]
        ctx.ob("R4", "TAINT", T, f"decoration {step}", ok,
               f"static decoration: reads the payload accumulator={reads_data}; shares a branch with payload steps {shared_with}; writes {fname}[key]=value from its own argument={wrote_ok}; splits at {seps} (required [{sep!r}])", node)
        if step in rt:
            rnode, rbody = rt[step]
            sets = bool(_assigns(rbody, _RA))
            shared_r = sorted(k for k, (n2, _b) in rt.items() if n2 is rnode and not k.startswith("_"))
            ctx.ob("R4", "TAINT", R, f"decoration {step}", not sets and not shared_r, f"recover must skip the decoration: assigns data={sets}; shares a branch with {shared_r}", rnode)
        else:
            ctx.ob("R4", "TAINT", R, f"decoration {step}", False, f"recover has no branch for {step} (raises 'Unknown recover step')")


def _part_src(fn, body, expr):
    """expr plus the right-hand sides of the tuple-unpack that defines the names in it (within body)."""
    names = names_in(expr)
    mod = ast.Module(body=[], type_ignores=[])
    extra = [expr]
    for s in body:
        for n in ast.walk(s):
            if isinstance(n, ast.Assign) and isinstance(n.targets[0], ast.Tuple) and names & names_in(n.targets[0]):
                extra.append(n.value)
    return ast.Tuple(elts=extra, ctx=ast.Load())


def r5(ctx, T, R, tt, rt, tval, rval):
    # transform sides
    for step, left, right in (("append", _TA, tval), ("prepend", tval, _TA)):
        if step not in tt:
            continue
        vs = _assigns(tt[step][1], _TA)
        ok = len(vs) == 1 and isinstance(vs[0], ast.BinOp) and isinstance(vs[0].op, ast.Add) and dotted(vs[0].left) == left and dotted(vs[0].right) == right
        ctx.ob("R5", "AGREE", T, f"{step} side", ok, f"transform {step}: data = {[src(v) for v in vs]} (required {left} + {right})", tt[step][0])
        # int filler: b"X" * n
        fills = [v for v in _assigns(tt[step][1], tval)]
        f_ok = all(isinstance(v, ast.BinOp) and isinstance(v.op, ast.Mult) and isinstance(_c(v.left), bytes) and len(_c(v.left)) == 1 and dotted(v.right) == tval for v in fills)
        ctx.ob("R5", "AGREE", T, f"{step} int filler", f_ok, f"integer arguments become a filler of that many bytes: {[src(v) for v in fills]}", tt[step][0], nontrivial=False)
    # recover slices
    if "prepend" in rt:
        vs = _assigns(rt["prepend"][1], _RA)
        ok = len(vs) == 1 and isinstance(vs[0], ast.Subscript) and isinstance(vs[0].slice, ast.Slice) and dotted(vs[0].value) == _RA \
            and dotted(vs[0].slice.lower) == rval and vs[0].slice.upper is None and vs[0].slice.step is None
        ctx.ob("R5", "AGREE", R, "prepend slice", ok, f"recover prepend: data = {[src(v) for v in vs]} (required data[n:])", rt["prepend"][0])
    if "append" in rt:
        node, body = rt["append"]
        vs = _assigns(body, _RA)
        ok = False
        detail = f"recover append: data = {[src(v) for v in vs]}"
        if len(vs) == 1 and isinstance(vs[0], ast.Subscript) and isinstance(vs[0].slice, ast.Slice) and dotted(vs[0].value) == _RA:
            sl = vs[0].slice
            lo_ok = sl.lower is None or is_const(sl.lower, 0)
            up = sl.upper
            if lo_ok and sl.step is None and up is not None:
                if isinstance(up, ast.UnaryOp) and isinstance(up.op, ast.USub):
                    # x[:-n]: wrong for n == 0 unless n is proven >= 1 here
                    it = absint.Interp(R.node, {})
                    # interval of n: an int length (len(bytes) >= 0) - refine by dominating truthiness tests
                    nonzero = guarded_by(ctx, R, vs[0] if False else body[-1], lambda t: True if dotted(t) == dotted(up.operand) else None)
                    ok = bool(nonzero)
                    detail = (f"recover append drops the last n bytes with data[:-{src(up.operand)}]; n has interval [0, +inf) (length of the "
                              f"append argument, may be empty) and `data[:-0]` is the empty string, not data" + ("; guarded by a truthiness test" if ok else ""))
                elif isinstance(up, ast.BinOp) and isinstance(up.op, ast.Sub) and isinstance(up.left, ast.Call) and dotted(up.left.func) == "len" and dotted(up.left.args[0]) == _RA and dotted(up.right) == rval:
                    ok = True
                    detail = f"recover append keeps data[:len(data) - n] - correct for n = 0"
                else:
                    detail += " - upper bound not recognised as 'all but the last n bytes'"
        ctx.ob("R5", "ABS", R, "append slice", ok, detail, node)
    # bytes arguments are measured
    for step in ("append", "prepend"):
        if step in rt:
            conv = _assigns(rt[step][1], rval)
            ok = all(isinstance(v, ast.Call) and dotted(v.func) == "len" and dotted(v.args[0]) == rval for v in conv) and bool(conv)
            ctx.ob("R5", "AGREE", R, f"{step} len(arg)", ok, f"bytes arguments are replaced by their length: {[src(v) for v in conv]}", rt[step][0], nontrivial=False)


def r6(ctx, T, R, tt, rt):
    if "mask" not in tt or "mask" not in rt:
        return
    node, body = tt["mask"]
    size = None
    mk_name = None
    for s2 in body:
        for n2 in ast.walk(s2):
            if isinstance(n2, ast.Assign) and isinstance(n2.value, ast.Call) and isinstance(n2.targets[0], ast.Name):
                cal = ctx.rs.resolve_call(T, n2.value)
                if cal.kind == "func" and cal.func.fq == "utils.pack":
                    size = _c(cal.bound.get("size"))
                    mk_name = n2.targets[0].id
    dv = _assigns(body, _TA)
    t_ok = len(dv) == 1 and isinstance(dv[0], ast.BinOp) and isinstance(dv[0].op, ast.Add) and dotted(dv[0].left) == mk_name and isinstance(dv[0].right, ast.Call) \
        and _callee(ctx, T, dv[0].right) == "utils.xor" and [dotted(a) for a in dv[0].right.args] == [_TA, mk_name]
    rv = _assigns(rt["mask"][1], _RA)
    r_ok, split = False, None
    if len(rv) == 1 and isinstance(rv[0], ast.Call) and _callee(ctx, R, rv[0]) == "utils.xor" and len(rv[0].args) == 2:
        a, b = rv[0].args
        if isinstance(a, ast.Subscript) and isinstance(b, ast.Subscript) and isinstance(a.slice, ast.Slice) and isinstance(b.slice, ast.Slice) and dotted(a.value) == dotted(b.value) == _RA:
            lo, hi = _c(a.slice.lower), _c(b.slice.upper)
            r_ok = lo == hi and a.slice.upper is None and b.slice.lower is None
            split = lo
    ctx.ob("R6", "AGREE", T, "mask", t_ok and r_ok and size == split == 4,
           f"transform prepends a {size}-byte key and XORs with it={t_ok}; recover splits at {split} and XORs tail with head={r_ok} (4 required on both sides)", node)


def r7(ctx, T, R, tt, rt, tval, rval):
    c2p = params(T.node)[1]
    if "build" in tt:
        node, body = tt["build"]
        sel = {}
        for s in ast.walk(ast.Module(body=body, type_ignores=[])):
            if isinstance(s, ast.If):
                for l, op, r in compare_parts(s.test):
                    if isinstance(op, ast.Eq) and dotted(l) == tval and isinstance(_c(r), str):
                        v = _assigns(s.body, _TA)
                        if len(v) == 1:
                            e = v[0].values[0] if isinstance(v[0], ast.BoolOp) else v[0]
                            sel[_c(r)] = dotted(e)
        want = {k: f"{c2p}.{k}" for k in ("output", "id", "metadata")}
        ctx.ob("R7", "AGREE", T, "build selectors", sel == want, f"transform build reads {sel}; required {want}", node)
    if "build" in rt:
        node, body = rt["build"]
        sel = {}
        for s in ast.walk(ast.Module(body=body, type_ignores=[])):
            if isinstance(s, ast.If):
                for l, op, r in compare_parts(s.test):
                    if isinstance(op, ast.Eq) and dotted(l) == rval and isinstance(_c(r), str):
                        for n in s.body:
                            if isinstance(n, ast.Assign) and dotted(n.value) == _RA:
                                sel[_c(r)] = dotted(n.targets[0])
        rets = [s for s in statements(R.node) if isinstance(s, ast.Return)]
        r_ok = True
        kinds = []
        for r in rets:
            c = r.value
            if not isinstance(c, ast.Call):
                r_ok = False
                continue
            kws = {k.arg: dotted(k.value) for k in c.keywords}
            kinds.append(dotted(c.func))
            for k in ("output", "id", "metadata"):
                if kws.get(k) != sel.get(k):
                    r_ok = False
        # request -> ClientC2Data, response -> ServerC2Data
        http = params(R.node)[1]
        cli = [r for r in rets if isinstance(r.value, ast.Call) and dotted(r.value.func) == "ClientC2Data"]
        g_ok = bool(cli) and all(guarded_by(ctx, R, r, lambda t: True if isinstance(t, ast.Call) and dotted(t.func) == "isinstance" and dotted(t.args[0]) == http and dotted(t.args[1]) == "HttpRequest" else None) for r in cli)
        srv = [r for r in rets if isinstance(r.value, ast.Call) and dotted(r.value.func) == "ServerC2Data"]
        ctx.ob("R7", "AGREE", R, "build selectors", set(sel) == {"output", "id", "metadata"} and len(set(sel.values())) == 3 and r_ok and g_ok and bool(srv),
               f"recover build stores into {sel}; returned under the like-named fields={r_ok}; ClientC2Data only for requests={g_ok}; ServerC2Data otherwise={bool(srv)}", node)
    # constructor ordering: rsteps is the reverse of tsteps (before optional swap/BUILD)
    init = ctx.repo.func("c2.HttpDataTransform.__init__")
    st = {dotted(s.targets[0] if isinstance(s, ast.Assign) else s.target): s.value for s in statements(init.node) if isinstance(s, (ast.Assign, ast.AnnAssign)) and not isinstance(getattr(s, "targets", [None])[0], ast.Tuple)}
    rv = st.get("self.rsteps")
    tv = st.get("self.tsteps")
    p = params(init.node)[1]

    def rev_of(v):
        v = v.args[0] if isinstance(v, ast.Call) and dotted(v.func) == "list" and v.args else v
        if isinstance(v, ast.Subscript) and isinstance(v.slice, ast.Slice) and _c(v.slice.step) == -1 and v.slice.lower is None and v.slice.upper is None:
            return names_in(v.value)
        if isinstance(v, ast.Call) and dotted(v.func) == "reversed":
            return names_in(v.args[0])
        return set()

    ok = rv is not None and tv is not None and p in rev_of(rv) and p in names_in(tv) and not rev_of(tv)
    ctx.ob("R7", "AGREE", init, "rsteps = reversed(tsteps)", ok, f"tsteps={src(tv)} rsteps={src(rv)}: recover order is the reverse of the transform order={ok}")
    ins = [c for c in fn_calls(init.node) if isinstance(c.func, ast.Attribute) and c.func.attr in ("insert", "append")]
    shape = sorted((dotted(c.func), src(c.args[0]) if c.func.attr == "insert" else "end") for c in ins)
    ctx.ob("R7", "AGREE", init, "implicit BUILD", shape == [("self.rsteps.append", "end"), ("self.tsteps.insert", "0")], f"implicit build step is first for transform and last for recover: {shape}")
