"""C15 - Pattern scanners report exactly the true occurrences (structural conditions)."""

from __future__ import annotations

import ast
from typing import List, Optional, Tuple

from csverif import absint, loops
from csverif.absint import sympoly, SymPoly
from csverif.astutil import (
    assignments_to, body_walk, compare_parts, conjuncts, const_eval, disjuncts, dotted, fn_calls, is_const, kwarg,
    NotConst, param_defaults, params, src, statements, walk_no_nested,
)
from csverif.q import FuncView, guarded_by, origin, dominating_conditions


def _c(node):
    try:
        return const_eval(node) if node is not None else None
    except (NotConst, TypeError):
        return None


class Scanner:
    """Facts extracted from utils.iter_find_needle."""

    def __init__(self, ctx):
        self.ctx = ctx
        self.f = f = ctx.repo.func("utils.iter_find_needle")
        self.ps = params(f.node)  # fp, needle, start_offset, max_offset
        self.fv = FuncView.of(f.node)
        self.cfg = ctx.cfg(f)
        self.finds = [c for c in fn_calls(f.node) if isinstance(c.func, ast.Attribute) and c.func.attr == "find" and c.args and dotted(c.args[0]) == self.ps[1]]
        self.hay = dotted(self.finds[0].func.value) if self.finds else None
        self.carry = self.block = None
        self.hay_def = None
        if self.hay:
            defs = assignments_to(f.node, self.hay)
            if len(defs) == 1 and isinstance(defs[0][1], ast.BinOp) and isinstance(defs[0][1].op, ast.Add):
                self.hay_def = defs[0][0]
                l, r = defs[0][1].left, defs[0][1].right
                for a, b in ((l, r), (r, l)):
                    o = origin(f.node, b)
                    if isinstance(o, ast.Call) and isinstance(o.func, ast.Attribute) and o.func.attr == "read" and dotted(o.func.value) == self.ps[0]:
                        self.block, self.carry = dotted(b), dotted(a)
                        self.read_call = o
                        self.carry_first = a is l
        self.yields = [n for n in body_walk(f.node) if isinstance(n, ast.Yield)]
        self.whiles = [s for s in statements(f.node) if isinstance(s, ast.While)]

    def ok(self) -> bool:
        return bool(self.finds and self.hay and self.carry and self.block and self.yields and len(self.whiles) == 2)


def _emit(ctx, prefix, sub, kind, f, text, ok, detail, node=None):
    rule = f"{prefix}" if prefix.startswith("R8") else sub
    if prefix.startswith("R8"):
        text = f"[{sub}] {text}"
    return ctx.ob(rule, kind, f, text, ok, detail, node)


def scanner_obligations(ctx, rule_prefix: str = "") -> bool:
    """Evaluate R1-R5 for iter_find_needle; returns True iff R1 and R3 hold (offsets >= start)."""
    s = Scanner(ctx)
    f = s.f
    P = rule_prefix
    if not s.ok():
        _emit(ctx, P, "R1", "TAINT", f, "scanner shape", False, "iter_find_needle is not `hay = carry + fp.read(..)` searched with hay.find(needle, ..) in two nested loops")
        return False
    # ---- R1: provenance of the carry
    r1 = True
    for st, v in assignments_to(f.node, s.carry):
        if v is None:
            r1 = False
            _emit(ctx, P, "R1", "TAINT", f, f"{s.carry} bound by {src(st)[:40]}", False, "carry bound by a non-expression binding", st)
            continue
        cv = _c(v)
        if isinstance(cv, bytes) and len(cv) == 0:
            _emit(ctx, P, "R1", "TAINT", f, f"{s.carry} = {src(v)}", True, "initial carry is empty: every searched byte comes from the file", st)
            continue
        if isinstance(v, ast.Subscript) and isinstance(v.slice, ast.Slice) and dotted(v.value) == s.hay:
            _emit(ctx, P, "R1", "TAINT", f, f"{s.carry} = {src(v)}", True, "carry is a slice of the previous haystack (file bytes)", st)
            continue
        if isinstance(v, ast.IfExp) and all((isinstance(x, ast.Subscript) and dotted(x.value) == s.hay) or (isinstance(_c(x), bytes) and len(_c(x)) == 0) for x in (v.body, v.orelse)):
            _emit(ctx, P, "R1", "TAINT", f, f"{s.carry} = {src(v)}", True, "carry is a slice of the previous haystack or empty", st)
            continue
        # synthetic bytes: only acceptable if every yield is guarded by a comparison with the scan start
        guarded = all(guarded_by(ctx, f, y, lambda t: True if any(isinstance(op, (ast.GtE, ast.Gt)) and "offset" in src(l) for l, op, r in compare_parts(t)) else None) for y in s.yields)
        r1 = r1 and guarded
        _emit(ctx, P, "R1", "TAINT", f, f"{s.carry} = {src(v)}", guarded,
              f"carry is seeded with synthetic bytes ({src(v)}): they can complete a match that is not in the file and yield an offset before the scan start"
              + ("; yields are guarded by a start comparison" if guarded else ""), st)
    # ---- R2: tail slice bound excludes 0
    it = absint.Interp(f.node, {s.ps[1]: absint.abytes(1, None), s.ps[3]: absint.aint(0, None)})
    it.run()
    for st, v in assignments_to(f.node, s.carry):
        for sub in ([v] if v is not None else []):
            for n in ast.walk(sub):
                if isinstance(n, ast.Subscript) and isinstance(n.slice, ast.Slice) and dotted(n.value) == s.hay:
                    lo = n.slice.lower
                    if isinstance(lo, ast.UnaryOp) and isinstance(lo.op, ast.USub):
                        k = lo.operand
                        env = it.before.get(id(st), {})
                        kv = it.ev(k, env)
                        zero_excluded = kv.kind == "int" and kv.itv.excludes(0)
                        # guarded by truthiness of k: IfExp around the slice or an enclosing if
                        g = False
                        par = s.fv.parent.get(id(n))
                        if isinstance(par, ast.IfExp) and par.body is n and src(par.test) == src(k):
                            g = True
                        g = g or guarded_by(ctx, f, st, lambda t: True if src(t) == src(k) else None)
                        _emit(ctx, P, "R2", "ABS", f, f"{s.carry} = {src(v)}", zero_excluded or g,
                              f"tail slice {src(n)}: {src(k)} has interval {kv.itv} for a non-empty needle" + ("" if zero_excluded or g else
                              "; for 0 the slice `d[-0:]` is the whole buffer (1-byte needles get duplicate/garbage offsets)") + ("; guarded by its truthiness" if g else ""), st)
                    elif isinstance(lo, ast.BinOp) and isinstance(lo.op, ast.Sub) and isinstance(lo.left, ast.Call) and dotted(lo.left.func) == "len":
                        _emit(ctx, P, "R2", "ABS", f, f"{s.carry} = {src(v)}", True, f"tail slice {src(n)} is length-based (correct for 0)", st)
    # ---- R3: offset algebra
    r3 = True
    find = s.finds[0]
    fst = s.fv.stmt_of(find)
    pvar = dotted(fst.targets[0]) if isinstance(fst, ast.Assign) else None
    pos_defs = [(st, v) for st, v in assignments_to(f.node, "pos")] if True else []
    # the position variable: a local defined by fp.tell()
    posvar = None
    for st in statements(f.node):
        if isinstance(st, ast.Assign) and isinstance(st.value, ast.Call) and isinstance(st.value.func, ast.Attribute) and st.value.func.attr == "tell" and dotted(st.value.func.value) == s.ps[0]:
            posvar = dotted(st.targets[0])
            pos_st = st
    read_st = s.fv.stmt_of(s.read_call)
    for y in s.yields:
        yv = origin(f.node, y.value) if y.value is not None else None
        poly = sympoly(yv) if yv is not None else None
        ok = False
        detail = f"yield {src(yv)}: not of the form <tell before read> + <match index> - <carry length>"
        if poly is not None and posvar and pvar:
            base = SymPoly.atom(posvar) + SymPoly.atom(pvar)
            L = base - poly  # what is subtracted
            want_len = SymPoly.atom(f"len({s.carry})")
            if L == want_len:
                ok = s.carry_first
                detail = f"offset = {posvar} + {pvar} - len({s.carry}): exactly the length of the carry as concatenated"
            else:
                # some other expression X: every definition of the carry must have length X
                atoms = L.atoms()
                if len(L.terms) == 1 and len(atoms) == 1:
                    X = next(iter(atoms))
                    alldefs = True
                    for st, v in assignments_to(f.node, s.carry):
                        good = False
                        if isinstance(v, ast.BinOp) and isinstance(v.op, ast.Mult):
                            a, b = (v.left, v.right) if isinstance(_c(v.left), bytes) else (v.right, v.left)
                            good = isinstance(_c(a), bytes) and len(_c(a)) == 1 and dotted(b) == X
                        elif isinstance(v, ast.Subscript) and isinstance(v.slice, ast.Slice) and isinstance(v.slice.lower, ast.UnaryOp) and dotted(v.slice.lower.operand) == X and v.slice.upper is None:
                            good = True  # len(hay) >= X because the carry in hay already has length X
                        alldefs = alldefs and good
                    ok = alldefs and s.carry_first
                    detail = f"offset = {posvar} + {pvar} - {X}: every definition of the carry has length {X}={alldefs}"
                else:
                    detail = f"offset = {src(yv)}: subtracts {L} which is not the carry length"
            # pos is taken before the read of this iteration, nothing moves the file in between
            if ok:
                cfg = s.cfg
                dom = cfg.dominates(cfg.node(pos_st), cfg.node(read_st))
                moved = False
                for c in fn_calls(f.node):
                    if isinstance(c.func, ast.Attribute) and c.func.attr in ("seek", "read") and dotted(c.func.value) == s.ps[0] and c is not s.read_call:
                        cst = s.fv.stmt_of(c)
                        if cfg.reaches(cfg.node(pos_st), cfg.node(cst), avoiding=[cfg.node(read_st)]) and cfg.reaches(cfg.node(cst), cfg.node(read_st), avoiding=[cfg.node(pos_st)]):
                            moved = True
                ok = dom and not moved
                detail += f"; {posvar} = fp.tell() dominates the read={dom}, no other file movement in between={not moved}"
        r3 = r3 and ok
        _emit(ctx, P, "R3", "CURSOR", f, "yield " + src(y.value), ok, detail, y)
    # ---- R4: restart, carry bound, outer exits
    inner = s.fv.enclosing(find, (ast.While,))
    adv = inner is not None and pvar is not None and loops._find_advance(inner, pvar)
    init = [v for st, v in assignments_to(f.node, pvar) if v is not None and not isinstance(v, ast.Call)] if pvar else []
    _emit(ctx, P, "R4", "LOOP", f, f"{pvar} = {s.hay}.find(needle, {pvar} + 1)", bool(adv) and [_c(v) for v in init] == [-1],
          f"search restarts strictly after the previous match={bool(adv)}; starts at {[src(v) for v in init]} (-1)")
    for st, v in assignments_to(f.node, s.carry):
        if v is None:
            continue
        for n in ast.walk(v):
            if isinstance(n, ast.Subscript) and isinstance(n.slice, ast.Slice) and dotted(n.value) == s.hay:
                lo = n.slice.lower
                k = lo.operand if isinstance(lo, ast.UnaryOp) else (lo.right if isinstance(lo, ast.BinOp) else None)
                kp = _expand(f.node, k) if k is not None else None
                want = SymPoly.atom(f"len({s.ps[1]})") - SymPoly.const(1)
                _emit(ctx, P, "R4", "ABS", f, f"carry length {src(k)}", kp == want and n.slice.upper is None,
                      f"carry keeps the last {kp} bytes; required exactly len(needle) - 1 (no whole occurrence inside, no straddling occurrence lost)", st)
    outer = [w for w in s.whiles if w is not inner]
    if outer:
        o = outer[0]
        cfg = s.cfg
        H, brks = cfg.loops[id(o)]
        for b in brks:
            bst = cfg.stmt[b]
            dc = dominating_conditions(ctx, f, bst)
            conds = [("" if pol else "not ") + t for t, pol, n in dc]
            ok = any((t == s.block and not pol) or (s.ps[3] in t and pol) for t, pol, n in dc)
            _emit(ctx, P, "R4", "LOOP", f, "outer exit " + ("on empty read" if any(t == s.block and not pol for t, pol, n in dc) else "on limit" if ok else "under " + "; ".join(conds[-2:])), ok,
                  f"outer loop exit under {conds}: must be an empty read or the limit test", bst)
    # ---- R5: limit tests
    n5 = 0
    for st in statements(f.node):
        if isinstance(st, ast.If) and s.ps[3] in src(st.test):
            for dj in disjuncts(st.test):
                if s.ps[3] not in src(dj):
                    continue
                n5 += 1
                cj = conjuncts(dj)
                truthy = any(dotted(c) == s.ps[3] for c in cj)
                cmp_ok = False
                what = None
                for c in cj:
                    for l, op, r in compare_parts(c):
                        if dotted(r) == s.ps[3] and isinstance(op, ast.Gt) and dotted(l) in (posvar, pvar):
                            cmp_ok = True
                            what = dotted(l)
                        elif s.ps[3] in (dotted(l), dotted(r)):
                            what = src(c)
                _emit(ctx, P, "R5", "ABS", f, "limit test " + src(dj), truthy and cmp_ok,
                      f"limit applies only when max_offset is truthy={truthy}; compares `{what} > max_offset` strictly with the block start or the match index (both <= the occurrence's last byte)={cmp_ok}", st)
    d = param_defaults(f.node)
    _emit(ctx, P, "R5", "TABLE", f, "max_offset default", _c(d.get(s.ps[3])) == 0, f"default max_offset={src(d.get(s.ps[3]))} (0 = no limit)")
    seeks = [c for c in fn_calls(f.node) if isinstance(c.func, ast.Attribute) and c.func.attr == "seek"]
    ok = len(seeks) == 1 and dotted(seeks[0].args[0]) == s.ps[2] and guarded_by(ctx, f, seeks[0], lambda t: True if any(dotted(l) == s.ps[2] and isinstance(op, ast.IsNot) for l, op, r in compare_parts(t)) else None)
    _emit(ctx, P, "R3", "CURSOR", f, "fp.seek(start_offset)", bool(ok), "scan starts at start_offset when given, else at the current position" if ok else "start handling is not `if start_offset is not None: fp.seek(start_offset)`")
    return r1 and r3


def _expand(fn, e, depth=0) -> Optional[SymPoly]:
    """SymPoly of e with single-definition locals expanded."""
    def subst(x):
        if depth > 6:
            return None
        if isinstance(x, ast.Name):
            defs = [v for st, v in assignments_to(fn, x.id)]
            if len(defs) == 1 and defs[0] is not None and x.id not in params(fn):
                return _expand(fn, defs[0], depth + 1)
        return None
    return sympoly(e, subst)


_FACTS = {}


def scanner_facts_hold(ctx) -> bool:
    """Used by the escape analysis: offsets yielded by iter_find_needle are >= the scan start."""
    key = id(ctx.repo)
    if key not in _FACTS:
        from csverif.report import Report

        saved = ctx.rep
        ctx.rep = Report(ctx.prop, ctx.tier)
        try:
            _FACTS[key] = scanner_obligations(ctx, "R1")
        finally:
            ctx.rep = saved
    return _FACTS[key]


def run(ctx):
    rep = ctx.rep
    rep.explanation = (
        "Static analysis of utils.iter_find_needle and artifact.iter_artifactkit_payloads: provenance of every byte of the "
        "searched haystack (file reads only), interval analysis of the tail-slice bound (the `d[-0:]` hazard), symbolic "
        "offset algebra of the yielded value as a polynomial (tell-before-read + match index - length of the carry as "
        "concatenated), search-restart and carry-length conditions, operands of the limit tests; for the ArtifactKit "
        "scanner the header test, field read order/widths and per-iteration progress. These are the conditions under which "
        "the scanner's invariant holds; set equality with the true occurrences for all inputs is not decided."
    )
    rep.not_decided = ["equality with the true occurrence set for all contents and buffer sizes (the invariant is argued in DESIGN.md, not machine-checked)"]
    rep.trusted_base = ["CPython ast", "bytes.find semantics", "interval/polynomial domains in csverif/absint.py"]
    rep.assumptions = ["needle is non-empty (precondition)"]
    scanner_obligations(ctx, "")
    r6(ctx)


def r6(ctx):
    f = ctx.repo.func("artifact.iter_artifactkit_payloads")
    fv = FuncView.of(f.node)
    cfg = ctx.cfg(f)
    fobj = params(f.node)[0]
    POS = next((dotted(s2.targets[0]) for s2 in statements(f.node) if isinstance(s2, ast.Assign) and isinstance(s2.value, ast.Call) and isinstance(s2.value.func, ast.Attribute)
                and s2.value.func.attr == "tell" and dotted(s2.value.func.value) == fobj), "pos")
    ws = [s for s in statements(f.node) if isinstance(s, ast.While)]
    if len(ws) != 1:
        ctx.ob("R6", "LOOP", f, "scan loop", False, f"{len(ws)} while loops")
        return
    w = ws[0]
    ok, detail, _ = loops.analyse_loop(ctx, f, w)
    ctx.ob("R6", "LOOP", f, "scan loop progress", ok, detail, w)
    ups = [s for s in ast.walk(w) if isinstance(s, ast.AugAssign) and dotted(s.target) == POS]
    ctx.ob("R6", "LOOP", f, "pos += 1", len(ups) == 1 and isinstance(ups[0].op, ast.Add) and _c(ups[0].value) == 1, f"position advances by {[src(u) for u in ups]} (exactly 1: every offset is tested)")
    # header test: pos + 16 == u32-le(4 bytes read at pos)
    tests = [s for s in ast.walk(w) if isinstance(s, ast.If) and any(isinstance(op, ast.Eq) and POS in {n.id for n in ast.walk(s.test) if isinstance(n, ast.Name)} for l, op, r in compare_parts(s.test))]
    h_ok = False
    detail = "no `pos + 16 == u32(header)` test"
    reads = [c for c in ast.walk(w) if isinstance(c, ast.Call) and isinstance(c.func, ast.Attribute) and c.func.attr == "read" and dotted(c.func.value) == fobj]
    reads.sort(key=lambda c: (c.lineno, c.col_offset))
    for t in tests:
        for l, op, r in compare_parts(t.test):
            for a, b in ((l, r), (r, l)):
                pa = sympoly(a)
                if pa == SymPoly.atom(POS) + SymPoly.const(16) and isinstance(b, ast.Call):
                    cal = ctx.rs.resolve_call(f, b)
                    le32 = cal.kind == "func" and cal.func.fq == "utils.unpack" and _c(cal.bound.get("size")) == 4 and (_c(cal.bound.get("byteorder")) or "little") == "little"
                    first = bool(reads) and bool(b.args) and _last_def_is(f, b.args[0], reads[0], b) and _c(reads[0].args[0]) == 4
                    seek = [c for c in ast.walk(w) if isinstance(c, ast.Call) and isinstance(c.func, ast.Attribute) and c.func.attr == "seek" and dotted(c.func.value) == fobj and dotted(c.args[0]) == POS]
                    h_ok = le32 and bool(first) and bool(seek)
                    detail = f"header test `{src(t.test)}`: little-endian u32={le32}; of the 4 bytes read at pos={bool(first)}; after fobj.seek(pos)={bool(seek)}"
                    hdr_if = t
    ctx.ob("R6", "AGREE", f, "pos + 16 == u32(header)", h_ok, detail)
    # field reads inside the matching branch: size(4, le u32), xorkey(4), hints(8), payload(size)
    if h_ok:
        inner = [c for c in ast.walk(hdr_if) if isinstance(c, ast.Call) and isinstance(c.func, ast.Attribute) and c.func.attr == "read" and dotted(c.func.value) == fobj]
        inner = [c for c in inner if any(c is x for s2 in hdr_if.body for x in ast.walk(s2))]
        inner.sort(key=lambda c: (c.lineno, c.col_offset))
        widths = [src(c.args[0]) if c.args else None for c in inner]
        ctx.ob("R6", "AGREE", f, "field reads", widths[:3] == ["4", "4", "8"] and len(widths) == 4, f"reads after the header: {widths}; required 4, 4, 8 and the decoded size")
        ys = [y for y in ast.walk(hdr_if) if isinstance(y, ast.Yield)]
        y_ok = False
        detail = "no yield of ArtifactKitPayload in the matching branch"
        if len(ys) == 1 and isinstance(ys[0].value, ast.Call) and dotted(ys[0].value.func) == "ArtifactKitPayload":
            kws = {k.arg: k.value for k in ys[0].value.keywords}
            def is_read(e, i):
                o = origin(f.node, e)
                return len(inner) > i and o is inner[i]
            size_o = origin(f.node, kws.get("size")) if kws.get("size") is not None else None
            size_ok = isinstance(size_o, ast.Call) and size_o.args and origin(f.node, size_o.args[0]) is (inner[0] if inner else None)
            if size_ok:
                cal = ctx.rs.resolve_call(f, size_o)
                size_ok = cal.kind == "func" and cal.func.fq == "utils.unpack" and _c(cal.bound.get("size")) == 4 and (_c(cal.bound.get("byteorder")) or "little") == "little"
            pay = origin(f.node, kws.get("payload")) if kws.get("payload") is not None else None
            pay_ok = isinstance(pay, ast.Call) and ctx.rs.resolve_call(f, pay).fq == "utils.xor" and len(pay.args) == 2 and _last_def_is(f, pay.args[0], inner[3] if len(inner) > 3 else None, pay) and is_read(pay.args[1], 1)
            y_ok = dotted(kws.get("offset")) == POS and size_ok and is_read(kws.get("xorkey"), 1) and is_read(kws.get("hints"), 2) and pay_ok
            detail = f"offset=pos={dotted(kws.get('offset')) == POS}; size=le u32 of first read={size_ok}; xorkey=second read={is_read(kws.get('xorkey'), 1)}; hints=third read={is_read(kws.get('hints'), 2)}; payload=xor(<payload read>, <xorkey read>)={pay_ok}"
        ctx.ob("R6", "AGREE", f, "yield ArtifactKitPayload(...)", y_ok, detail)
    # start / limit handling
    mr = [s for s in ast.walk(w) if isinstance(s, ast.If) and "maxrange" in src(s.test)]
    from csverif.astutil import pmatch
    ok = len(mr) == 1 and pmatch("maxrange is not None and $p > maxrange", mr[0].test) == {"p": POS}
    ctx.ob("R6", "AGREE", f, "maxrange test", ok, f"limit test: {[src(m.test) for m in mr]}")


def _last_def_is(f, name_expr, call, at) -> bool:
    """name_expr is a local whose definition reaching `at` is `call` (multi-definition local `data`)."""
    if call is None:
        return False
    if not isinstance(name_expr, ast.Name):
        return origin(f.node, name_expr) is call
    defs = [(st, v) for st, v in assignments_to(f.node, name_expr.id) if v is not None]
    cands = [v for st, v in defs if (st.lineno, st.col_offset) < (at.lineno, at.col_offset)]
    return bool(cands) and cands[-1] is call
